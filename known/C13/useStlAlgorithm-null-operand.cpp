o o(){i n;for(i x:v)n=n|<1;}
