struct S { int m; unsigned char uc; short sh; unsigned short us; long lg; unsigned long ul; double d; float f; S *next; int *pi; int arr[4]; char c; unsigned bf : 3; int sbf : 5; };
enum E { EM = -1, E0, E1, E2 };
struct P { char c; int i; double d; short s; char t[3]; };
int fi(int x); unsigned fu(unsigned x, int y); long fl(long x, char y, double z); double fd(double x); float ff(float x);
char fc(void); short fsh(short x); unsigned char fuc(int x); unsigned long long full(int x); int *fpi(int *p, int n);
S fst(int x); S *fps(int x); void fv(int x); long double fld(void); bool fb(int x); E fe(int x);
int fsa(S s); char *fpc(int x);
void ki(long long x); void kd(long double x); void kp(const void *p); void ks(S s);
int gv; unsigned long gul;
namespace N { int nv; long nl; int nf(int x); struct T { static int sm; static long sf(int x); int tm; }; namespace M { unsigned mv; } }
struct C { int cm; short cs; int meth(int x); long meth2(int x, int y); static int smeth(int x); C *self(); };
template<class T> T tf(T x);
template<int K> int tn(int x);
template<class A, class B> A tc(B x);
long long t1(bool b1, bool b2, char c1, char c2, signed char sc1, unsigned char uc1, unsigned char uc2, short s1, unsigned short us1, unsigned short us2, int i1, int i2, int i3, unsigned int u1, unsigned u2, long l1, unsigned long ul1, long long ll1, unsigned long long ull1, E e1, float f1, double d1, double d2, long double ld1, int *pi1, int *pi2, char *pc1, unsigned char *puc1, unsigned short *pus1, long *pl1, unsigned int *pu1, double *pd1, S *ps1, S *ps2, int * *ppi1, S st1, S st2, wchar_t w1, C ob1, C *pob1, int (*pf)(int)) {
  int ai1[8]; char ac1[8]; unsigned short aus1[4]; S as1[4]; double ad1[4];
  delete --pc1;
  delete *ppi1;
  delete &i1;
  if (new double < pd1) { }
  N::nf(c2 &= E0);
  i1 = (E)-i2;
  if (i1 && pf(i2)) { }
  i1 = E1 < b2 > (i3);
  pi1 = (int *)new double[u1], static_cast<long double>(ull1);
  i1 = sizeof tf<int>(i2);
  return 0;
}
