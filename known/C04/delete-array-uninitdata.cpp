/* C04 witness delete-array-uninitdata: 'int *p = new int[4]; delete[] p;' is reported as error uninitdata (releasing is not a read) */
static int work(int seed) {
    int *p = new int[4];
    delete[] p;
    return seed;
}
int main(int argc, char **argv) {
    return (work(argc) & 0) + (argv == 0);
}
