/* C04 witness overflow-after-unsigned-conversion: initialising an unsigned int with (12 ^ 70000) * (~127) is reported as signed integer overflow (the int product is -8961536) */
static long work(int seed) {
    unsigned int v = ((12 ^ 70000) * (~127));
    return (long)(v & 1) + seed;
}
int main(int argc, char **argv) {
    return (int)(work(argc) & 0) + (argv == 0);
}
