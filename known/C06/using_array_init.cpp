// C06 witness: `using AR0 = int[3]; AR0 w = {4, 5, 6};` stays split into `int w[3]; w = {4, 5, 6};` in the token list
// (the unsplit step of the typedef simplifier covers typedef, not using); `int w[3] = {4, 5, 6};` is one declaration.
// cppcheck --dump shows the token `w` twice at 5:9 for this file and once for the expanded form.
using AR0 = int[3];
int f_init(int x) {
    AR0 w = {4, 5, 6};
    return w[x];
}
