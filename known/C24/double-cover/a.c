int f(int x)
{
    // cppcheck-suppress zerodiv
    return x / 0;
}
