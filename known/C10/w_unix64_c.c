struct S { int m; unsigned char uc; short sh; unsigned short us; long lg; unsigned long ul; double d; float f; struct S *next; int *pi; int arr[4]; char c; unsigned bf : 3; int sbf : 5; };
enum E { EM = -1, E0, E1, E2 };
struct P { char c; int i; double d; short s; char t[3]; };
int fi(int x); unsigned fu(unsigned x, int y); long fl(long x, char y, double z); double fd(double x); float ff(float x);
char fc(void); short fsh(short x); unsigned char fuc(int x); unsigned long long full(int x); int *fpi(int *p, int n);
struct S fst(int x); struct S *fps(int x); void fv(int x); long double fld(void); _Bool fb(int x); enum E fe(int x);
int fsa(struct S s); char *fpc(int x);
void ki(long long x); void kd(long double x); void kp(const void *p); void ks(struct S s);
int gv; unsigned long gul;
long long t1(_Bool b1, _Bool b2, char c1, char c2, signed char sc1, unsigned char uc1, unsigned char uc2, short s1, unsigned short us1, unsigned short us2, int i1, int i2, int i3, unsigned int u1, unsigned u2, long l1, unsigned long ul1, long long ll1, unsigned long long ull1, enum E e1, float f1, double d1, double d2, long double ld1, int *pi1, int *pi2, char *pc1, unsigned char *puc1, unsigned short *pus1, long *pl1, unsigned int *pu1, double *pd1, struct S *ps1, struct S *ps2, int * *ppi1, struct S st1, struct S st2, int (*pf)(int)) {
  int ai1[8]; char ac1[8]; unsigned short aus1[4]; struct S as1[4]; double ad1[4];
  ll1 = 5 || 7;
  ll1 = (_Bool)9;
  ll1 = 0u - 1;
  ll1 = 1 + ~65535u;
  ll1 = (char)200;
  ll1 = (long long)4e9;
  ll1 = (char)-'\r';
  ll1 = sizeof(st1) + 9 ? 2 : 3;
  ll1 = EM < 1u;
  ll1 = 0x100000001u + 0;
  ll1 = ~0xFFFFFFFFFFFFFFFF <= 0;
  ll1 = 62 - ((8L >= ~145LLu) + 8u);
  ll1 = (signed char)1 + (unsigned char)214;
  ll1 = (short)1 + (unsigned short)65000;
  ll1 = (unsigned char)1 < (signed char)254;
  return 0;
}
