void f_force(void) {
#ifdef F01
    int b1[2]; b1[3] = 0;
#endif
#ifdef F02
    int b2[2]; b2[4] = 0;
#endif
#ifdef F03
    int b3[2]; b3[5] = 0;
#endif
#ifdef F04
    int b4[2]; b4[6] = 0;
#endif
#ifdef F05
    int b5[2]; b5[7] = 0;
#endif
#ifdef F06
    int b6[2]; b6[8] = 0;
#endif
#ifdef F07
    int b7[2]; b7[9] = 0;
#endif
#ifdef F08
    int b8[2]; b8[10] = 0;
#endif
#ifdef F09
    int b9[2]; b9[11] = 0;
#endif
#ifdef F10
    int b10[2]; b10[12] = 0;
#endif
#ifdef F11
    int b11[2]; b11[13] = 0;
#endif
#ifdef F12
    int b12[2]; b12[14] = 0;
#endif
#ifdef F13
    int b13[2]; b13[15] = 0;
#endif
#ifdef F14
    int b14[2]; b14[16] = 0;
#endif
}
