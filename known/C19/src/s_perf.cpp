#include <string>
int f_perf(std::string s) {
    return (int)s.size();
}
