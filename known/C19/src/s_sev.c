#include <string.h>
#include "nonexistent_local.h"
int g_sev[4];
void f_sev_warn(char *dst) {
    memset(dst, 0, sizeof(dst));
}
void f_sev_style(int v) {
    int x = v + 1;
    x = 0;
}
void f_sev_port(int *p) {
    int x = p;
    g_sev[0] = x;
}
