int g_inc;
void f_inc(int x) {
    if (x == 3);
    {
        g_inc = x;
    }
}
