int g_def;
void f_def(void) {
#if BAR == 2
    int *p = 0;
    *p = 1;
#elif BAR == 1
    int z = 0;
    g_def = 1 / z;
#endif
}
