int f_lvl(int a, int b, int c, int d, int e) {
    int x = 0;
    if (a) { x++; }
    if (b) { x++; }
    if (c) { x++; }
    if (d) { x++; }
    if (e) { x++; }
    if (a > b) { x++; }
    return x;
}
