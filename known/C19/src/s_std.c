#include <stdlib.h>
void f_std(int n) {
    char *p = alloca(n);
    p[0] = 0;
}
