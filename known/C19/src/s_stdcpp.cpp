class SB {
public:
    virtual ~SB() {}
    virtual int vf(int a) { return a; }
};
class SD : public SB {
public:
    int vf(int a) { return a + 1; }
};
