struct SL2 { int a; };
int *f_lang2(struct SL2 *p) {
    return (int*)p;
}
