unsigned long f_plat(unsigned long x) {
    return x << 40;
}
