void f_undef(void) {
#ifdef FOO
    int *p = 0;
    *p = 1;
#endif
}
