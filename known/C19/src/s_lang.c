struct SL { int a; };
struct SL *f_lang(char *p) {
    return (struct SL*)p;
}
