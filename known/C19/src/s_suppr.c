void f_suppr(void) {
    int a[2];
    a[2] = 0; // cppcheck-suppress arrayIndexOutOfBounds
    a[3] = 0;
}
