int f_unused_fn(int x) { return x + 1; }
