int my_open(const char *n);
void my_close(int fd);
void f_lib(const char *n) {
    int fd = my_open(n);
    if (fd < 0)
        return;
}
