static inline int f_hdr(void) {
    int z = 0;
    return 10 / z;
}
