void f_cfgs(void) {
#ifdef C1
    int a1[2]; a1[2] = 0;
#endif
#ifdef C2
    int a2[2]; a2[3] = 0;
#endif
#ifdef C3
    int a3[2]; a3[4] = 0;
#endif
}
