#include "opt.h"
int f_I(void) { return f_hdr(); }
