/* C03 witness nested-return-escapes-outer-if: after 'if (x0 <= 7) { if (x0 >= 7) { return 1; } }' the value 'x0 > 7' is reported as always true (it is false for x0 = 3) */
static long f0(int x0) {
    if ((x0 <= 7)) {
        if ((x0 >= 7)) {
            return 1;
        }
    }
    return VPT(1, ">", (x0 > 7));
}
long long strtoll(const char *, char **, int);
int main(int argc, char **argv) {
    volatile long long sink = 0;
    sink += f0(argc > 1 ? (int)strtoll(argv[1], 0, 10) : 0);
    /*FINISH*/ return (int)(sink & 0);
}
