/* C03 witness bool-compare-negative: '(a == 3) > (signed char)(-78)' is reported as always false (the constant is taken as 178) although it is always true */
static long f0(int a) {
    if (VPT(1, ">", (VPT(2, "==", (a == 3)) > VPT(3, "(", (signed char)((-78)))))) {
        return 1;
    }
    return 0;
}
long long strtoll(const char *, char **, int);
int main(int argc, char **argv) {
    volatile long long sink = 0;
    sink += f0(argc > 1 ? (int)strtoll(argv[1], 0, 10) : 0);
    /*FINISH*/ return (int)(sink & 0);
}
