/* C03 witness early-return-boundary-assumed: after 'if (x1 < 3) return 0;' a later 'if (x1 > 3) { v = 65535; }' is ignored (x1 is taken to be 3): 'v < 128' is reported as always true */
static long f0(int x1) {
    int v = -5;
    if ((x1 < 3)) {
        return 0;
    }
    if ((x1 > 3)) {
        v = 65535;
    }
    if (VPT(1, "<", (v < 128))) {
        return 1;
    }
    return 2;
}
long long strtoll(const char *, char **, int);
int main(int argc, char **argv) {
    volatile long long sink = 0;
    sink += f0(argc > 1 ? (int)strtoll(argv[1], 0, 10) : 0);
    /*FINISH*/ return (int)(sink & 0);
}
