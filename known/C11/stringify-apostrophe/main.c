#define S(x) #x
S('a') S("it's")
