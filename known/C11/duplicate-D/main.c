int a = X;
