x 1
++ y
