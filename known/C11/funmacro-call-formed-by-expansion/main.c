#define F(x) [x]
#define ARGS (1)
#define ID(a) a
ID(F ARGS)
