#define E(x,y) x = ## = y
E(p,q)
