#if -0 ? 1 : 0
int a;
#else
int b;
#endif
#if 0L ? 1 : 0
int c;
#endif
