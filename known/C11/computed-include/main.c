#define ADD(x,y) [x+y]
#define INCFILE "h1.h"
#include INCFILE
