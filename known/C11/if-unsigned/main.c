#if -1 > 0u
int a;
#else
int b;
#endif
