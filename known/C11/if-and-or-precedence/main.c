#if 1 || 0 && 0
int a;
#else
int b;
#endif
