#define X 1
int a = X;
