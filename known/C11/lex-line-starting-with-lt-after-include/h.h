int h;
