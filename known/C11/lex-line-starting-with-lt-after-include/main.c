#include "h.h"
< x
