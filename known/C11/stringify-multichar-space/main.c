#define S(x) #x
S(a <= b) S(1.5 b) S(L"w" c)
