#if 0 && (1/0)
int a;
#else
int b;
#endif
#if 1 || (1/0)
int c;
#endif
#if 1 ? 2 : (1/0)
int d;
#endif
