#if 1 ? 0 : 1 ? 0 : 1
int a;
#else
int b;
#endif
