#if !0L
int a;
#else
int b;
#endif
#if !00
int c;
#endif
