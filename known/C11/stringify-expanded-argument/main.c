#define S(x) #x
#define XS(x) S(x)
#define ADD(x,y) ((x)+(y))
XS(ADD( 7 , 9 )) XS(ADD(7,9)N1)
