#define F(p) n F p
#define M F()
M(a,b)
