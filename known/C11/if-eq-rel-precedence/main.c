#if 1 == 2 > 0
int a;
#else
int b;
#endif
