#if -(-1) == 1
int a;
#else
int b;
#endif
#if !!5
int c;
#endif
#if !-1 == 0
int d;
#endif
