a >> = b
