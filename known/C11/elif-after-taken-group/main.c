#if 1
int a;
#elif NOT_A_MACRO(1) > 2
int b;
#endif
