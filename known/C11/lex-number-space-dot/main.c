x 1 .5 y 2 . z
