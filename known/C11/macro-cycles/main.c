#define M N
#define N M C
#define ID(a) a
#define W(p) ID(p)
W(M)
