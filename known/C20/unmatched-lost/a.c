// cppcheck-suppress memleak
int g(int x) { return x + 1; }
