int c = 1;
struct C {
  int c;
  int m1(int a) { return c + a; }
  int m2(int a);
};
int C::m2(int a) {
  return c + a;
}
