/* C01 witness compare-casts-negative-const: '(signed char)(1000000) >= (unsigned char)(-33)' (64 >= 223) is reported as always true: the right operand is taken as -33 converted to a 64-bit unsigned value */
static long f0(int a) {
    if (VPT(1, ">=", ((signed char)(1000000) >= (unsigned char)((-33))))) {
        return 1;
    }
    return a & 0;
}
long long strtoll(const char *, char **, int);
int main(int argc, char **argv) {
    volatile long long sink = 0;
    sink += f0(argc > 1 ? (int)strtoll(argv[1], 0, 10) : 0);
    /*FINISH*/ return (int)(sink & 0);
}
