/* C01 witness switch-constant-no-match: a switch on a constant that matches no case label still "executes" the first case: x0 claimed known 64 after the switch */
static long f0(int x0) {
    switch ((long long)(0x7fffffff)) {
    case 8: {
        x0 = 64;
    }
    }
    return (long)VPT(1, "x0", x0);
}
long long strtoll(const char *, char **, int);
int main(int argc, char **argv) {
    volatile long long sink = 0;
    sink += f0(argc > 1 ? (int)strtoll(argv[1], 0, 10) : 0);
    /*FINISH*/ return (int)(sink & 0);
}
