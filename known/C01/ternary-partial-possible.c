/* C01 witness ternary-partial-possible: a ?: with one constant arm contributes only that arm's value to range inference: (a > 1) - (c ? (x0 != 0) : 12) claimed to be -12 or -11 */
static long f0(int x0, int a) {
    int v1 = VPT(1, "-", ((a > 1) - ((x0 <= 255) ? (x0 != 0) : 12)));
    return (long)(v1);
}
long long strtoll(const char *, char **, int);
int main(int argc, char **argv) {
    long long in[8] = {0, 0, 0, 0, 0, 0, 0, 0};
    int k;
    volatile long long sink = 0;
    for (k = 1; k < argc && k <= 8; k++) {
        in[k - 1] = strtoll(argv[k], 0, 10);
    }
    sink += (long long)f0((int)in[0], (int)in[1]);
    /*FINISH*/ return (int)(sink & 0);
}
