/* C01 witness unsigned-narrow-decrement: decrement of an unsigned short wraps to 65535 but is claimed to stay below 65534 */
static long f0(unsigned short x0) {
    x0 = ((unsigned int)(x0) << 4);
    x0--;
    return (long)VPT(1, "x0", x0);
}
long long strtoll(const char *, char **, int);
int main(int argc, char **argv) {
    long long in[8] = {0, 0, 0, 0, 0, 0, 0, 0};
    int k;
    volatile long long sink = 0;
    for (k = 1; k < argc && k <= 8; k++) {
        in[k - 1] = strtoll(argv[k], 0, 10);
    }
    sink += (long long)f0((unsigned short)in[0]);
    /*FINISH*/ return (int)(sink & 0);
}
