/* C01 witness bool-operand-arith: in '(1 == 0x10) - (signed char)(-81)' the cast is given the known value 175 and the difference -175 (real: -81 and 81) */
static long f0(int x0) {
    long v3 = VPT(1, "-", ((1 == 0x10) - (signed char)((-81))));
    return v3 + (x0 & 0);
}
long long strtoll(const char *, char **, int);
int main(int argc, char **argv) {
    volatile long long sink = 0;
    sink += f0(argc > 1 ? (int)strtoll(argv[1], 0, 10) : 0);
    /*FINISH*/ return (int)(sink & 0);
}
