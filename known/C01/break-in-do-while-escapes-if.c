/* C01 witness break-in-do-while-escapes-if: after 'if (x2 != 0) { do { break; } while (c < 3); }' the variable x2 is claimed to be known 0 */
static long f0(short x2) {
    if ((x2 != 0)) {
        int c6 = 0;
        do {
            break;
        } while (c6 < 3);
    }
    if ((VPT(1, "x2", x2) > 1000000)) {
        return 1;
    }
    return 0;
}
long long strtoll(const char *, char **, int);
int main(int argc, char **argv) {
    long long in[8] = {0, 0, 0, 0, 0, 0, 0, 0};
    int k;
    volatile long long sink = 0;
    for (k = 1; k < argc && k <= 8; k++) {
        in[k - 1] = strtoll(argv[k], 0, 10);
    }
    sink += (long long)f0((short)in[0]);
    /*FINISH*/ return (int)(sink & 0);
}
