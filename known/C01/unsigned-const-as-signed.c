/* C01 witness unsigned-const-as-signed: 6 ^ 2147483648u widened to long long is reported as -2147483642 (real 2147483654) */
static long f0(int x0) {
    return (long)VPT(1, "(", (long long)(6 ^ 2147483648u));
}
long long strtoll(const char *, char **, int);
int main(int argc, char **argv) {
    long long in[8] = {0, 0, 0, 0, 0, 0, 0, 0};
    int k;
    volatile long long sink = 0;
    for (k = 1; k < argc && k <= 8; k++) {
        in[k - 1] = strtoll(argv[k], 0, 10);
    }
    sink += (long long)f0((int)in[0]);
    /*FINISH*/ return (int)(sink & 0);
}
