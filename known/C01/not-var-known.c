/* C01 witness not-var-known: a variable under '!' after a loop gets the known value 1 (real: 5) */
static long f0(int x0) {
    int c = 0;
    while (c < 5) {
        c++;
    }
    return (long)(!VPT(1, "c", c));
}
long long strtoll(const char *, char **, int);
int main(int argc, char **argv) {
    long long in[8] = {0, 0, 0, 0, 0, 0, 0, 0};
    int k;
    volatile long long sink = 0;
    for (k = 1; k < argc && k <= 8; k++) {
        in[k - 1] = strtoll(argv[k], 0, 10);
    }
    sink += (long long)f0((int)in[0]);
    /*FINISH*/ return (int)(sink & 0);
}
