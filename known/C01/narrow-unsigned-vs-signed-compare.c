/* C01 witness narrow-unsigned-vs-signed-compare: in 'v12 == v14' (unsigned short vs signed char, both promote to int) the signed operand -68 is reported as known 65468 */
static long f0(int x0) {
    unsigned short v12 = (3 * 8);
    signed char v14 = (-68);
    return (long)(v12 == VPT(1, "v14", v14)) + (x0 & 0);
}
long long strtoll(const char *, char **, int);
int main(int argc, char **argv) {
    volatile long long sink = 0;
    sink += f0(argc > 1 ? (int)strtoll(argv[1], 0, 10) : 0);
    /*FINISH*/ return (int)(sink & 0);
}
