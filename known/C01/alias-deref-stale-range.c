/* C01 witness alias-deref-stale-range: a value read back through an alias pointer keeps range facts of an earlier, already closed branch: 1000 - (*p14) claimed to be in 990..1000 */
static long g0 = 1;
static long f0(int x1) {
    if ((x1 > 1)) {
        if ((x1 > 8)) {
            g0 = 3;
        } else {
            g0 = 4;
        }
    }
    long *p14 = &g0;
    *p14 = (2 ^ x1);
    return (long)((*p14) ^ VPT(1, "-", (1000 - (*p14))));
}
long long strtoll(const char *, char **, int);
int main(int argc, char **argv) {
    volatile long long sink = 0;
    sink += f0(argc > 1 ? (int)strtoll(argv[1], 0, 10) : 0);
    /*FINISH*/ return (int)(sink & 0);
}
