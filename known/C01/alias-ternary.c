/* C01 witness alias-ternary: value stored through an alias pointer: the ?: that reads the aliased variable gets the variable's old known value */
static long f0(long x0) {
    int v = 7;
    int *p1 = &v;
    *p1 = VPT(1, "?", ((x0 > v) ? x0 : 0));
    return v;
}
long long strtoll(const char *, char **, int);
int main(int argc, char **argv) {
    long long in[8] = {0, 0, 0, 0, 0, 0, 0, 0};
    int k;
    volatile long long sink = 0;
    for (k = 1; k < argc && k <= 8; k++) {
        in[k - 1] = strtoll(argv[k], 0, 10);
    }
    sink += (long long)f0((long)in[0]);
    /*FINISH*/ return (int)(sink & 0);
}
