/* C01 witness div-range: 1 / y with y >= 1 claimed to be > 0 */
static long f0(unsigned int a) {
    return (long)VPT(1, "/", (1 / (a | 1)));
}
long long strtoll(const char *, char **, int);
int main(int argc, char **argv) {
    long long in[8] = {0, 0, 0, 0, 0, 0, 0, 0};
    int k;
    volatile long long sink = 0;
    for (k = 1; k < argc && k <= 8; k++) {
        in[k - 1] = strtoll(argv[k], 0, 10);
    }
    sink += (long long)f0((unsigned int)in[0]);
    /*FINISH*/ return (int)(sink & 0);
}
