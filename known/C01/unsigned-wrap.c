/* C01 witness unsigned-wrap: impossible-value inference ignores unsigned wrap-around: 11 - x2 claimed to be in 0..11 */
static long f0(unsigned int x2) {
    return (long)VPT(1, "-", (11 - x2));
}
long long strtoll(const char *, char **, int);
int main(int argc, char **argv) {
    long long in[8] = {0, 0, 0, 0, 0, 0, 0, 0};
    int k;
    volatile long long sink = 0;
    for (k = 1; k < argc && k <= 8; k++) {
        in[k - 1] = strtoll(argv[k], 0, 10);
    }
    sink += (long long)f0((unsigned int)in[0]);
    /*FINISH*/ return (int)(sink & 0);
}
