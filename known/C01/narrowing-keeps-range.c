/* C01 witness narrowing-keeps-range: range facts survive a narrowing conversion: signed char v = (int)x0 claimed >= 0 */
static long f0(unsigned short x0) {
    signed char v = (int)(x0);
    return (long)VPT(1, "v", v);
}
long long strtoll(const char *, char **, int);
int main(int argc, char **argv) {
    long long in[8] = {0, 0, 0, 0, 0, 0, 0, 0};
    int k;
    volatile long long sink = 0;
    for (k = 1; k < argc && k <= 8; k++) {
        in[k - 1] = strtoll(argv[k], 0, 10);
    }
    sink += (long long)f0((unsigned short)in[0]);
    /*FINISH*/ return (int)(sink & 0);
}
