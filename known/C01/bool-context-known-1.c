/* C01 witness bool-context-known-1: a variable used as a truth value gets the known value 1 although it is only known to be non-zero */
static long f0(int a0) {
    return (long)((a0 < 8) || VPT(1, "a0", a0));
}
long long strtoll(const char *, char **, int);
int main(int argc, char **argv) {
    long long in[8] = {0, 0, 0, 0, 0, 0, 0, 0};
    int k;
    volatile long long sink = 0;
    for (k = 1; k < argc && k <= 8; k++) {
        in[k - 1] = strtoll(argv[k], 0, 10);
    }
    sink += (long long)f0((int)in[0]);
    /*FINISH*/ return (int)(sink & 0);
}
