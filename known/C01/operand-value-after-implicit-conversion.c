/* C01 witness operand-value-after-implicit-conversion: the operand of an implicit conversion to an unsigned type carries the converted value: (8 & 6) - 4 known 4294967292 */
static long f0(int x0) {
    unsigned int v9 = VPT(1, "-", ((8 & 6) - 4));
    return (long)(v9 & 1);
}
long long strtoll(const char *, char **, int);
int main(int argc, char **argv) {
    long long in[8] = {0, 0, 0, 0, 0, 0, 0, 0};
    int k;
    volatile long long sink = 0;
    for (k = 1; k < argc && k <= 8; k++) {
        in[k - 1] = strtoll(argv[k], 0, 10);
    }
    sink += (long long)f0((int)in[0]);
    /*FINISH*/ return (int)(sink & 0);
}
