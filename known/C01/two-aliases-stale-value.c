/* C01 witness two-aliases-stale-value: write through a second alias pointer is not seen by reads through the first: *p13 claimed known 9 after *p14 = 96 */
static long f0(short x0) {
    short *p13 = &x0;
    *p13 = (long long)(9);
    short *p14 = &x0;
    *p14 = 96;
    return (long)VPT(1, "^", (((long long)(0 & 65535) << ((*p14) & 15)) ^ ((*p14) & (*p13))));
}
long long strtoll(const char *, char **, int);
int main(int argc, char **argv) {
    long long in[8] = {0, 0, 0, 0, 0, 0, 0, 0};
    int k;
    volatile long long sink = 0;
    for (k = 1; k < argc && k <= 8; k++) {
        in[k - 1] = strtoll(argv[k], 0, 10);
    }
    sink += (long long)f0((short)in[0]);
    /*FINISH*/ return (int)(sink & 0);
}
