/* C02 witness set-insert-existing: inserting an element that is already in a std::set is counted as +1: size claimed known 4, real 3 */
#include <set>
static long sink = 0;
static void f0(int x) {
    std::set<int> c2 = {3, 7, 9};
    c2.insert(3);
    sink += (long)VST(1, c2).size();
}
long long strtoll(const char *, char **, int);
int main(int argc, char **argv) {
    f0(argc > 1 ? (int)strtoll(argv[1], 0, 10) : 0);
    /*FINISH*/ return (int)(sink & 0);
}
