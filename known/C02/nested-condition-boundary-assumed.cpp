/* C02 witness nested-condition-boundary-assumed: inside 'if (x > 2) {} else { if (x == 2) { c1.push_front(7); } c1.clear(); }' the size at clear() is claimed known 1 (x is taken to be the boundary value 2) */
#include <list>
static long sink = 0;
static void f0(int x) {
    std::list<int> c1;
    if (x > 2) {
        sink += 1;
    } else {
        if (x == 2) {
            c1.push_front(7);
        }
        VST(1, c1).clear();
    }
}
long long strtoll(const char *, char **, int);
int main(int argc, char **argv) {
    f0(argc > 1 ? (int)strtoll(argv[1], 0, 10) : 0);
    /*FINISH*/ return (int)(sink & 0);
}
