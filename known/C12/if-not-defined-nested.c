void f_0(void) { int a[2]; a[2] = 0; }
#if !defined(A)
void f_1(void) { int a[2]; a[3] = 0; }
#ifdef B
void f_2(void) { int a[2]; a[4] = 0; }
#endif
#endif
