void f_0(void) { int a[2]; a[2] = 0; }
#ifdef P
void f_1(void) { int a[2]; a[3] = 0; }
#ifdef A
void f_2(void) { int a[2]; a[4] = 0; }
#else
void f_3(void) { int a[2]; a[5] = 0; }
#endif
#ifdef Q
void f_4(void) { int a[2]; a[6] = 0; }
#endif
#endif
