int ok(int a) { return a + 1; }
