int ok2(int a) { return a + 2; }
