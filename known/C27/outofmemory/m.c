#include <stdlib.h>
void f(void)
{
    char *p = (char*)malloc(8);
    p[0] = 0;
    free(p);
}
