#include <stdio.h>
int g(const char *n)
{
    FILE *f = fopen(n, "r");
    int c = fgetc(f);
    fclose(f);
    return c;
}
