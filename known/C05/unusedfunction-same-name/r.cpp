class B2 {
public:
    explicit B2(int v) : m(v) {}
    int get() const { return m + 1; }
private:
    int m;
};

class A1 {
public:
    explicit A1(int v) : m(v) {}
    int get() const { return m; }
private:
    int m;
};

int main(void) {
    return 0;
}
