int vfile_begin ;
#ifdef HAVE_SYS
#include <sy0.h>
#endif
#ifdef A
int v_A = A ;
#endif
#ifdef F
int v_F = F(3) ;
#endif
int vfile_end ;
