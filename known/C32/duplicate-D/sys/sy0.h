int mark_sy0_h_in_sys ;
