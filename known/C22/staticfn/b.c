int other(int x);
int other(int x) {
    return x;
}
int (*g_fp)(int) = other;
