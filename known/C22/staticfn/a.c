int helper(int x) {
    return x + 1;
}
int main(void) {
    return helper(1);
}
