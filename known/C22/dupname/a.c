int dup_fn(int x) {
    return x + 1;
}
int main(void) {
    return 0;
}
