

int dup_fn(int x) {
    return x + 2;
}
