#include "c.h"
int ch0(int *p) {
    return *p + 1;
}
