#include "c.h"
int ch1(int *p) {
    return ch0(p);
}
