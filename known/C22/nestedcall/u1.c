#include "c.h"
int chcall(void) {
    int *q = 0;
    return ch1(q);
}
