int ch0(int *p);
int ch1(int *p);
