struct S { int a; int b; };
int f(int x, int *p, char c, struct S s) {
    int l = x + c;
    int m = *p;
    return l + m + s.a;
}
void g(int a1, int a2, int a3) { int q = a1; (void)q; (void)a2; (void)a3; }
