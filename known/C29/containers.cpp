#include <vector>
#include <string>
#include <map>
#include <set>
#include <list>
#include <deque>
#include <array>
#include <unordered_map>
int f(std::vector<int> &v, std::string &s, std::map<int,int> &m, std::set<int> &st, std::list<int> &l, std::deque<int> &d, std::array<int,3> &a, std::unordered_map<int,int> &u) {
    return v.size() + s.size() + m.size() + st.size() + l.size() + d.size() + a.size() + u.size();
}
