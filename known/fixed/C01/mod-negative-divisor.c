/* C01 witness mod-negative-divisor: x % negative-divisor claimed to be below the divisor */
static long f0(int x0) {
    return (long)VPT(1, "%", (2147483647 % ((-83) | 1)));
}
long long strtoll(const char *, char **, int);
int main(int argc, char **argv) {
    long long in[8] = {0, 0, 0, 0, 0, 0, 0, 0};
    int k;
    volatile long long sink = 0;
    for (k = 1; k < argc && k <= 8; k++) {
        in[k - 1] = strtoll(argv[k], 0, 10);
    }
    sink += (long long)f0((int)in[0]);
    /*FINISH*/ return (int)(sink & 0);
}
