void f(int restrict, int y) { restrict * y; }
