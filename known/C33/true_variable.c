void f(int);
void g(int x) { const int true = 1; f(x || true); }
