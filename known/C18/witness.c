int g_w;
void w_np(void) {
    int *p = 0;
    *p = 1;
}
int w_zd(int x) {
    int z = 0;
    return x / z;
}
