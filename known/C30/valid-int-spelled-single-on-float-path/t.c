void c1(void) { fa(0); }
void c2(void) { fa(3); }
void c3(void) { fa(1); }
void c4(void) { fb(3.0); }
void c5(void) { fb(4.0); }
void c6(void) { fb(3); }
