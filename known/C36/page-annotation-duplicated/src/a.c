int f(int x) {
    int a[2];
    a[2] = x;
    return a[0];
}
