void g(void) { foo(0); }
