#!/bin/bash
# run every registered check once (quick tier) on the current tree and summarise; evidence files are rewritten
cd /verif
seed=${1:-1}
out=.work/runall_$seed.txt
: > $out
for c in $(cat registered.txt); do
  t0=$(date +%s)
  VERIF_SEED=$seed ./check $c --tier quick > .work/runall_${c}_$seed.log 2>&1
  rc=$?
  echo "$c rc=$rc $(( $(date +%s) - t0 ))s $(grep -c '^KNOWN-FINDING' .work/runall_${c}_$seed.log) known | $(tail -1 .work/runall_${c}_$seed.log | cut -c1-120)" >> $out
done
cat $out
