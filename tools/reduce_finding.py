#!/usr/bin/python3
"""cppcheck-only reduction keeping a finding alive on a given line: tools/reduce_finding.py <replay dir> [enable opts]
reads WHAT.txt: '<id> at L:C says: <msg>'"""
import os, re, subprocess, sys, tempfile, shutil
sys.path.insert(0, os.path.dirname(os.path.dirname(os.path.abspath(__file__))))
from vlib import reduce, findings
from vlib.gen import progen
rd = sys.argv[1]
what = open(os.path.join(rd, 'WHAT.txt')).read()
m = re.search(r'^(\w+) at (\d+):(\d+) says: (.*)$', what, re.M)
fid, line, col, msg = m.group(1), int(m.group(2)), int(m.group(3)), m.group(4).strip()
ext = '.c' if os.path.exists(os.path.join(rd, 'p.c')) else '.cpp'
lines = open(os.path.join(rd, 'p' + ext)).read().split('\n')
target = lines[line - 1]
work = tempfile.mkdtemp(dir='/verif/.work')
def crit(ls):
    f = os.path.join(work, 'r' + ext)
    open(f, 'w').write('\n'.join(ls))
    cc = ['gcc', '-std=gnu11'] if ext == '.c' else ['g++', '-std=gnu++17']
    if subprocess.run(cc + ['-fsyntax-only', '-w', f], capture_output=True).returncode != 0:
        return False
    r = subprocess.run(['/verif/.build/mon/bin/cppcheck', '--xml', '-q', '--enable=style,warning', '--platform=unix64', f], capture_output=True)
    try:
        fs = findings.parse_xml(r.stderr)
    except Exception:
        return False
    for x in fs:
        if x.id == fid and x.msg == msg and x.locs and x.locs[0][1] <= len(ls) and ls[x.locs[0][1] - 1] == target:
            return True
    return False
assert crit(lines), 'finding not reproduced'
prog = progen.Program('\n'.join(lines), '\n'.join(lines), {}, [], [], {}, 'c')
q, tests = reduce.reduce(prog, lambda p: crit(p.plain.split('\n')), max_tests=1500, protect=lambda l: l == target)
print('tests', tests)
print('\n'.join(l for l in q.plain.split('\n') if l.strip()))
shutil.rmtree(work, ignore_errors=True)
