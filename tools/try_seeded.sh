#!/bin/bash
# usage: tools/try_seeded.sh <patched worktree> <flavours,comma> <check ids...>   (runs the quick tier against the patched tree)
WT=$1; FL=$2; shift 2
export VERIF_REPO=$WT VERIF_BUILD_ROOT=$WT-vbuild
cd /verif
for c in "$@"; do
  echo "=== $c against $WT"
  ./check $c 2>&1 | grep -v "^KNOWN-FINDING" | grep "VIOLATION\|key=\|^C[0-9][0-9] \|INCONCLUSIVE\|HARNESS" | head -12 | cut -c1-220
done
