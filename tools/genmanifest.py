#!/usr/bin/python3
"""Regenerate MANIFEST.json from the oracle modules' META (run from /verif)."""
import importlib
import json
import os
import subprocess
import sys

ROOT = os.path.dirname(os.path.dirname(os.path.abspath(__file__)))
sys.path.insert(0, ROOT)

NOT_APPLICABLE = {
    # pid: reason   (only for properties with no oracle module)
}

ENGINES = [
    {'name': 'build', 'path': 'vlib/build.py', 'kind_free_text': 'flavour builds (mon/asan/tsan/mcv/nomc) of /repo working tree with hooks on',
     'serves_properties': []},
    {'name': 'projgen', 'path': 'vlib/gen/projgen.py', 'kind_free_text': 'seeded multi-file project generator with seeded findings',
     'serves_properties': []},
]


def main():
    props = [json.loads(l)['id'] for l in open(os.path.join(ROOT, 'properties.jsonl'))]
    checks = []
    na = []
    registered = set(open(os.path.join(ROOT, 'registered.txt')).read().split())
    for pid in props:
        path = os.path.join(ROOT, 'vlib', 'oracles', pid.lower() + '.py')
        if not os.path.exists(path) or pid not in registered:
            na.append({'property_id': pid, 'reason': NOT_APPLICABLE.get(pid, 'no monitor registered for this property in this revision of the machinery (see DESIGN.md section 9)')})
            continue
        mod = importlib.import_module('vlib.oracles.' + pid.lower())
        m = mod.META
        level = getattr(mod, 'LEVEL', 'exploration')
        checks.append({
            'property_id': pid,
            'quick_cmd': './check %s --tier quick' % pid,
            'thorough_cmd': './check %s --tier thorough' % pid,
            'evidence_file': 'evidence/%s.json' % pid,
            'replay_cmd_template': './check %s --replay {path}' % pid,
            'engine': 'vlib/oracles/%s.py' % pid.lower(),
            'level_claimed': {'category': level, 'text': m['level_text'], 'design_ref': m.get('design_ref', 'DESIGN.md §3 ' + pid)},
            'level_note': m['level_note'],
            'technique': m['technique'],
        })
    hooks_commits = subprocess.run(['git', '-C', '/repo', 'log', '--format=%H %s', '--grep=^verif hooks:'],
                                   capture_output=True, text=True).stdout.strip().splitlines()
    man = {
        'version': 1,
        'setup_cmd': '/usr/bin/python3 -m vlib.setup',
        'hooks': {
            'guard': 'DANMAR_CPPCHECK_VERIF',
            'enable': 'every check calls vlib.build.ensure(): cmake -S /repo -B /verif/.build/<flavour> -DCMAKE_CXX_FLAGS="... -DDANMAR_CPPCHECK_VERIF" && cmake --build (ninja, incremental) before running',
            'baseline_off_cmd': 'cmake --build /repo/_build -j16 && ctest --test-dir /repo/_build -j8 --timeout 900',
            'source_commits': [l.split()[0] for l in hooks_commits][::-1],
            'add_only': True,
        },
        'engines': ENGINES,
        'checks': checks,
        'not_applicable': na,
        'notes': 'Runtime monitoring only. Exit codes: 0 held on what was observed, 1 VIOLATION, 2 inconclusive/harness failure. '
                 'Known findings: known_findings.txt. All checks honour VERIF_SEED and VERIF_TIER.',
    }
    with open(os.path.join(ROOT, 'MANIFEST.json'), 'w') as f:
        json.dump(man, f, indent=1)
        f.write('\n')
    print('MANIFEST.json: %d checks, %d not_applicable' % (len(checks), len(na)))


if __name__ == '__main__':
    main()
