#!/usr/bin/python3
"""Regenerate MANIFEST.json from the oracle modules' META (run from /verif)."""
import importlib
import json
import os
import subprocess
import sys

ROOT = os.path.dirname(os.path.dirname(os.path.abspath(__file__)))
sys.path.insert(0, ROOT)

NOT_APPLICABLE = {
    # pid: reason   (only for properties with no oracle module)
}

ENGINES = [
    {'name': 'build', 'path': 'vlib/build.py', 'kind_free_text': 'flavour builds (mon/asan/tsan/mcv/nomc) of /repo working tree with hooks on (cmake+ninja, flock-serialised)',
     'serves_properties': ['C%02d' % i for i in range(1, 36)]},
    {'name': 'core', 'path': 'vlib/core.py', 'kind_free_text': 'check context: seeded RNG, violation keys, known-findings matching, three-valued verdict, evidence writer',
     'serves_properties': ['C%02d' % i for i in range(1, 37)]},
    {'name': 'probe-runtime', 'path': 'harness/trace.h + vlib/probe.py', 'kind_free_text': 'online assertion monitor compiled into generated programs (ASan+UBSan executions; results only from sanitizer-clean runs)',
     'serves_properties': ['C01', 'C02', 'C03', 'C04']},
    {'name': 'progen', 'path': 'vlib/gen/progen.py', 'kind_free_text': 'typed generator of UB-free C/C++ programs rendered plain + instrumented; calibrated profile with finding-keyed exclusions',
     'serves_properties': ['C01', 'C03', 'C04', 'C05', 'C13', 'C14', 'C28', 'C29', 'C33', 'C35']},
    {'name': 'projgen', 'path': 'vlib/gen/projgen.py', 'kind_free_text': 'seeded multi-file project generator with seeded findings, shared headers, CTU shapes',
     'serves_properties': ['C15', 'C16', 'C17', 'C18', 'C19', 'C20', 'C21', 'C22', 'C24', 'C25', 'C27', 'C28', 'C29']},
    {'name': 'hooks', 'path': '/repo/lib/verifhooks.h', 'kind_free_text': 'H1 indirect in dump, H2 schedule perturbation, H3 crash points, H4 worker faults, H5 match-compiler verify counters',
     'serves_properties': ['C01', 'C15', 'C16', 'C20', 'C21', 'C24', 'C33']},
    {'name': 'models', 'path': 'vlib/models/', 'kind_free_text': 'executable readings of documented rules (pathmatch, suppress, severitygate, validrange, cfgselect, matchpattern, exprcmp, platforms)',
     'serves_properties': ['C07', 'C09', 'C10', 'C12', 'C23', 'C24', 'C25', 'C27', 'C30', 'C31', 'C33']},
    {'name': 'reference-compilers', 'path': 'gcc 12 / clang 14 (installed)', 'kind_free_text': 'reference semantics: execution of generated programs, clang JSON AST, static_assert evaluation, gcc -E',
     'serves_properties': ['C01', 'C02', 'C03', 'C04', 'C07', 'C08', 'C09', 'C10', 'C11', 'C32', 'C35']},
]


def main():
    props = [json.loads(l)['id'] for l in open(os.path.join(ROOT, 'properties.jsonl'))]
    checks = []
    na = []
    registered = set(open(os.path.join(ROOT, 'registered.txt')).read().split())
    for pid in props:
        path = os.path.join(ROOT, 'vlib', 'oracles', pid.lower() + '.py')
        if not os.path.exists(path) or pid not in registered:
            na.append({'property_id': pid, 'reason': NOT_APPLICABLE.get(pid, 'no monitor registered for this property in this revision of the machinery (see DESIGN.md section 9)')})
            continue
        mod = importlib.import_module('vlib.oracles.' + pid.lower())
        m = mod.META
        level = getattr(mod, 'LEVEL', 'exploration')
        checks.append({
            'property_id': pid,
            'quick_cmd': './check %s --tier quick' % pid,
            'thorough_cmd': './check %s --tier thorough' % pid,
            'evidence_file': 'evidence/%s.json' % pid,
            'replay_cmd_template': './check %s --replay {path}' % pid,
            'engine': 'vlib/oracles/%s.py' % pid.lower(),
            'level_claimed': {'category': level, 'text': m['level_text'], 'design_ref': m.get('design_ref', 'DESIGN.md §3 ' + pid)},
            'level_note': m['level_note'],
            'technique': m['technique'],
        })
    hooks_commits = subprocess.run(['git', '-C', '/repo', 'log', '--format=%H %s', '--grep=^verif hooks:'],
                                   capture_output=True, text=True).stdout.strip().splitlines()
    man = {
        'version': 1,
        'setup_cmd': '/usr/bin/python3 -m vlib.setup',
        'hooks': {
            'guard': 'DANMAR_CPPCHECK_VERIF',
            'enable': 'every check calls vlib.build.ensure(): cmake -S /repo -B /verif/.build/<flavour> -DCMAKE_CXX_FLAGS="... -DDANMAR_CPPCHECK_VERIF" && cmake --build (ninja, incremental) before running',
            'baseline_off_cmd': 'cmake --build /repo/_build -j16 && ctest --test-dir /repo/_build -j8 --timeout 900',
            'source_commits': [l.split()[0] for l in hooks_commits][::-1],
            'add_only': True,
        },
        'engines': ENGINES,
        'checks': checks,
        'not_applicable': na,
        'notes': 'Runtime monitoring only. Exit codes: 0 held on what was observed, 1 VIOLATION, 2 inconclusive/harness failure. '
                 'Known findings: known_findings.txt. All checks honour VERIF_SEED and VERIF_TIER.',
    }
    with open(os.path.join(ROOT, 'MANIFEST.json'), 'w') as f:
        json.dump(man, f, indent=1)
        f.write('\n')
    print('MANIFEST.json: %d checks, %d not_applicable' % (len(checks), len(na)))


if __name__ == '__main__':
    main()
