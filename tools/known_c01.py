#!/usr/bin/python3
"""Regenerate known/C01.txt from the witnesses under known/C01 (keys are computed by replaying them)."""
import glob, os, sys, tempfile, shutil
sys.path.insert(0, os.path.dirname(os.path.dirname(os.path.abspath(__file__))))
from vlib import witness, core
from vlib.oracles import c01
out = []
for f in sorted(glob.glob(os.path.join(core.VERIF, 'known', 'C01', '*.c*'))):
    lang = 'cpp' if f.endswith('.cpp') else 'c'
    prog = witness.from_annotated(open(f).read(), lang)
    d = tempfile.mkdtemp(dir=os.path.join(core.VERIF, '.work'))
    r = c01.check_program(prog, d, c01.WITNESS_VECS, (), lang)
    shutil.rmtree(d)
    name = os.path.splitext(os.path.basename(f))[0]
    what = open(f).readline().strip().strip('/* ').rstrip('*/ ').strip()
    for pid_, kidx, K, bad, vec, viol, hits, dsc in r.get('viols', []):
        line, col = prog.probes[pid_][0], prog.probes[pid_][1]
        key = 'witness:%s:%s@%d:%d' % (core.sha1(prog.plain), c01.KIND_NAMES[kidx] + '=' + str(K), line, col)
        out.append('finding: property=C01 key=%s [%s] %s (witness known/C01/%s)' % (key, name, what, os.path.basename(f)))
    if not r.get('viols'):
        print('NOT FAILING:', name, r['status'])
open(os.path.join(core.VERIF, 'known', 'C01.txt'), 'w').write('\n'.join(out) + '\n')
print(len(out), 'entries')
