#!/usr/bin/python3
"""Dump-only reduction of a C01 witness (no compilation): keeps the cppcheck fact alive.
usage: tools/reduce_dump.py <replay dir>     (reads WHAT.txt for the fact and position)"""
import os, re, subprocess, sys, tempfile, shutil
sys.path.insert(0, os.path.dirname(os.path.dirname(os.path.abspath(__file__))))
from vlib import dumpread, reduce, probe
from vlib.gen import progen
rd = sys.argv[1]
what = open(os.path.join(rd, 'WHAT.txt')).read()
m = re.search(r'states (known|impossible) ?(==|<=|>=)?(-?\d+) @ (\d+):(\d+) \(token \'([^\']+)\'', what)
kind, rel, K, line, col, tok = m.group(1), m.group(2), int(m.group(3)), int(m.group(4)), int(m.group(5)), m.group(6)
kidx = 0 if kind == 'known' else {'==': 1, '<=': 2, '>=': 3}[rel]
ext = '.c' if os.path.exists(os.path.join(rd, 'p.c')) else '.cpp'
lines = open(os.path.join(rd, 'p' + ext)).read().split('\n')
target = lines[line - 1]
work = tempfile.mkdtemp(dir='/verif/.work')
def crit(ls):
    f = os.path.join(work, 'r' + ext)
    open(f, 'w').write('\n'.join(ls))
    cc = ['gcc', '-std=gnu11'] if ext == '.c' else ['g++', '-std=gnu++17']
    if subprocess.run(cc + ['-fsyntax-only', '-w', f], capture_output=True).returncode != 0:
        return False
    subprocess.run(['/verif/.build/mon/bin/cppcheck', '--dump', '-q', '--platform=unix64', f], capture_output=True)
    try:
        toks, by, vals, d = dumpread.read(f + '.dump')
    except Exception:
        return False
    for t in toks:
        if t.str == tok and t.col == col and t.line <= len(ls) and ls[t.line - 1] == target:
            if any(k == kidx and v == K for k, v, _ in probe.int_facts_for_token(t, vals)):
                return True
    return False
assert crit(lines), 'fact not reproduced'
prog = progen.Program('\n'.join(lines), '\n'.join(lines), {}, [], [], {}, 'c')
q, tests = reduce.reduce(prog, lambda p: crit(p.plain.split('\n')), max_tests=1500, protect=lambda l: l == target)
print('tests', tests)
print('\n'.join(l for l in q.plain.split('\n') if l.strip()))
shutil.rmtree(work, ignore_errors=True)
