#!/bin/bash
# usage: tools/keep_seeded.sh <name> <property> <worktree> <outdir> "<checks run and result>"
NAME=$1; PROP=$2; WT=$3; OUT=$4; RES=$5
D=/verif/seeded/$NAME
mkdir -p $D
cp $OUT/patch.diff $D/patch.diff
cp $OUT/demo.sh $D/demo.sh
[ -d $OUT/demo_files ] && cp -r $OUT/demo_files $D/
echo "--- confirming: test suite with the change"
T=$(ctest --test-dir $WT/_b -j6 --timeout 900 2>&1 | grep "tests passed")
if ! echo "$T" | grep -q "100% tests passed"; then
  F=$(ctest --test-dir $WT/_b --rerun-failed --timeout 900 2>&1 | grep "tests passed")
  T="$T ; failed tests re-run alone: $F"
fi
echo "$T"
echo "--- confirming: demo with changed / unchanged binary"
( cd $D && bash ./demo.sh $WT/_b/bin/cppcheck > /tmp/demo_changed.log 2>&1 ); RC1=$?
( cd $D && bash ./demo.sh /repo/_build/bin/cppcheck > /tmp/demo_unchanged.log 2>&1 ); RC2=$?
echo "demo changed rc=$RC1 unchanged rc=$RC2"
python3 - "$NAME" "$PROP" "$OUT" "$T" "$RC1" "$RC2" "$RES" <<'PY'
import json,sys
name,prop,out,t,rc1,rc2,res=sys.argv[1:]
try: m=json.load(open(out+'/meta.json'))
except Exception: m={}
meta={'id':name,'property':prop,'summary':m.get('summary'),'needs_to_manifest':m.get('needs_to_manifest'),
      'files_changed':m.get('files_changed'),'author':'independent sub-agent given only the property text and a scratch worktree',
      'confirmed':{'test_suite_with_change':t,'demo_exit_changed_binary':int(rc1),'demo_exit_unchanged_binary':int(rc2)},
      'checks_run':res}
json.dump(meta,open('/verif/seeded/%s/meta.json'%name,'w'),indent=1)
print(json.dumps(meta['confirmed']))
PY
