#!/bin/bash
# usage: tools/seeded_inrepo.sh try  <outdir> <check ids...>     apply OUT/patch.diff to /repo, run the quick checks, undo
#        tools/seeded_inrepo.sh keep <name> <property> <outdir> "<checks run and result>"
#             apply the patch to /repo, rebuild the guard-off baseline build incrementally, run the existing suite and the
#             demonstration with the changed binary, undo, rebuild, run the demonstration with the unchanged binary, and
#             store everything under /verif/seeded/<name>/
# The patch is never committed; /repo is restored (git checkout -- .) on every path out of this script.
MODE=$1; shift
restore() { git -C /repo checkout -- . ; }
trap restore EXIT
if [ "$MODE" = try ]; then
  OUT=$1; shift
  git -C /repo apply $OUT/patch.diff || { echo "patch does not apply"; exit 2; }
  cd /verif
  for c in "$@"; do
    echo "=== $c with $OUT/patch.diff applied"
    ./check $c 2>&1 | grep -v "^KNOWN-FINDING" | grep "VIOLATION\|key=\|^C[0-9][0-9] \|INCONCLUSIVE\|HARNESS" | head -12 | cut -c1-220
  done
  exit 0
fi
NAME=$1; PROP=$2; OUT=$3; RES=$4
D=/verif/seeded/$NAME
mkdir -p $D
cp $OUT/patch.diff $D/patch.diff
cp $OUT/demo.sh $D/demo.sh
[ -d $OUT/demo_files ] && cp -r $OUT/demo_files $D/
git -C /repo apply $OUT/patch.diff || { echo "patch does not apply"; exit 2; }
cmake --build /repo/_build -j12 2>&1 | tail -1
echo "--- confirming: test suite with the change"
T=$(ctest --test-dir /repo/_build -j16 --timeout 900 2>&1 | grep "tests passed")
if ! echo "$T" | grep -q "100% tests passed"; then
  F=$(ctest --test-dir /repo/_build --rerun-failed --timeout 900 2>&1 | grep "tests passed")
  T="$T ; failed tests re-run alone: $F"
fi
echo "$T"
( cd $D && bash ./demo.sh /repo/_build/bin/cppcheck > /tmp/demo_changed.log 2>&1 ); RC1=$?
restore
cmake --build /repo/_build -j12 2>&1 | tail -1
( cd $D && bash ./demo.sh /repo/_build/bin/cppcheck > /tmp/demo_unchanged.log 2>&1 ); RC2=$?
echo "demo changed rc=$RC1 unchanged rc=$RC2"
python3 - "$NAME" "$PROP" "$OUT" "$T" "$RC1" "$RC2" "$RES" <<'PY'
import json,sys
name,prop,out,t,rc1,rc2,res=sys.argv[1:]
try: m=json.load(open(out+'/meta.json'))
except Exception: m={}
meta={'id':name,'property':prop,'summary':m.get('summary'),'needs_to_manifest':m.get('needs_to_manifest'),
      'files_changed':m.get('files_changed'),'author':'independent sub-agent given only the property text and a scratch worktree',
      'confirmed':{'test_suite_with_change':t,'demo_exit_changed_binary':int(rc1),'demo_exit_unchanged_binary':int(rc2)},
      'checks_run':res}
json.dump(meta,open('/verif/seeded/%s/meta.json'%name,'w'),indent=1)
print(json.dumps(meta['confirmed']))
PY
