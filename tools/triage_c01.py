#!/usr/bin/python3
"""Reduce C01 violations: tools/triage_c01.py <seed> <first idx> <last idx> [lang]"""
import os, sys, shutil, tempfile
sys.path.insert(0, os.path.dirname(os.path.dirname(os.path.abspath(__file__))))
from vlib import core, reduce
from vlib.gen import progen
from vlib.oracles import c01
from vlib.run import pmap

seed, a, b = int(sys.argv[1]), int(sys.argv[2]), int(sys.argv[3])
only_lang = sys.argv[4] if len(sys.argv) > 4 else None
ctx = core.Ctx('C01', 'quick', seed)
outdir = os.path.join(core.VERIF, '.work', 'triage')
os.makedirs(outdir, exist_ok=True)

def work(idx):
    lang = 'c' if idx % 4 != 3 else 'cpp'
    if only_lang and lang != only_lang:
        return
    rng = ctx.subrng('prog', idx)
    prog = progen.gen(rng, lang=lang, bias='value')
    vecs = prog.input_vectors(rng, 16)
    d = tempfile.mkdtemp(dir=ctx.work)
    res = c01.check_program(prog, d, vecs, (), lang)
    if res['status'] != 'ok' or not res['viols']:
        shutil.rmtree(d); return
    v0 = res['viols'][0]
    sig = (v0[1],)  # same kind of fact
    def still(q):
        dd = tempfile.mkdtemp(dir=ctx.work)
        try:
            r = c01.check_program(q, dd, vecs, (), lang)
            return r['status'] == 'ok' and any(v[1] == v0[1] and v[2] == v0[2] for v in r['viols'])
        finally:
            shutil.rmtree(dd, ignore_errors=True)
    q, tests = reduce.reduce(prog, still, max_tests=400, protect=lambda l: 'main(' in l or 'strtoll' in l or 'sink' in l or 'in[' in l or 'struct S0 {' in l)
    dd = tempfile.mkdtemp(dir=ctx.work)
    r = c01.check_program(q, dd, vecs, (), lang)
    ext = '.c' if lang == 'c' else '.cpp'
    with open(os.path.join(outdir, 'w%d_%d%s' % (seed, idx, ext)), 'w') as f:
        f.write(q.plain)
        f.write('\n/*\n')
        for v in r.get('viols', []):
            f.write('%s observed %d input %r\n' % (v[7], v[3], v[4]))
        f.write('*/\n')
    with open(os.path.join(outdir, 'w%d_%d_i%s' % (seed, idx, ext)), 'w') as f:
        f.write(q.inst)
    print('reduced', idx, 'tests', tests, 'lines', q.plain.count('\n'))
    shutil.rmtree(d, ignore_errors=True); shutil.rmtree(dd, ignore_errors=True)

pmap(work, range(a, b + 1), workers=12)
shutil.rmtree(ctx.work, ignore_errors=True)
