/* C33 (c): driver. For every source file given on the command line the real tokenizer builds the
 * token list (Tokenizer::simplifyTokens1: varids, links, token types); then every generated pattern
 * is evaluated at every token position (and at the null token) by the match-compiled function and
 * by the interpreter. Output (one record per line):
 *
 *   S <source index> <ntokens> <tokenizer ok 0|1> <file>
 *   T <position> <varId> <tokType> <flags hex> <str, bytes outside [33,126] and '%' as %XX>
 *   R <pattern index> <varid passed> <one hex digit per position 0..ntokens (last = null token)>
 *        digit bits: 1 compiled matched, 2 interpreter matched, 4 compiled threw, 8 interpreter threw
 *   F <pattern index> <varid passed> <start position>:<compiled result position|-1|E>:<interpreted ...> ...
 *
 * flags: 1 isName 2 isNumber 4 isOp 8 isConstOp 16 isAssignmentOp 32 isComparisonOp 64 isBoolean
 *        128 isKeyword 256 has link 512 isStandardType 1024 isArithmeticalOp
 */
#include "harness.h"

#include "errorlogger.h"
#include "errortypes.h"
#include "path.h"
#include "settings.h"
#include "standards.h"
#include "token.h"
#include "tokenize.h"
#include "tokenlist.h"

#include <cstdio>
#include <fstream>
#include <iostream>
#include <map>
#include <sstream>
#include <string>
#include <vector>

namespace {
    class NullLogger : public ErrorLogger {
    public:
        void reportOut(const std::string & /*outmsg*/, Color /*c*/) override {}
        void reportErr(const ErrorMessage & /*msg*/) override {}
        void reportMetric(const std::string & /*metric*/) override {}
    };

    std::string esc(const std::string &s)
    {
        std::string r;
        char buf[8];
        for (unsigned char c : s) {
            if (c < 33 || c > 126 || c == '%') {
                std::snprintf(buf, sizeof buf, "%%%02X", c);
                r += buf;
            } else
                r += static_cast<char>(c);
        }
        return r.empty() ? std::string("%") : r;
    }

    char hexdigit(int v)
    {
        return "0123456789abcdef"[v & 15];
    }
}

int main(int argc, char **argv)
{
    const int findStep = 5;
    const int endDist = 9;
    for (int a = 1; a < argc; a++) {
        const std::string file = argv[a];
        std::ifstream fin(file.c_str(), std::ios::binary);
        std::stringstream ss;
        ss << fin.rdbuf();
        const std::string code = ss.str();
        const bool cpp = file.size() > 4 && file.compare(file.size() - 4, 4, ".cpp") == 0;
        Settings settings;
        NullLogger logger;
        Tokenizer tokenizer(TokenList(settings, cpp ? Standards::Language::CPP : Standards::Language::C), logger);
        bool ok = false;
        try {
            tokenizer.list.appendFileIfNew(cpp ? "test.cpp" : "test.c");
            ok = tokenizer.list.createTokensFromBuffer(code.data(), code.size()) && tokenizer.simplifyTokens1("");
        } catch (const InternalError &) {
            ok = false;
        } catch (const std::exception &) {
            ok = false;
        }
        std::vector<const Token *> toks;
        std::map<const Token *, int> index;
        for (const Token *t = tokenizer.tokens(); t; t = t->next()) {
            index[t] = static_cast<int>(toks.size());
            toks.push_back(t);
        }
        const int n = static_cast<int>(toks.size());
        std::printf("S %d %d %d %s\n", a - 1, n, ok ? 1 : 0, file.c_str());
        std::vector<int> varids;
        for (int j = 0; j < n; j++) {
            const Token *t = toks[j];
            const int flags = (t->isName() ? 1 : 0) | (t->isNumber() ? 2 : 0) | (t->isOp() ? 4 : 0) | (t->isConstOp() ? 8 : 0) |
                              (t->isAssignmentOp() ? 16 : 0) | (t->isComparisonOp() ? 32 : 0) | (t->isBoolean() ? 64 : 0) |
                              (t->isKeyword() ? 128 : 0) | (t->link() ? 256 : 0) | (t->isStandardType() ? 512 : 0) |
                              (t->isArithmeticalOp() ? 1024 : 0);
            std::printf("T %d %d %d %x %s\n", j, static_cast<int>(t->varId()), static_cast<int>(t->tokType()), flags, esc(t->str()).c_str());
            if (t->varId() && varids.size() < 2 && (varids.empty() || varids[0] != static_cast<int>(t->varId())))
                varids.push_back(static_cast<int>(t->varId()));
        }
        if (varids.empty())
            varids.push_back(1);
        for (int p = 0; p < g_npatterns; p++) {
            const PatternEntry &e = g_patterns[p];
            const std::size_t nv = e.usesVarid ? varids.size() : 1;
            for (std::size_t vi = 0; vi < nv; vi++) {
                const int varid = e.usesVarid ? varids[vi] : 0;
                if (e.kind == K_MATCH || e.kind == K_SIMPLE) {
                    std::string row;
                    row.reserve(static_cast<std::size_t>(n) + 1);
                    for (int j = 0; j <= n; j++) {
                        const Token *t = j < n ? toks[j] : nullptr;
                        int code4 = 0;
                        try {
                            if (e.m(t, varid))
                                code4 |= 1;
                        } catch (const InternalError &) {
                            code4 |= 4;
                        }
                        try {
                            if (e.kind == K_MATCH ? interp_match(t, e.pattern, varid) : interp_simple(t, e.pattern))
                                code4 |= 2;
                        } catch (const InternalError &) {
                            code4 |= 8;
                        }
                        row += hexdigit(code4);
                    }
                    std::printf("R %d %d %s\n", p, varid, row.c_str());
                } else {
                    const bool hasEnd = e.kind == K_FINDEND || e.kind == K_FINDSIMPLEEND;
                    std::printf("F %d %d", p, varid);
                    for (int j = 0; j <= n; j += findStep) {
                        const Token *t = j < n ? toks[j] : nullptr;
                        const Token *end = (hasEnd && j + endDist < n) ? toks[j + endDist] : nullptr;
                        std::string rc, ri;
                        try {
                            const Token *r = e.f(t, end, varid);
                            rc = r ? std::to_string(index[r]) : "-1";
                        } catch (const InternalError &) {
                            rc = "E";
                        }
                        try {
                            const Token *r = (e.kind == K_FIND || e.kind == K_FINDEND) ? interp_find(t, e.pattern, end, varid, hasEnd)
                                                                                      : interp_findsimple(t, e.pattern, end, hasEnd);
                            ri = r ? std::to_string(index[r]) : "-1";
                        } catch (const InternalError &) {
                            ri = "E";
                        }
                        std::printf(" %d:%s:%s", j, rc.c_str(), ri.c_str());
                    }
                    std::printf("\n");
                }
            }
        }
    }
    return 0;
}
