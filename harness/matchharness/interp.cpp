/* C33 (c): the interpreted matchers. This file is NOT passed through tools/matchcompiler.py and the
 * pattern is a run-time value, so these are the parsing implementations of lib/token.cpp. */
#include "harness.h"

#include "token.h"

#include <cstring>

bool interp_match(const Token *tok, const char *pattern, int varid)
{
    return Token::Match(tok, pattern, varid);
}

bool interp_simple(const Token *tok, const char *pattern)
{
    return Token::simpleMatch(tok, pattern, std::strlen(pattern));
}

const Token *interp_find(const Token *tok, const char *pattern, const Token *end, int varid, bool hasEnd)
{
    if (hasEnd)
        return Token::findmatch(tok, pattern, end, varid);
    return Token::findmatch(tok, pattern, varid);
}

const Token *interp_findsimple(const Token *tok, const char *pattern, const Token *end, bool hasEnd)
{
    if (hasEnd)
        return Token::findsimplematch(tok, pattern, std::strlen(pattern), end);
    return Token::findsimplematch(tok, pattern, std::strlen(pattern));
}
