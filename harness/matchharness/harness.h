/* C33 (c): shared declarations of the generated-pattern harness */
#ifndef VERIF_MATCHHARNESS_H
#define VERIF_MATCHHARNESS_H

class Token;

enum PatternKind { K_MATCH = 0, K_SIMPLE = 1, K_FIND = 2, K_FINDEND = 3, K_FINDSIMPLE = 4, K_FINDSIMPLEEND = 5 };

typedef bool (*MatchFn)(const Token *tok, int varid);
typedef const Token *(*FindFn)(const Token *tok, const Token *end, int varid);

struct PatternEntry {
    int kind;
    const char *pattern;
    MatchFn m;      /* match-compiled: Token::Match / Token::simpleMatch with the literal pattern */
    FindFn f;       /* match-compiled: Token::findmatch / Token::findsimplematch */
    int usesVarid;
};

/* generated (patterns.cpp, passed through tools/matchcompiler.py) */
extern const PatternEntry g_patterns[];
extern const int g_npatterns;

/* interp.cpp — never match-compiled: the pattern is not a literal there */
bool interp_match(const Token *tok, const char *pattern, int varid);
bool interp_simple(const Token *tok, const char *pattern);
const Token *interp_find(const Token *tok, const char *pattern, const Token *end, int varid, bool hasEnd);
const Token *interp_findsimple(const Token *tok, const char *pattern, const Token *end, bool hasEnd);

#endif
