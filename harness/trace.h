/* Probe runtime for generated programs (C01-C04, C06). C and C++ (gcc/clang, x86-64).
 *
 * VP(id, e)      value probe around an integer rvalue expression (type- and value-preserving)
 * VSZ(id, c)     container-size probe: logs c.size() and yields c (C++)
 * vp_finish()    called at the end of main (normal return path only): writes the result file.
 *
 * Facts (what cppcheck claimed) are read at start-up from the file named by VP_FACTS:
 *     <probe id> <kind> <K>         kind: EQ NE GT LT   (observed value must be ==,!=,>,< K)
 * and every observation is checked online against the facts of its probe. Results go to VP_OUT,
 * written only from vp_finish(): a sanitizer abort, signal or watchdog kill leaves no record, so an
 * execution with undefined behaviour is discarded whole.
 */
#ifndef VP_TRACE_H
#define VP_TRACE_H
#include <stdio.h>
#include <stdlib.h>
#include <string.h>

#ifndef VP_MAXPROBES
#define VP_MAXPROBES 4096
#endif
#define VP_MAXFACTS 16384
#define VP_DISTINCT 8

typedef __int128 vp_big;

struct vp_probe {
    unsigned long hits, zero, nonzero;
    vp_big min, max;
    int ndistinct;
    vp_big distinct[VP_DISTINCT];
    int first_fact; /* index into facts chain, -1 none */
    vp_big last;    /* most recent observation (for symbolic relations) */
};
struct vp_fact {
    int probe, kind; /* 0 EQ 1 NE 2 GT 3 LT; +4: symbolic, k = delta, ref = probe of the other expression */
    int ref;
    unsigned long ambiguous;
    vp_big k;
    int k_ge_2_63;  /* K >= 2^63: representational folding applies on unsigned tokens */
    unsigned long hits, viol;
    vp_big firstbad;
    int next;
};
static struct vp_probe vp_probes[VP_MAXPROBES];
static struct vp_fact vp_facts[VP_MAXFACTS];
static int vp_nfacts = 0;
static int vp_inited = 0;

static vp_big vp_parse_big(const char *s)
{
    int neg = 0;
    vp_big v = 0;
    if (*s == '-') { neg = 1; s++; }
    while (*s >= '0' && *s <= '9') { v = v * 10 + (*s - '0'); s++; }
    return neg ? -v : v;
}
static void vp_print_big(FILE *f, vp_big v)
{
    char buf[64];
    int i = 63, neg = 0;
    buf[i] = 0;
    if (v < 0) { neg = 1; v = -v; }
    if (v == 0) buf[--i] = '0';
    while (v > 0) { buf[--i] = (char)('0' + (int)(v % 10)); v /= 10; }
    if (neg) buf[--i] = '-';
    fputs(buf + i, f);
}
static void vp_init(void)
{
    int i;
    const char *fn;
    FILE *f;
    vp_inited = 1;
    for (i = 0; i < VP_MAXPROBES; i++) vp_probes[i].first_fact = -1;
    fn = getenv("VP_FACTS");
    if (!fn) return;
    f = fopen(fn, "r");
    if (!f) return;
    {
        int id; char kind[8]; char num[80];
        while (vp_nfacts < VP_MAXFACTS && fscanf(f, "%d %7s %79s", &id, kind, num) == 3) {
            struct vp_fact *ft = &vp_facts[vp_nfacts];
            if (id < 0 || id >= VP_MAXPROBES) continue;
            ft->probe = id;
            ft->ref = -1;
            ft->ambiguous = 0;
            if (kind[0] == 'S') { /* SEQ SNE SGT SLT: "<id> SEQ <ref>:<delta>" */
                char *colon = strchr(num, ':');
                if (!colon) continue;
                *colon = 0;
                ft->ref = atoi(num);
                if (ft->ref < 0 || ft->ref >= VP_MAXPROBES) continue;
                ft->kind = 4 + (!strcmp(kind, "SEQ") ? 0 : !strcmp(kind, "SNE") ? 1 : !strcmp(kind, "SGT") ? 2 : 3);
                ft->k = vp_parse_big(colon + 1);
                ft->k_ge_2_63 = 0;
                ft->hits = ft->viol = 0;
                ft->next = vp_probes[id].first_fact;
                vp_probes[id].first_fact = vp_nfacts++;
                continue;
            }
            ft->kind = !strcmp(kind, "EQ") ? 0 : !strcmp(kind, "NE") ? 1 : !strcmp(kind, "GT") ? 2 : 3;
            ft->k = vp_parse_big(num);
            ft->k_ge_2_63 = ft->k >= ((vp_big)1 << 63);
            ft->hits = ft->viol = 0;
            ft->next = vp_probes[id].first_fact;
            vp_probes[id].first_fact = vp_nfacts++;
        }
    }
    fclose(f);
}
static void vp_obs(int id, vp_big v, int is_unsigned, int size)
{
    struct vp_probe *p;
    int i, fi;
    if (!vp_inited) vp_init();
    if (id < 0 || id >= VP_MAXPROBES) return;
    p = &vp_probes[id];
    if (p->hits == 0) { p->min = p->max = v; }
    p->hits++;
    if (v == 0) p->zero++; else p->nonzero++;
    if (v < p->min) p->min = v;
    if (v > p->max) p->max = v;
    for (i = 0; i < p->ndistinct; i++) if (p->distinct[i] == v) break;
    if (i == p->ndistinct && p->ndistinct < VP_DISTINCT) p->distinct[p->ndistinct++] = v;
    for (fi = p->first_fact; fi >= 0; fi = vp_facts[fi].next) {
        struct vp_fact *ft = &vp_facts[fi];
        vp_big k = ft->k;
        int ok;
        if (ft->kind >= 4) {
            /* symbolic relation v (op) value(ref) + delta; judged only when the other expression has been
             * evaluated and ref + delta is representable in this expression's type (both readings agree) */
            struct vp_probe *rp = &vp_probes[ft->ref];
            vp_big t, lo, hi;
            if (!rp->hits) continue;
            t = rp->last + ft->k;
            if (is_unsigned) { lo = 0; hi = (((vp_big)1) << (8 * size)) - 1; }
            else { hi = (((vp_big)1) << (8 * size - 1)) - 1; lo = -hi - 1; }
            if (t < lo || t > hi) { ft->ambiguous++; continue; }
            ok = ft->kind == 4 ? v == t : ft->kind == 5 ? v != t : ft->kind == 6 ? v > t : v < t;
            ft->hits++;
            if (!ok) { if (!ft->viol) ft->firstbad = v; ft->viol++; }
            continue;
        }
        /* unsigned tokens are dumped as 64-bit biguint: fold a value >= 2^63 to the token's width */
        if (is_unsigned && ft->k_ge_2_63 && size < 8)
            k &= (((vp_big)1) << (8 * size)) - 1;
        ok = ft->kind == 0 ? v == k : ft->kind == 1 ? v != k : ft->kind == 2 ? v > k : v < k;
        ft->hits++;
        if (!ok) { if (!ft->viol) ft->firstbad = v; ft->viol++; }
    }
    p->last = v;
}
static void vp_finish(void)
{
    const char *fn = getenv("VP_OUT");
    FILE *f;
    int i, j;
    if (!fn) return;
    f = fopen(fn, "w");
    if (!f) return;
    for (i = 0; i < VP_MAXPROBES; i++) {
        struct vp_probe *p = &vp_probes[i];
        if (!p->hits) continue;
        fprintf(f, "P %d %lu %lu %lu ", i, p->hits, p->zero, p->nonzero);
        vp_print_big(f, p->min); fputc(' ', f); vp_print_big(f, p->max); fputc(' ', f);
        for (j = 0; j < p->ndistinct; j++) { if (j) fputc(',', f); vp_print_big(f, p->distinct[j]); }
        fputc('\n', f);
    }
    for (i = 0; i < vp_nfacts; i++) {
        struct vp_fact *ft = &vp_facts[i];
        if (!ft->hits) continue;
        fprintf(f, "F %d %d %lu %lu ", ft->probe, ft->kind, ft->hits, ft->viol);
        vp_print_big(f, ft->k); fputc(' ', f);
        vp_print_big(f, ft->viol ? ft->firstbad : 0);
        fprintf(f, " %d", ft->ref);
        fputc('\n', f);
    }
    fputs("END\n", f);
    fclose(f);
}

#ifdef __cplusplus
template<class T> static inline T vp_val(int id, T v)
{
    vp_obs(id, (T)-1 > (T)0 ? (vp_big)(unsigned long long)v : (vp_big)(long long)v, (T)-1 > (T)0, (int)sizeof(T));
    return v;
}
static inline bool vp_val(int id, bool v)
{
    vp_obs(id, v ? 1 : 0, 1, 1);
    return v;
}
#define VP(id, e) vp_val((id), (e))
template<class C> static inline C &vp_size(int id, C &c)
{
    vp_obs(id, (vp_big)c.size(), 0, 8);
    return c;
}
template<class C> static inline const C &vp_size(int id, const C &c)
{
    vp_obs(id, (vp_big)c.size(), 0, 8);
    return c;
}
#define VSZ(id, c) vp_size((id), (c))
#else
/* e is expanded exactly once (nested probes would otherwise grow exponentially) */
#define VP(id, e) __extension__({ __auto_type vp_v_ = (e); \
    vp_obs((id), ((__typeof__(vp_v_))-1 > (__typeof__(vp_v_))0) ? (vp_big)(unsigned long long)vp_v_ : (vp_big)(long long)vp_v_, \
           ((__typeof__(vp_v_))-1 > (__typeof__(vp_v_))0), (int)sizeof(vp_v_)); vp_v_; })
#endif

#endif
