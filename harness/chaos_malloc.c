/* LD_PRELOAD "chaos allocator" (C29): makes the *order* of heap pointers independent of the
 * allocation order, which is what makes containers keyed/ordered by pointer values iterate
 * differently from run to run.
 *
 *   VERIF_CHAOS_SEED=<n>   seed (unset or empty => pure pass-through)
 *   VERIF_CHAOS_LOG=<file> at exit append one line "seed=.. mallocs=.. shuffled=.. dummies=.. inversions=../.."
 *                          (inversions = how often a small block was handed out at a lower address
 *                          than the previous block of the same size class: evidence that pointer
 *                          order really was perturbed)
 *
 * Technique (every block handed out is a genuine block of the real allocator, so free/realloc/
 * malloc_usable_size/aligned variants work unchanged):
 *   - small requests (<= SMALL_MAX bytes) are rounded to a 16-byte size class plus seeded random
 *     padding; each class keeps a pool of pre-allocated blocks which is refilled in batches of random
 *     length and handed out in random order;
 *   - malloc'ed (not calloc'ed) memory is filled with a seed-dependent byte;
 *   - seeded interleaved dummy allocations of random size are held in a ring and freed later, so
 *     the real allocator's bins and top-of-heap also differ between seeds.
 * Thread-safe (one spin lock around the pools; the PRNG lives under the same lock); fork-safe for
 * a single-threaded forking parent (the process executor). calloc() during dlsym() is served from a
 * static bootstrap arena.
 *
 * build: gcc -O2 -fPIC -shared -o chaos_malloc.so chaos_malloc.c -ldl
 */
#define _GNU_SOURCE
#include <dlfcn.h>
#include <fcntl.h>
#include <malloc.h>
#include <stdatomic.h>
#include <stddef.h>
#include <stdint.h>
#include <stdio.h>
#include <stdlib.h>
#include <string.h>
#include <unistd.h>

#define SMALL_MAX 2048
#define NCLASS (SMALL_MAX / 16 + 4)
#define POOL_MAX 24
#define RING 97

static void *(*real_malloc)(size_t);
static void *(*real_calloc)(size_t, size_t);
static void *(*real_realloc)(void *, size_t);
static void (*real_free)(void *);

static char boot[1 << 16] __attribute__((aligned(16)));
static size_t boot_off;
static int initializing;
static int active;              /* seed given */
static uint64_t rng_state;
static unsigned long seed_value;

static atomic_flag lock = ATOMIC_FLAG_INIT;

static struct {
    void *blk[POOL_MAX];
    int n;
    uintptr_t last;
} pool[NCLASS];
static void *ring[RING];

static unsigned long n_malloc, n_shuffled, n_dummy, n_inv, n_pairs;

static inline void lock_acquire(void)
{
    while (atomic_flag_test_and_set_explicit(&lock, memory_order_acquire))
        ;
}
static inline void lock_release(void)
{
    atomic_flag_clear_explicit(&lock, memory_order_release);
}

static inline uint64_t rnd(void)
{
    /* xorshift64* */
    uint64_t x = rng_state;
    x ^= x >> 12;
    x ^= x << 25;
    x ^= x >> 27;
    rng_state = x;
    return x * 0x2545F4914F6CDD1DULL;
}

static void *boot_alloc(size_t n)
{
    size_t a = (n + 15) & ~(size_t)15;
    if (boot_off + a > sizeof(boot))
        _exit(99);
    void *p = boot + boot_off;
    boot_off += a;
    return p;
}
static inline int is_boot(const void *p)
{
    return (const char *)p >= boot && (const char *)p < boot + sizeof(boot);
}

static void at_exit_log(void)
{
    const char *path = getenv("VERIF_CHAOS_LOG");
    if (!path || !*path)
        return;
    char buf[256];
    int n = snprintf(buf, sizeof buf, "seed=%lu pid=%d mallocs=%lu shuffled=%lu dummies=%lu inversions=%lu/%lu\n",
                     seed_value, (int)getpid(), n_malloc, n_shuffled, n_dummy, n_inv, n_pairs);
    int fd = open(path, O_WRONLY | O_CREAT | O_APPEND, 0644);
    if (fd >= 0) {
        if (write(fd, buf, (size_t)n) < 0) {}
        close(fd);
    }
}

static void init(void)
{
    if (real_malloc || initializing)
        return;
    initializing = 1;
    void *(*m)(size_t) = (void *(*)(size_t))dlsym(RTLD_NEXT, "malloc");
    real_calloc = (void *(*)(size_t, size_t))dlsym(RTLD_NEXT, "calloc");
    real_realloc = (void *(*)(void *, size_t))dlsym(RTLD_NEXT, "realloc");
    real_free = (void (*)(void *))dlsym(RTLD_NEXT, "free");
    const char *s = getenv("VERIF_CHAOS_SEED");
    if (s && *s) {
        seed_value = strtoul(s, NULL, 10);
        rng_state = (seed_value + 1) * 0x9E3779B97F4A7C15ULL;
        if (!rng_state)
            rng_state = 1;
        for (int i = 0; i < 8; i++)
            rnd();
        active = 1;
    }
    real_malloc = m;
    initializing = 0;
    if (active)
        atexit(at_exit_log);
}

__attribute__((constructor)) static void ctor(void)
{
    init();
}

/* called with the lock held */
static void dummy_step(void)
{
    uint64_t r = rnd();
    if ((r & 7) != 0)
        return;
    unsigned slot = (unsigned)((r >> 8) % RING);
    void *old = ring[slot];
    size_t sz = (size_t)(16 + ((r >> 20) % 1500));
    if (((r >> 40) & 63) == 0)
        sz = (size_t)(4096 + ((r >> 20) % 60000));
    ring[slot] = real_malloc(sz);
    n_dummy++;
    if (old)
        real_free(old);
}

static void *chaos_alloc(size_t n)
{
    if (n > SMALL_MAX) {
        lock_acquire();
        n_malloc++;
        dummy_step();
        size_t pad = (size_t)(rnd() % 5) * 16;
        lock_release();
        return real_malloc(n + pad);
    }
    lock_acquire();
    n_malloc++;
    dummy_step();
    size_t c = (n + 15) / 16;
    if (c == 0)
        c = 1;
    uint64_t r = rnd();
    if ((r & 3) == 0)
        c += (r >> 4) % 3;          /* random padding: lands in a neighbouring class */
    if (c >= NCLASS)
        c = NCLASS - 1;
    if (pool[c].n == 0) {
        int want = 2 + (int)((r >> 16) % (POOL_MAX - 1));
        for (int i = 0; i < want; i++) {
            void *b = real_malloc(c * 16);
            if (!b)
                break;
            pool[c].blk[pool[c].n++] = b;
        }
        if (pool[c].n == 0) {
            lock_release();
            return NULL;
        }
    }
    int k = (int)((r >> 32) % (unsigned)pool[c].n);
    void *p = pool[c].blk[k];
    pool[c].blk[k] = pool[c].blk[--pool[c].n];
    n_shuffled++;
    if (pool[c].last) {
        n_pairs++;
        if ((uintptr_t)p < pool[c].last)
            n_inv++;
    }
    pool[c].last = (uintptr_t)p;
    lock_release();
    return p;
}

void *malloc(size_t n)
{
    if (!real_malloc) {
        if (initializing)
            return boot_alloc(n);
        init();
    }
    if (!active)
        return real_malloc(n);
    void *p = chaos_alloc(n);
    /* seeded garbage in fresh memory: exposes reads of uninitialised heap memory as run-to-run
     * differences */
    if (p && n <= (1u << 20))
        memset(p, (int)(0xA5 ^ (seed_value * 37)), n);
    return p;
}

void *calloc(size_t a, size_t b)
{
    if (!real_malloc) {
        if (initializing) {
            /* dlsym() may call calloc: serve from the (zero-initialised) bootstrap arena */
            return boot_alloc(a * b);
        }
        init();
    }
    if (!active)
        return real_calloc(a, b);
    size_t n;
    if (__builtin_mul_overflow(a, b, &n))
        return NULL;
    void *p = chaos_alloc(n);
    if (p)
        memset(p, 0, n);
    return p;
}

void free(void *p)
{
    if (!p || is_boot(p))
        return;
    if (!real_free) {
        if (initializing)
            return;
        init();
    }
    real_free(p);
}

void *realloc(void *p, size_t n)
{
    if (!real_malloc) {
        if (initializing) {
            void *q = boot_alloc(n);
            if (p)
                memcpy(q, p, n);   /* bootstrap blocks only; over-read stays inside the arena */
            return q;
        }
        init();
    }
    if (is_boot(p)) {
        void *q = malloc(n);
        if (q) {
            size_t avail = (size_t)(boot + sizeof(boot) - (char *)p);
            memcpy(q, p, n < avail ? n : avail);
        }
        return q;
    }
    if (!active)
        return real_realloc(p, n);
    if (!p)
        return chaos_alloc(n);
    if (n == 0) {
        real_free(p);
        return NULL;
    }
    /* move with probability 1/4 so that growing vectors do not keep their place */
    lock_acquire();
    uint64_t r = rnd();
    lock_release();
    if ((r & 3) == 0) {
        size_t old = malloc_usable_size(p);
        void *q = chaos_alloc(n);
        if (q) {
            memcpy(q, p, n < old ? n : old);
            real_free(p);
            return q;
        }
    }
    return real_realloc(p, n + (size_t)((r >> 8) % 3) * 16);
}
