// Deliberate data race: proves on every C16 run that ThreadSanitizer works in this sandbox and that
// the report parser of vlib/oracles/c16.py sees its reports. Not part of cppcheck.
#include <thread>

static long counter;

static void canary_bump()
{
    for (int i = 0; i < 1000; ++i)
        counter = counter + 1;   // unsynchronized on purpose
}

int main()
{
    std::thread a(canary_bump);
    std::thread b(canary_bump);
    a.join();
    b.join();
    return counter == 0;
}
