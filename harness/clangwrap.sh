#!/bin/bash
# Stand-in for the clang executable given to `cppcheck --clang=<this script>` (C35).
#  VERIF_CLANG_REPLAY=<file>  : print the recorded clang output in <file> and exit 0 (deterministic replay)
#  VERIF_CLANG_RECORD=<file>  : run the real clang (VERIF_CLANG_EXE, default clang-14) with the given
#                               arguments and keep a copy of everything it printed (stdout+stderr, merged
#                               exactly as cppcheck sees it) in <file>
#  VERIF_CLANG_EXTRA=<flags>  : extra flags for the real compiler (e.g. -w: no warnings, so that nothing is
#                               written to stderr and interleaved with the AST on stdout)
# `--version` is answered by the real compiler.
real="${VERIF_CLANG_EXE:-clang-14}"
if [ "$1" = "--version" ]; then exec "$real" --version; fi
if [ -n "$VERIF_CLANG_REPLAY" ]; then cat "$VERIF_CLANG_REPLAY"; exit 0; fi
if [ -n "$VERIF_CLANG_RECORD" ]; then
    "$real" $VERIF_CLANG_EXTRA "$@" 2>&1 | tee "$VERIF_CLANG_RECORD"
    exit "${PIPESTATUS[0]}"
fi
exec "$real" $VERIF_CLANG_EXTRA "$@"
