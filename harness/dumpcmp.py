#!/usr/bin/python3
"""C14 monitors on one or more .dump files, run as a separate process (parallelism, isolation).

usage: dumpcmp.py <repo> <dump file>...     -> one JSON object per line on stdout:
  {"file":..., "wellformed":bool, "xml_error":str, "xml_context":str,
   "violations":[[invariant, detail, cfg]...],          # vlib.dump (independent strict checker)
   "addon_error":str|null,                               # /repo/addons/cppcheckdata.py raised
   "mismatch":[[cfg index, only-in-checker edge|null, only-in-addon edge|null]...],
   "stats":{...}, "addon_edges":int}
"""
import json
import os
import sys
import traceback

HERE = os.path.dirname(os.path.abspath(__file__))
sys.path.insert(0, os.path.dirname(HERE))

from vlib import dump as vdump  # noqa: E402


def _id(o):
    return getattr(o, 'Id', None) if o is not None else None


def _kind(o):
    if o is None:
        return None
    return {'Token': 'token', 'Scope': 'scope', 'Function': 'function', 'Variable': 'var'}.get(
        type(o).__name__, type(o).__name__)


def addon_graph(cfg):
    g = []

    def edge(sk, sid, name, o):
        g.append((sk, sid, name, _kind(o), _id(o)))

    for t in cfg.tokenlist:
        i = t.Id
        edge('token', i, 'scope', t.scope)
        edge('token', i, 'link', t.link)
        edge('token', i, 'variable', t.variable)
        edge('token', i, 'function', t.function)
        edge('token', i, 'typeScope', t.typeScope)
        edge('token', i, 'astParent', t.astParent)
        edge('token', i, 'astOperand1', t.astOperand1)
        edge('token', i, 'astOperand2', t.astOperand2)
        if t.valueType is not None:
            edge('token', i, 'valueType.typeScope', t.valueType.typeScope)
        # the addon splits the <value> list into values / impossible_values: compared as a multiset
        allv = list(t.values or []) + list(t.impossible_values or [])
        for v in allv:
            g.append(('token', i, 'value', None, '%s|%s|%s|%s|%s|%s' % (
                v.intvalue, v.floatvalue, getattr(v, 'valueKind', ''), _id(v.tokvalue), _id(v.lifetime),
                _id(v.symbolic))))
        n = len(allv)
        g.append(('token', i, 'nvalues', None, str(n)))
    for s in cfg.scopes:
        i = s.Id
        edge('scope', i, 'bodyStart', s.bodyStart)
        edge('scope', i, 'bodyEnd', s.bodyEnd)
        edge('scope', i, 'nestedIn', s.nestedIn)
        edge('scope', i, 'function', s.function)
        g.append(('scope', i, 'varlist', None, ','.join(v.Id for v in s.varlist)))
    for f in cfg.functions:
        i = f.Id
        edge('function', i, 'token', f.token)
        edge('function', i, 'tokenDef', f.tokenDef)
        edge('function', i, 'nestedIn', f.nestedIn)
        for nr in f.argument:
            edge('function', i, 'argument[%s]' % nr, f.argument[nr])
    for v in cfg.variables:
        i = v.Id
        edge('var', i, 'nameToken', v.nameToken)
        edge('var', i, 'typeStartToken', v.typeStartToken)
        edge('var', i, 'typeEndToken', v.typeEndToken)
        edge('var', i, 'scope', v.scope)
    g.sort(key=lambda e: tuple('' if x is None else x for x in e))
    return g


def one(cppcheckdata, path):
    out = {'file': path, 'addon_error': None, 'mismatch': [], 'addon_edges': 0, 'xml_context': ''}
    with open(path, 'rb') as f:
        data = f.read()
    rep = vdump.check_bytes(data)
    out['wellformed'] = rep.wellformed
    out['xml_error'] = rep.xml_error
    if not rep.wellformed:
        out['xml_context'] = vdump.xml_error_context(data, rep.xml_error)
        out['xml_culprit'] = vdump.xml_culprit(data, rep.xml_error)
    out['violations'] = [list(v) for v in rep.all_violations()]
    out['stats'] = rep.stats()
    # second monitor
    try:
        d = cppcheckdata.parsedump(path)
        cfgs = list(d.iterconfigurations())
    except BaseException as e:     # noqa: B902 - the addon library may call sys.exit
        tb = traceback.extract_tb(sys.exc_info()[2])
        where = '%s:%d' % (os.path.basename(tb[-1].filename), tb[-1].lineno) if tb else ''
        out['addon_error'] = '%s: %s (%s)' % (type(e).__name__, e, where)
        return out
    if not rep.wellformed:
        return out
    if len(cfgs) != len(rep.configs):
        out['mismatch'].append([-1, 'configurations: %d' % len(rep.configs), 'configurations: %d' % len(cfgs)])
        return out
    for k, (mine, theirs) in enumerate(zip(rep.configs, cfgs)):
        ga = mine.graph()
        gb = addon_graph(theirs)
        out['addon_edges'] += len(gb)
        if ga != gb:
            sa, sb = set(ga), set(gb)
            oa = sorted(sa - sb, key=repr)[:5]
            ob = sorted(sb - sa, key=repr)[:5]
            for x in oa:
                out['mismatch'].append([k, list(x), None])
            for x in ob:
                out['mismatch'].append([k, None, list(x)])
            if not oa and not ob:
                out['mismatch'].append([k, 'edge multiset sizes %d' % len(ga), 'edge multiset sizes %d' % len(gb)])
    return out


def main():
    repo = sys.argv[1]
    sys.path.insert(0, os.path.join(repo, 'addons'))
    import cppcheckdata
    for path in sys.argv[2:]:
        try:
            res = one(cppcheckdata, path)
        except Exception as e:      # harness problem, reported as such
            res = {'file': path, 'harness_error': '%s: %s\n%s' % (type(e).__name__, e, traceback.format_exc())}
        sys.stdout.write(json.dumps(res) + '\n')
        sys.stdout.flush()


if __name__ == '__main__':
    main()
