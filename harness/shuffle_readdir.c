/* LD_PRELOAD directory-enumeration shuffler (C29): readdir()/readdir64() return the entries of every
 * directory in a seeded pseudo-random permutation; scandir()/scandir64() without a comparison
 * function return a shuffled list (with a comparison function the result is sorted by it anyway).
 *
 *   VERIF_SHUFFLE_SEED=<n>   seed (unset/empty => pass-through)
 *   VERIF_SHUFFLE_LOG=<file> one line per enumerated directory: "<n entries>\t<1 if the order handed out
 *                            differs from the file system's order, else 0>"
 *
 * The permutation depends on the seed and on the set of names only (not on addresses), so a run is
 * reproducible. Thread-safe (one mutex). Entries are copied; pointers returned by readdir stay valid
 * until closedir (stronger than POSIX requires).
 *
 * build: gcc -O2 -fPIC -shared -o shuffle_readdir.so shuffle_readdir.c -ldl -lpthread
 */
#define _GNU_SOURCE
#include <dirent.h>
#include <dlfcn.h>
#include <fcntl.h>
#include <pthread.h>
#include <stdint.h>
#include <stdio.h>
#include <stdlib.h>
#include <string.h>
#include <unistd.h>

struct dstate {
    DIR *d;
    struct dirent *ents;
    int n, pos;
    struct dstate *next;
};

static struct dirent *(*real_readdir)(DIR *);
static int (*real_closedir)(DIR *);
static void (*real_rewinddir)(DIR *);
static int (*real_scandir)(const char *, struct dirent ***, int (*)(const struct dirent *),
                           int (*)(const struct dirent **, const struct dirent **));
static pthread_mutex_t mu = PTHREAD_MUTEX_INITIALIZER;
static pthread_once_t once = PTHREAD_ONCE_INIT;
static struct dstate *states;
static int active;
static uint64_t seed;

static void init(void)
{
    real_readdir = (struct dirent * (*)(DIR *)) dlsym(RTLD_NEXT, "readdir");
    real_closedir = (int (*)(DIR *))dlsym(RTLD_NEXT, "closedir");
    real_rewinddir = (void (*)(DIR *))dlsym(RTLD_NEXT, "rewinddir");
    real_scandir = (int (*)(const char *, struct dirent ***, int (*)(const struct dirent *),
                            int (*)(const struct dirent **, const struct dirent **)))dlsym(RTLD_NEXT, "scandir");
    const char *s = getenv("VERIF_SHUFFLE_SEED");
    if (s && *s) {
        seed = strtoull(s, NULL, 10);
        active = 1;
    }
}

static uint64_t mix(uint64_t x)
{
    x ^= x >> 33;
    x *= 0xff51afd7ed558ccdULL;
    x ^= x >> 33;
    x *= 0xc4ceb9fe1a85ec53ULL;
    x ^= x >> 33;
    return x;
}

static uint64_t name_hash(const char *s)
{
    uint64_t h = 1469598103934665603ULL;
    for (; *s; s++)
        h = (h ^ (unsigned char)*s) * 1099511628211ULL;
    return h;
}

static void logline(int n, int changed)
{
    const char *path = getenv("VERIF_SHUFFLE_LOG");
    if (!path || !*path)
        return;
    char buf[64];
    int k = snprintf(buf, sizeof buf, "%d\t%d\n", n, changed);
    int fd = open(path, O_WRONLY | O_CREAT | O_APPEND, 0644);
    if (fd >= 0) {
        if (write(fd, buf, (size_t)k) < 0) {}
        close(fd);
    }
}

/* permutation of 0..n-1 from the seed and the name set */
static int *permutation(int n, uint64_t h)
{
    int *idx = (int *)malloc(sizeof(int) * (size_t)(n ? n : 1));
    if (!idx)
        return NULL;
    for (int i = 0; i < n; i++)
        idx[i] = i;
    uint64_t st = mix(h ^ mix(seed + 0x9E3779B97F4A7C15ULL));
    for (int i = n - 1; i > 0; i--) {
        st = mix(st + (uint64_t)i);
        int j = (int)(st % (uint64_t)(i + 1));
        int t = idx[i];
        idx[i] = idx[j];
        idx[j] = t;
    }
    return idx;
}

static struct dstate *load(DIR *d)
{
    struct dstate *st = (struct dstate *)calloc(1, sizeof *st);
    if (!st)
        return NULL;
    int cap = 16;
    struct dirent *raw = (struct dirent *)malloc(sizeof(struct dirent) * (size_t)cap);
    int n = 0;
    uint64_t h = 0, oh_orig = 0, oh_final = 0;
    struct dirent *e;
    while (raw && (e = real_readdir(d)) != NULL) {
        if (n == cap) {
            cap *= 2;
            struct dirent *nr = (struct dirent *)realloc(raw, sizeof(struct dirent) * (size_t)cap);
            if (!nr)
                break;
            raw = nr;
        }
        memcpy(&raw[n], e, sizeof(struct dirent));
        h += mix(name_hash(e->d_name));     /* order independent */
        oh_orig = oh_orig * 1000003ULL + name_hash(e->d_name);
        n++;
    }
    int *idx = permutation(n, h);
    st->ents = (struct dirent *)malloc(sizeof(struct dirent) * (size_t)(n ? n : 1));
    int changed = 0;
    if (st->ents && idx && raw) {
        /* sort the names first so that the order handed out does not depend on the file system's order */
        for (int i = 1; i < n; i++) {
            struct dirent tmp;
            memcpy(&tmp, &raw[i], sizeof tmp);
            int j = i - 1;
            while (j >= 0 && strcmp(raw[j].d_name, tmp.d_name) > 0) {
                memcpy(&raw[j + 1], &raw[j], sizeof tmp);
                j--;
            }
            memcpy(&raw[j + 1], &tmp, sizeof tmp);
        }
        for (int i = 0; i < n; i++) {
            memcpy(&st->ents[i], &raw[idx[i]], sizeof(struct dirent));
            oh_final = oh_final * 1000003ULL + name_hash(st->ents[i].d_name);
        }
        changed = oh_final != oh_orig;
        st->n = n;
    }
    free(idx);
    free(raw);
    st->d = d;
    st->next = states;
    states = st;
    logline(n, changed);
    return st;
}

static struct dstate *find(DIR *d, int unlink_it)
{
    struct dstate **pp = &states;
    for (; *pp; pp = &(*pp)->next) {
        if ((*pp)->d == d) {
            struct dstate *s = *pp;
            if (unlink_it)
                *pp = s->next;
            return s;
        }
    }
    return NULL;
}

struct dirent *readdir(DIR *d)
{
    pthread_once(&once, init);
    if (!active)
        return real_readdir(d);
    struct dirent *res = NULL;
    pthread_mutex_lock(&mu);
    struct dstate *st = find(d, 0);
    if (!st)
        st = load(d);
    if (st && st->pos < st->n)
        res = &st->ents[st->pos++];
    pthread_mutex_unlock(&mu);
    return res;
}

/* on x86_64/aarch64 glibc struct dirent and struct dirent64 have the same layout */
struct dirent64 *readdir64(DIR *d)
{
    return (struct dirent64 *)readdir(d);
}

static void drop(DIR *d)
{
    pthread_mutex_lock(&mu);
    struct dstate *st = find(d, 1);
    pthread_mutex_unlock(&mu);
    if (st) {
        free(st->ents);
        free(st);
    }
}

int closedir(DIR *d)
{
    pthread_once(&once, init);
    if (active)
        drop(d);
    return real_closedir(d);
}

void rewinddir(DIR *d)
{
    pthread_once(&once, init);
    if (active)
        drop(d);
    real_rewinddir(d);
}

int scandir(const char *dirp, struct dirent ***namelist, int (*filter)(const struct dirent *),
            int (*compar)(const struct dirent **, const struct dirent **))
{
    pthread_once(&once, init);
    if (!active || compar)
        return real_scandir(dirp, namelist, filter, compar);
    int n = real_scandir(dirp, namelist, filter, alphasort);
    if (n <= 1)
        return n;
    uint64_t h = 0;
    for (int i = 0; i < n; i++)
        h += mix(name_hash((*namelist)[i]->d_name));
    int *idx = permutation(n, h);
    struct dirent **tmp = (struct dirent **)malloc(sizeof(*tmp) * (size_t)n);
    int changed = 0;
    if (idx && tmp) {
        for (int i = 0; i < n; i++) {
            tmp[i] = (*namelist)[idx[i]];
            if (idx[i] != i)
                changed = 1;
        }
        memcpy(*namelist, tmp, sizeof(*tmp) * (size_t)n);
    }
    free(idx);
    free(tmp);
    logline(n, changed);
    return n;
}

int scandir64(const char *dirp, struct dirent64 ***namelist, int (*filter)(const struct dirent64 *),
              int (*compar)(const struct dirent64 **, const struct dirent64 **))
{
    return scandir(dirp, (struct dirent ***)namelist, (int (*)(const struct dirent *))filter,
                   (int (*)(const struct dirent **, const struct dirent **))compar);
}
