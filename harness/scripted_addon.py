#!/usr/bin/python3
"""Scripted cppcheck addon (shared by the C26 / C34 monitors).

Registered through an addon JSON file  {"executable": "/verif/harness/scripted_addon.py", "ctu": true}
(cppcheck then runs  `<exe> --cli [args] <file.dump>`  once per analysed file and once more, for the
whole-program phase, on `<pid>.ctu-info` or `--file-list <list of .ctu-info files>`).

Environment:
  VERIF_ADDON_SCRIPT  JSON file prescribing what to print:
        {"files": {"<source file name as cppcheck spells it in the dump>": ENTRY, ...},
         "ctu": ENTRY,            # whole-program invocation
         "default": ENTRY}        # any dump not listed in "files"
        ENTRY = {"lines_b64": [base64 of the raw bytes of one output line, ...], "exit": 0}
  VERIF_ADDON_LOG     file to which one JSON line per invocation is appended (atomic O_APPEND write):
        {"kind": "dump"|"ctu", "arg": <path given>, "source": <name or null>, "argv": [...],
         "ctu_files": {<path>: <base64 content>}}   (ctu_files only for kind == "ctu")
Every output line is written verbatim to stdout followed by '\n'.
"""
import base64
import json
import os
import re
import sys


def _log(rec):
    path = os.environ.get('VERIF_ADDON_LOG')
    if not path:
        return
    data = (json.dumps(rec) + '\n').encode()
    fd = os.open(path, os.O_WRONLY | os.O_APPEND | os.O_CREAT, 0o644)
    try:
        os.write(fd, data)
    finally:
        os.close(fd)


def _toxml(b):
    """ErrorLogger::toxml, used for the <file name=...> attribute of the dump (lossy: bytes >= 0x80 -> 'x')"""
    rep = {0x3c: b'&lt;', 0x3e: b'&gt;', 0x26: b'&amp;', 0x22: b'&quot;', 0x27: b'&apos;', 0: b'\\0',
           0x0a: b'&#10;', 0x09: b'&#09;', 0x0d: b'&#13;'}
    out = bytearray()
    for c in b:
        if c in rep:
            out += rep[c]
        elif 0x20 <= c <= 0x7f:
            out.append(c)
        else:
            out += b'x'
    return bytes(out)


def _source_of_dump(path, candidates):
    """name of the analysed source: the script key whose dump spelling equals <file index="0" name=...>"""
    try:
        with open(path, 'rb') as f:
            data = f.read()
    except OSError:
        return None
    m = re.search(rb'<file index="0" name="([^"]*)"', data)
    if not m:
        return None
    raw = m.group(1)
    for c in candidates:
        if _toxml(c.encode('utf-8', 'surrogateescape')) == raw:
            return c
    name = raw.decode('utf-8', 'surrogateescape')
    for a, b in (('&lt;', '<'), ('&gt;', '>'), ('&quot;', '"'), ('&apos;', "'"), ('&amp;', '&')):
        name = name.replace(a, b)
    return name


def main():
    argv = sys.argv[1:]
    script = {}
    sp = os.environ.get('VERIF_ADDON_SCRIPT')
    if sp:
        with open(sp) as f:
            script = json.load(f)
    files = []
    i = 0
    while i < len(argv):
        a = argv[i]
        if a == '--file-list' and i + 1 < len(argv):
            with open(argv[i + 1], errors='surrogateescape') as f:
                files += [l.rstrip('\n') for l in f if l.strip()]
            i += 2
            continue
        if not a.startswith('--'):
            files.append(a)
        i += 1
    is_ctu = any(f.endswith('.ctu-info') for f in files)
    rec = {'kind': 'ctu' if is_ctu else 'dump', 'arg': files[0] if files else None, 'argv': argv,
           'source': None}
    entry = None
    if is_ctu:
        cf = {}
        for f in files:
            try:
                with open(f, 'rb') as fh:
                    cf[f] = base64.b64encode(fh.read()).decode()
            except OSError as e:
                cf[f] = None
        rec['ctu_files'] = cf
        entry = script.get('ctu')
    else:
        src = _source_of_dump(files[0], list(script.get('files', {}))) if files else None
        rec['source'] = src
        entry = script.get('files', {}).get(src) if src is not None else None
        if entry is None:
            entry = script.get('default')
    _log(rec)
    if not entry:
        return 0
    out = sys.stdout.buffer
    for l in entry.get('lines_b64', []):
        out.write(base64.b64decode(l) + b'\n')
    out.flush()
    return int(entry.get('exit', 0))


if __name__ == '__main__':
    sys.exit(main())
