/* C27 corpus: checks whose report depends on more than one severity / certainty switch, so that a finding of one
   class can appear, disappear or change class when a further class is enabled. Analysed under every subset of
   --enable and --inconclusive, on a shipped platform and on platform files with unusual type sizes. */
#include <string.h>
#include <stdbool.h>
#include <stdio.h>
#include <stdlib.h>

#define N 8

struct table { bool dirty[N]; int count[N]; short ids[N]; double w[N]; };

void fill_arrays(struct table *t)
{
    bool flags[N];
    int counts[N];
    short ids[N];
    long big[N];
    memset(flags, 0, N);
    memset(t->dirty, 0, N);
    memset(counts, 0, N);
    memset(t->count, 0, N);
    memset(ids, 0, N);
    memcpy(big, t->count, N);
    memmove(t->ids, ids, N);
    (void)flags; (void)counts; (void)big;
}

void float_fill(struct table *t)
{
    float f[4];
    memset(f, 0, sizeof(f));
    memset(t->w, 1, sizeof(t->w));
    (void)f;
}

int pointer_casts(long *pl, char *pc, void *pv)
{
    int *pi = (int *)pl;
    float *pf = (float *)pi;
    double *pd = (double *)pc;
    char *q = (char *)pv + 1;
    pv = (char *)pv + 2;
    return *pi + (int)*pf + (int)*pd + *q + (pv != 0);
}

void sizeof_things(int *p, char arr[16])
{
    int a[10];
    memset(a, 0, sizeof(p));
    memset(arr, 0, sizeof(arr));
    p = (int *)malloc(sizeof(p));
    p[0] = sizeof(a) / sizeof(p);
    free(p);
}

int bool_and_shift(int x, unsigned u, bool b)
{
    int r = 0;
    if (b == 2) r++;
    if (x << 33) r++;
    if ((u >> 40) != 0) r++;
    if (x & 4 == 4) r++;
    b++;
    r += x++ + x;
    return r + (u < 0) + (int)b;
}

void format_strings(int i, long l, unsigned long ul, char *s)
{
    printf("%d %ld %s\n", l, i, s);
    printf("%u %lu\n", i, ul);
    printf("%s\n", i);
    scanf("%s", s);
    sprintf(s, "%s", s);
}

int assign_in_cond(int a, int b, char c)
{
    int r = 0;
    if (a = b) r = 1;
    if (c == 300) r = 2;
    if (a == b && a != b) r = 3;
    if (a > 3 || a < 10) r = 4;
    switch (a) { case 1: r = 5; case 2: r = 6; break; }
    return r;
}

long int_overflow(int x, long ptrdiff)
{
    long r = x * 100000 * 100000;
    int narrowed = ptrdiff;
    char ch = getchar();
    while (ch != EOF) ch = getchar();
    return r + narrowed;
}

char *ret_local(int n)
{
    char buf[16];
    char *p = malloc(n);
    if (n > 3) return buf;
    p = realloc(p, n * 2);
    return p;
}
