f(void) { return 1; }
struct S { unsigned long long x : 70; };
int main(void) { return f(); }
