void deref(int *p);
int arith(int *p);
