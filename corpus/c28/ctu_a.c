#include "ctu_h.h"
#include <stdlib.h>
void user(void) {
    int *p = (int*)malloc(4);
    deref(p);
    int arr[2];
    arith(arr);
}
