#include <vector>
struct Unknown { int a; };
int external_fn(int);
void use(void) {
    Unknown u;
    external_fn(3);
    std::vector<int> v;
    std::vector<int>::iterator it = v.end();
    if (it != v.end()) {}
    int x = *it;
    (void)x;
}
