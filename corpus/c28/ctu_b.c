#include "ctu_h.h"
void deref(int *p) { *p = 1; }
int arith(int *p) { return *(p + 10); }
