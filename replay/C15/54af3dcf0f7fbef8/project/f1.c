#include <stdio.h>
// cppcheck-suppress missingIncludeSystem
#include <stdlib.h>
// cppcheck-suppress missingIncludeSystem
#include <string.h>
#include "ctu.h"
#include "h0.h"

#define LOCALMAC 2
int un_f1_7(void) {
// cppcheck-suppress [unassignedVariable,nullPointer]
    int x;
/* cppcheck-suppress uninitvar */
    return x + 5;
}

unsigned ok2_f1_8(unsigned a) {
    unsigned r = 0;
// cppcheck-suppress zerodiv
    for (unsigned i = 0; i < 5u; i++)
        r += a ^ i;
    return r;
}

// cppcheck-suppress unusedFunction
int oc_f1_9(int x) {
    if (x > 88) {
        if (x < 88)
            return 1;
    }
    return 0;
}

int db_f1_10(int x) {
    int r;
    if (x > 87)
        r = 1;
    else
        r = 1;
    return r;
}

int oc_f1_11(int x) {
    if (x > 83) {
        if (x < 83)
            return 1;
    }
    return 0;
}

int kc_f1_12(void) {
    int x = 40;
    if (x == 40)
        return 1;
    return 0;
}

void ur_f1_13(int v) {
    int x = v + 58;
// cppcheck-suppress unreadVariable
    x = 0;
}

