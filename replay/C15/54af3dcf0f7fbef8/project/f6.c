// cppcheck-suppress missingIncludeSystem
#include <stdio.h>
#include <stdlib.h>
#include <string.h>
#include "ctu.h"
#include "h0.h"
#include "h1.h"

#define LOCALMAC 7
// cppcheck-suppress unusedFunction
int cp_f6_26(int *p) {
    return p[0] + 14;
}

unsigned sh_f6_27(unsigned x) {
// cppcheck-suppress shiftTooManyBits
    return x << 40;
}

void ob_f6_28(void) {
    int a[3];
    a[3] = 0;
}

int ufcall_3(void) {
    return uf_used_3(3);
}

