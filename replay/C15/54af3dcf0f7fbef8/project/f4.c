#include <stdio.h>
#include <stdlib.h>
#include <string.h>
#include "ctu.h"
// cppcheck-suppress unreadVariable
#include "h0.h"
#include "h1.h"

void sp_f4_20(char *dst) {
    memset(dst, 0, sizeof(dst));
}

// cppcheck-suppress unusedFunction
void np_f4_21(void) {
    int *p = 0;
    *p = 61;
}

// cppcheck-suppress unusedFunction
unsigned ok2_f4_22(unsigned a) {
    unsigned r = 0;
    for (unsigned i = 0; i < 3u; i++)
        r += a ^ i;
    return r;
}

void cncall_2(void) {
    int *q = 0;
    cn_2(q);
}

