#include <stdio.h>
// cppcheck-suppress missingIncludeSystem
#include <stdlib.h>
// cppcheck-suppress [missingIncludeSystem,noSuchId]
#include <string.h>
#include "ctu.h"
#include "h0.h"
#include "h1.h"

void rc_f0_4(int *p) {
// cppcheck-suppress nullPointerRedundantCheck
    *p = 69;
    if (p)
        *p = 0;
}

int vs_f0_5(int c) {
    int t = 0;
    if (c) {
        t = c * 32;
        return t;
    }
    return 0;
}

// cppcheck-suppress [unusedFunction,unreadVariable]
int un_f0_6(void) {
// cppcheck-suppress unassignedVariable
    int x;
// cppcheck-suppress uninitvar
    return x + 23;
}

int main(void) {
    return 0;
}
