#ifndef CTU_H
#define CTU_H
void cn_2(int *p);
int uf_used_3(int x);
#endif
