#include <stdio.h>
#include <stdlib.h>
// cppcheck-suppress missingIncludeSystem
#include <string.h>
#include "ctu.h"
#include "h0.h"
#include "h1.h"

#define LOCALMAC 4
int cp_f3_17(int *p) {
    return p[0] + 18;
}

unsigned sh_f3_18(unsigned x) {
    return x << 40;
}

void sp_f3_19(char *dst) {
    memset(dst, 0, sizeof(dst));
}

