#include <stdio.h>
#include <stdlib.h>
// cppcheck-suppress [missingIncludeSystem,zerodiv]
#include <string.h>
#include "ctu.h"
#include "h0.h"
#include "h1.h"

// cppcheck-suppress unusedFunction
int ok_f8_33(int a, int b) {
    int s = a + b;
    if (s > 32)
        s -= 32;
    return s;
}

// cppcheck-suppress unusedFunction
int oc_f8_34(int x) {
    if (x > 12) {
// cppcheck-suppress oppositeInnerCondition
        if (x < 12)
            return 1;
    }
    return 0;
}

void cn_2(int *p) {
// cppcheck-suppress ctunullpointer
    *p = 1;
}

