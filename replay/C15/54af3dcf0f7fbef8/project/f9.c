// cppcheck-suppress missingIncludeSystem
#include <stdio.h>
#include <stdlib.h>
#include <string.h>
#include "ctu.h"
#include "h0.h"

/* cppcheck-suppress unusedFunction */
void rc_f9_35(int *p) {
    *p = 85;
    if (p)
        *p = 0;
}

void ur_f9_36(int v) {
    int x = v + 12;
    x = 0;
}

