#ifndef H0_H
#define H0_H
#define HMAC0(x) ((x) + 2)
struct S0 { int a; int b; };
// cppcheck-suppress unusedFunction
static inline void np_h0_1(void) {
    int *p = 0;
// cppcheck-suppress nullPointer
    *p = 70;
}
#endif
