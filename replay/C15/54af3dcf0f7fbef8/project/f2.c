#include <stdio.h>
#include <stdlib.h>
#include <string.h>
#include "ctu.h"
#include "h0.h"
#include "h1.h"

#define LOCALMAC 3
// cppcheck-suppress unusedFunction
void np_f2_14(void) {
    int *p = 0;
// cppcheck-suppress nullPointer
    *p = 75;
}

void lk_f2_15(void) {
    char *p = (char*)malloc(10);
    if (!p)
        return;
    p[0] = 0;
}

// cppcheck-suppress unusedFunction
int zd_f2_16(int x) {
    int z = 0;
    return x / z;
}

