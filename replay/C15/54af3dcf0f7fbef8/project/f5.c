// cppcheck-suppress missingIncludeSystem
#include <stdio.h>
#include <stdlib.h>
#include <string.h>
#include "ctu.h"
#include "h1.h"

#define LOCALMAC 6
int cp_f5_23(int *p) {
    return p[0] + 87;
}

void fl_f5_24(const char *name) {
    FILE *f = fopen(name, "r");
    if (!f)
        return;
    (void)fgetc(f);
// cppcheck-suppress resourceLeak
}

// cppcheck-suppress unusedFunction
int db_f5_25(int x) {
    int r;
    if (x > 20)
        r = 1;
    else
        r = 1;
    return r;
}

