#include <stdio.h>
/* cppcheck-suppress missingIncludeSystem */
#include <stdlib.h>
#include <string.h>
#include "ctu.h"
#include "h1.h"

#define LOCALMAC 8
int db_f7_29(int x) {
    int r;
    if (x > 8)
        r = 1;
    else
        r = 1;
    return r;
}

// cppcheck-suppress constParameterPointer
int cp_f7_30(int *p) {
    return p[0] + 36;
}

void rc_f7_31(int *p) {
    *p = 66;
    if (p)
        *p = 0;
}

int oc_f7_32(int x) {
    if (x > 6) {
// cppcheck-suppress [oppositeInnerCondition,uninitvar]
        if (x < 6)
            return 1;
    }
    return 0;
}

int uf_used_3(int x) {
    return x + 1;
}
int uf_unused_3(int x) {
    return x + 2;
}

