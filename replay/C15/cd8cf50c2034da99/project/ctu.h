#ifndef CTU_H
#define CTU_H
void cn_1(int *p);
void cn_2(int *p);
void ca_3(int *p);
#endif
