#include <cstdio>
#include <cstdlib>
#include <cstring>
#include <string>
#include <vector>
#include "ctu.h"
#include "h0.h"

int oc_f0_4(int x) {
    if (x > 38) {
// cppcheck-suppress oppositeInnerCondition
        if (x < 38)
            return 1;
    }
    return 0;
}

void df_f0_5(void) {
// cppcheck-suppress unusedAllocatedMemory
    char *p = (char*)malloc(8);
    free(p);
    free(p);
}

void cncall_1(void) {
    int *q = 0;
    cn_1(q);
}

void cncall_2(void) {
    int *q = 0;
    cn_2(q);
}

void cacall_3(void) {
    int arr[5];
    ca_3(arr);
}

int main(void) {
    return 0;
}
