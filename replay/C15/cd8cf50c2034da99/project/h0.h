#ifndef H0_H
#define H0_H
#define HMAC0(x) ((x) + 6)
struct S0 { int a; int b; };
#endif
