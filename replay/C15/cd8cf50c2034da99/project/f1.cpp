#include <cstdio>
#include <cstdlib>
#include <cstring>
#include <string>
#include <vector>
#include "ctu.h"
#include "h0.h"
#include "h1.h"

#define LOCALMAC 2
class E_f1_6 {
public:
// cppcheck-suppress [noExplicitConstructor,memleak]
    E_f1_6(int v) : m(v) {}
    int get() const { return m; }
private:
    int m;
};

int zd_f1_7(int x) {
    int z = 0;
// cppcheck-suppress [zerodiv,resourceLeak]
    return x / z;
}

void uv_f1_8(void) {
    int unused_f1_8;
}

int kc_f1_9(void) {
    int x = 3;
    if (x == 3)
        return 1;
    return 0;
}

unsigned ok2_f1_10(unsigned a) {
    unsigned r = 0;
    for (unsigned i = 0; i < 10u; i++)
        r += a ^ i;
    return r;
}

void ca_3(int *p) {
    p[10] = 0;
}

