#ifndef H1_H
#define H1_H
#define HMAC1(x) ((x) + 1)
struct S1 { int a; int b; };
#endif
