#include <cstdio>
#include <cstdlib>
#include <cstring>
#include <string>
#include <vector>
#include "ctu.h"
#include "h0.h"
#include "h1.h"

#define LOCALMAC 3
void uv_f2_11(void) {
/* cppcheck-suppress unusedVariable */
    int unused_f2_11;
}

int *cs_f2_12(void *p) {
    return (int*)p;
}

int on_f2_13(void) {
/* cppcheck-suppress constVariable */
    int a[4] = {0};
    int i = -1;
// cppcheck-suppress negativeIndex
    return a[i];
}

void cn_1(int *p) {
// cppcheck-suppress [ctunullpointer,nullPointer]
    *p = 1;
}

void cn_2(int *p) {
// cppcheck-suppress ctunullpointer
    *p = 1;
}

