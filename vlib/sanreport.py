"""Classify how a cppcheck process ended and reduce a crash to a frame signature.

classify(res) -> None (normal end) or Crash(kind, frames, signature, excerpt)
  kind: asan:<error type> | ubsan | exception:<type> | assert | signal:<n> | abort
  frames: the top cppcheck frames ("Class::function@file.cpp") of the *first* report in stderr
  signature: '<kind>:<frame1>;<frame2>' (top two cppcheck frames) — one root cause, one signature
"""
import re

_FRAME = re.compile(r'^\s*#(\d+) 0x[0-9a-f]+ (?:in )?(.*?) (/\S+?|\S+\.(?:cpp|h|c|hpp)):(\d+)(?::\d+)?\s*$')
_FRAME_MOD = re.compile(r'^\s*#(\d+) 0x[0-9a-f]+ (?:in )?(.*?)\s+\((\S+)\+0x[0-9a-f]+\)\s*$')
_ASAN = re.compile(r'ERROR: AddressSanitizer: ([A-Za-z0-9_-]+)')
_UBSAN = re.compile(r'^(\S+?):(\d+):(\d+): runtime error: (.*)$', re.M)
_TERM = re.compile(r"terminate called after throwing an instance of '([^']+)'")
_WHAT = re.compile(r'^\s*what\(\):\s*(.*)$', re.M)


class Crash:
    def __init__(self, kind, frames, excerpt, detail=''):
        self.kind = kind
        self.frames = frames
        self.excerpt = excerpt
        self.detail = detail
        top = frames[:2]
        self.signature = '%s:%s' % (kind, ';'.join(top) if top else 'no-cppcheck-frame')

    def key(self, digest=''):
        """Violation key: the top two cppcheck frames, prefixed for UBSan reports by the normalised
        diagnostic and for uncaught exceptions by the exception type (so that two different defects
        inside one long function get different keys); no whitespace."""
        tag = ''
        if self.kind == 'ubsan':
            m = self.detail.split(': ', 1)[-1] if ': ' in self.detail else self.detail
            m = m.split(',')[0]
            m = re.sub(r'\d+', 'N', m)
            tag = 'ubsan(%s):' % re.sub(r'\s+', '_', m.strip())[:70]
        elif self.kind.startswith('exception:'):
            tag = self.kind.split(':', 1)[1] + ':'
        fr = ';'.join(self.frames[:2]) if self.frames else 'no-cppcheck-frame(%s):%s' % (self.kind, digest)
        return 'crash:' + tag + fr

    def __repr__(self):
        return 'Crash(%s)' % self.signature


def _is_cppcheck_path(p):
    if p.startswith(('/usr/', '../', '/build/', '/lib/')):
        return False
    return bool(re.search(r'(^|/)(lib|cli|externals|oss-fuzz)/[^ ]*\.(cpp|h|hpp|c)$', p))


def _fname(f):
    f = f.strip()
    if f.startswith('operator'):
        m = re.match(r'(operator\s*(?:\(\)|[^(]*))', f)
        return re.sub(r'\s+', '_', m.group(1).strip() if m else f)
    depth = 0
    out = []
    for ch in f:            # drop the parameter list but keep template arguments short
        if ch == '(' and depth == 0:
            break
        if ch == '<':
            depth += 1
        elif ch == '>':
            depth -= 1
        out.append(ch)
    s = ''.join(out).strip()
    s = re.sub(r'<.*>', '<>', s)
    return re.sub(r'\s+', '_', s)[:120]


def frames_of(text, limit=8):
    """cppcheck frames of the first stack trace in text"""
    out = []
    started = False
    for line in text.splitlines():
        m = _FRAME.match(line)
        mm = None if m else _FRAME_MOD.match(line)
        if m or mm:
            started = True
            if m and _is_cppcheck_path(m.group(3)):
                fr = '%s@%s' % (_fname(m.group(2)), m.group(3).rsplit('/', 1)[-1])
                out.append(fr)
                if len(out) >= limit:
                    break
        elif started and not line.strip():
            break
    return out


def classify(res):
    """res: vlib.run.Result (not timed out). -> Crash or None"""
    err = res.err.decode('utf-8', 'replace')
    kind = None
    detail = ''
    m = _ASAN.search(err)
    t = _TERM.search(err)
    u = _UBSAN.search(err)
    if t:
        kind = 'exception:' + t.group(1)
        w = _WHAT.search(err)
        detail = w.group(1) if w else ''
    elif u and (not m or u.start() < m.start()):
        kind = 'ubsan'
        detail = '%s:%s: %s' % (u.group(1).rsplit('/', 1)[-1], u.group(2), u.group(4))
    elif m:
        kind = 'asan:' + m.group(1)
    elif 'ThreadSanitizer' in err:
        kind = 'tsan'
    elif re.search(r'Assertion .* failed', err):
        kind = 'assert'
    elif res.rc is not None and res.rc < 0:
        kind = 'signal:%d' % (-res.rc)
    elif res.rc in (134, 139):
        kind = 'signal-exit:%d' % res.rc
    if kind is None:
        return None
    if kind.startswith('asan:ABRT') and 'Assertion' in err:
        kind = 'assert'
    i = err.find('ERROR: AddressSanitizer')
    j = u.start() if u else -1
    starts = [x for x in (i, j) if x >= 0]
    start = min(starts) if starts else 0
    frames = frames_of(err[start:])
    ex_start = max(0, (t.start() if t else start) - 200)
    return Crash(kind, frames, err[ex_start:ex_start + 3000], detail)
