"""Reference semantics of cppcheck's token pattern language, written from the documentation of
Token::Match / Token::simpleMatch in /repo/lib/token.h (not from token.cpp or matchcompiler.py).

A token is any object with .str, .varId and the predicate results the documentation refers to by
name (.isOp, .isConstOp, .isComparisonOp — "%op% Any token such that isOp() returns true").

match(tokens, pos, pattern, varid)   -> True / False / None
simple_match(tokens, pos, pattern)   -> True / False
None means: the documentation does not say (the reference abstains, nothing is asserted).

Documented rules used:
  %any% any token; %assign% an assignment operator; %bool% true or false; %char% token enclosed in ';
  %comp% / %cop% / %op% by the named predicate; %name% a name, variable, type or keyword; %num% numeric token;
  %or% '|'; %oror% '||'; %type% anything that can be a variable type (a name that is not a variable), also
  keywords; %str% token starting with "; %var% varId > 0; %varid% varId == parameter;
  [abc] a one-character token that is one of the characters; a|b|c any of the alternatives; a|b| the same
  "or no token" (the element may match nothing); !!x "no tokens or any token that is not x";
  elements separated by a space are matched against consecutive tokens.
"""
import re

ASSIGN = {'=', '+=', '-=', '*=', '/=', '%=', '&=', '|=', '^=', '<<=', '>>='}
_STR = re.compile(r'^(u8|u|U|L)?R?"')
_CHR = re.compile(r"^(u8|u|U|L)?'")
_NUM = re.compile(r'^[-+]?\.?[0-9]')
_NAME = re.compile(r'^[A-Za-z_$]')


def is_string(s):
    return bool(_STR.match(s))


def is_char(s):
    return bool(_CHR.match(s))


def is_name(s):
    return bool(_NAME.match(s)) and not is_string(s) and not is_char(s)


def cmd(tok, c, varid):
    """one %cmd% or literal alternative against an existing token -> True/False/None"""
    s = tok.str
    if c == '%any%':
        return True
    if c == '%assign%':
        return s in ASSIGN
    if c == '%bool%':
        if s in ('true', 'false'):
            return True if tok.varId == 0 else None      # a C variable called true: not covered by the text
        return False
    if c == '%char%':
        return is_char(s)
    if c == '%comp%':
        return tok.isComparisonOp
    if c == '%cop%':
        return tok.isConstOp
    if c == '%op%':
        return tok.isOp
    if c == '%name%':
        if is_name(s):
            return True
        return False
    if c == '%num%':
        if _NUM.match(s):
            if '_' in s or s[0] in '+-' and len(s) == 1:
                return None                               # user-defined literal suffix: not covered
            if not re.match(r'^[-+]?(\.[0-9]|[0-9])', s):
                return None
            return True if tok.isNumber else None         # odd pp-numbers (1e, 0x): not covered
        return False
    if c == '%or%':
        return s == '|'
    if c == '%oror%':
        return s == '||'
    if c == '%type%':
        return is_name(s) and tok.varId == 0
    if c == '%str%':
        return is_string(s)
    if c == '%var%':
        return tok.varId > 0
    if c == '%varid%':
        if not varid:
            return None
        return tok.varId == varid
    if len(c) > 2 and c[0] == '%' and c[-1] == '%':
        return None
    return s == c


class Trace:
    """what the reference passed through while matching (used to classify disagreements)"""
    def __init__(self):
        self.optional_at_end = False      # an "a|b|" element was evaluated when no token was left
        self.negation_at_end = False      # a "!!x" element was evaluated when no token was left
        self.undefined = False


def match(tokens, pos, pattern, varid=0, trace=None):
    n = len(tokens)
    i = pos
    undefined = False
    for el in pattern.split(' '):
        if el == '':
            continue
        tok = tokens[i] if i < n else None
        if el.startswith('!!') and len(el) > 2:
            if tok is None:
                if trace:
                    trace.negation_at_end = True
                continue
            if tok.str == el[2:]:
                return False
            i += 1
            continue
        if len(el) > 2 and el[0] == '[' and el[-1] == ']':
            if tok is None or len(tok.str) != 1 or tok.str not in el[1:-1]:
                return False
            i += 1
            continue
        alts = el.split('|') if (len(el) > 1 and '|' in el and el not in ('||',)) else [el]
        optional = '' in alts and len(alts) > 1
        if tok is None:
            if optional:
                if trace:
                    trace.optional_at_end = True
                continue
            return False
        res = [cmd(tok, a, varid) for a in alts if a != '']
        if any(r is True for r in res):
            i += 1
        elif any(r is None for r in res):
            undefined = True
            if trace:
                trace.undefined = True
            return None
        elif optional:
            continue
        else:
            return False
    return None if undefined else True


def simple_match(tokens, pos, pattern):
    n = len(tokens)
    if pos >= n:
        return False if pattern.strip() else None
    i = pos
    for el in pattern.split(' '):
        if i >= n or tokens[i].str != el:
            return False
        i += 1
    return True
