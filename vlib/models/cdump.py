"""Light reader for `cppcheck --dump` XML (first configuration only) — used by C07–C10.

Element/attribute names follow /repo/lib/tokenize.cpp `Tokenizer::dump`, /repo/lib/token.cpp
(`Token::printValueFlow`), /repo/lib/symboldatabase.cpp `SymbolDatabase::printXml`.
"""
import xml.etree.ElementTree as ET


class Tok:
    __slots__ = ('id', 'line', 'col', 'str', 'a', 'idx', 'file')

    def __init__(self, el, idx):
        a = el.attrib
        self.a = a
        self.id = a.get('id')
        self.line = int(a.get('linenr', '0'))
        self.col = int(a.get('column', '0'))
        self.str = a.get('str', '')
        self.file = a.get('file', '')
        self.idx = idx

    def get(self, k, d=None):
        return self.a.get(k, d)

    def __repr__(self):
        return '%s@%d:%d' % (self.str, self.line, self.col)


class Dump:
    def __init__(self, root):
        self.language = root.get('language', '')
        pl = root.find('platform')
        self.platform = dict(pl.attrib) if pl is not None else {}
        d = root.find('dump')
        self.ok = d is not None
        self.tokens = []
        self.byid = {}
        self.vars = {}
        self.funcs = {}
        self.scopes = {}
        self.values = {}
        if d is None:
            return
        tl = d.find('tokenlist')
        if tl is not None:
            for i, el in enumerate(tl):
                t = Tok(el, i)
                self.tokens.append(t)
                self.byid[t.id] = t
        sc = d.find('scopes')
        if sc is not None:
            for s in sc:
                self.scopes[s.get('id')] = dict(s.attrib)
                fl = s.find('functionList')
                if fl is not None:
                    for f in fl:
                        fa = dict(f.attrib)
                        fa['scope'] = s.get('id')
                        fa['args'] = [(a.get('nr'), a.get('variable')) for a in f.findall('arg')]
                        self.funcs[f.get('id')] = fa
        vs = d.find('variables')
        if vs is not None:
            for v in vs:
                self.vars[v.get('id')] = dict(v.attrib)
        vf = d.find('valueflow')
        if vf is not None:
            for v in vf:
                self.values[v.get('id')] = [dict(x.attrib) for x in v]

    # ------------------------------------------------------------------ helpers
    def tok(self, tid):
        return self.byid.get(tid) if tid else None

    def at(self):
        """(line, col) -> [tokens] (instantiated templates may duplicate positions)"""
        m = {}
        for t in self.tokens:
            m.setdefault((t.line, t.col), []).append(t)
        return m

    def by_line(self):
        m = {}
        for t in self.tokens:
            m.setdefault(t.line, []).append(t)
        return m

    def known_values(self, t):
        vid = t.get('values')
        if not vid:
            return []
        return [v for v in self.values.get(vid, []) if v.get('known') == 'true']

    def op1(self, t):
        return self.tok(t.get('astOperand1'))

    def op2(self, t):
        return self.tok(t.get('astOperand2'))

    def parent(self, t):
        return self.tok(t.get('astParent'))


def parse(data):
    """bytes/str of a .dump file -> Dump; raises ET.ParseError on malformed XML"""
    root = ET.fromstring(data)
    return Dump(root)


def load(path):
    with open(path, 'rb') as f:
        return parse(f.read())


def vtype(t):
    """(type, sign, pointer) of a token or None if cppcheck assigned no value type"""
    ty = t.get('valueType-type')
    if ty is None:
        return None
    return (ty, t.get('valueType-sign', ''), int(t.get('valueType-pointer', '0')))
