"""cfgselect — model of the conditional skeletons of C12.

A skeleton is a tree of conditionals (#ifdef X / #ifndef X / #if defined(X) / #if !defined(X), each
with an optional #else) over macros that are never defined or undefined in the file.  Every
*region* (the top level, every #if branch, every #else branch) carries exactly one finding site.
The model computes for every region its guard: {macro: True (must be defined) | False (must not)}.
"""

KINDS = ('ifdef', 'ifndef', 'if-defined', 'if-not-defined')


class Cond:
    def __init__(self, kind, macro, has_else):
        self.kind = kind
        self.macro = macro
        self.then = None      # Region
        self.els = None       # Region or None
        self.has_else = has_else

    def positive(self):
        """True if the first branch requires the macro to be defined"""
        return self.kind in ('ifdef', 'if-defined')

    def directive(self, style=0):
        m = self.macro
        if self.kind == 'ifdef':
            return '#ifdef ' + m
        if self.kind == 'ifndef':
            return '#ifndef ' + m
        if self.kind == 'if-defined':
            return ['#if defined(%s)', '#if defined %s', '#if defined( %s )'][style % 3] % m
        return ['#if !defined(%s)', '#if !defined %s', '#if ! defined( %s )'][style % 3] % m


class Region:
    def __init__(self, rid, guard):
        self.rid = rid
        self.guard = dict(guard)   # macro -> bool
        self.items = []            # sequence of 'SITE' and Cond
        self.line = None           # line of the finding site (set by render)


def regions(root):
    out = [root]
    for it in root.items:
        if isinstance(it, Cond):
            out += regions(it.then)
            if it.els is not None:
                out += regions(it.els)
    return out


def conds(root):
    out = []
    for it in root.items:
        if isinstance(it, Cond):
            out.append(it)
            out += conds(it.then)
            if it.els is not None:
                out += conds(it.els)
    return out


def render(root, style_rng=None):
    """-> (text, {line: region}); assigns region.line"""
    lines = []

    def emit(region, depth):
        ind = ' ' * (depth if style_rng is None else style_rng.choice([0, depth, 2 * depth]))
        for it in region.items:
            if it == 'SITE':
                lines.append('void f_%d(void) { int a[2]; a[%d] = 0; }' % (region.rid, 2 + region.rid))
                region.line = len(lines)
            else:
                st = style_rng.randint(0, 2) if style_rng else 0
                lines.append(ind + it.directive(st))
                emit(it.then, depth + 1)
                if it.els is not None:
                    lines.append(ind + '#else')
                    emit(it.els, depth + 1)
                lines.append(ind + '#endif')
    emit(root, 0)
    text = '\n'.join(lines) + '\n'
    return text, {r.line: r for r in regions(root)}


def active(guard, defined):
    """is a region with this guard compiled when exactly the macros in `defined` are defined?"""
    return all((m in defined) == want for m, want in guard.items())


def distinct_guards(root):
    return len({tuple(sorted(r.guard.items())) for r in regions(root)})


def parse_cfg(cfg):
    """'A=A;B=1;C' -> {'A': 'A', 'B': '1', 'C': None}"""
    out = {}
    for part in cfg.split(';'):
        part = part.strip()
        if not part:
            continue
        name, eq, val = part.partition('=')
        out[name] = val if eq else None
    return out
