"""Executable reading of the path-pattern rules documented in /repo/lib/pathmatch.h (comment
"Path matching rules") and man/manual.md (sections "Check files matching a given file filter",
"Ignore files matching a given pattern", "Plain text suppressions").

Written from the documentation, not from lib/pathmatch.cpp:

* patterns and paths are canonicalised: '/./' -> '/', '/dir/../' -> '/', '//' -> '/', trailing
  slashes removed (root slash kept);
* '**' matches any number of characters including separators, '*' any number of characters
  except separators, '?' exactly one character except a separator;
* a pattern that looks absolute ('/...') must match the *start* of the file's canonical absolute
  path "up until a path separator or the end of the pathname";
* a pattern that is '.', '..' or starts with './' or '../' is taken relative to the base path
  and then treated as an absolute pattern;
* any other pattern may match "any part of the file's canonical absolute path up until a path
  separator or the end of the pathname, and the matching part directly follows a path separator";
* a pattern that ended with a separator (before canonicalisation) can match the final component
  of the file path only if the file is a directory.

`match()` returns True/False, or None where the documents do not decide the case (the caller
counts such cases but does not judge them).
"""
import re

GLOB_CHARS = '*?'


def split_canon(path):
    """-> (is_absolute, [components]) with '.', '' removed and 'x/..' collapsed.
    '..' at the root is dropped; leading '..' of a relative path is kept."""
    absolute = path.startswith('/')
    out = []
    for c in path.split('/'):
        if c == '' or c == '.':
            continue
        if c == '..':
            if out and out[-1] != '..':
                out.pop()
            elif not absolute:
                out.append('..')
            continue
        out.append(c)
    return absolute, out


def canon(path, base=''):
    """canonical form of `path`; relative paths are joined to `base` when base is given"""
    if not path.startswith('/') and base:
        path = base.rstrip('/') + '/' + path
    absolute, comps = split_canon(path)
    s = '/'.join(comps)
    return ('/' + s) if absolute else s


def display(path):
    """the name under which cppcheck reports a file: the given path, canonicalised but not made
    absolute ('./a//b/../c.c' -> 'a/c.c')"""
    absolute, comps = split_canon(path)
    s = '/'.join(comps)
    if absolute:
        return '/' + s
    return s or '.'


def is_relative_pattern(p):
    return p in ('.', '..') or p.startswith('./') or p.startswith('../')


def is_absolute_pattern(p):
    return p.startswith('/')


def glob_regex(pat):
    """regular expression (string) for a canonical glob pattern"""
    out = []
    i = 0
    while i < len(pat):
        c = pat[i]
        if c == '*':
            if pat.startswith('**', i):
                out.append('.*')
                i += 2
                continue
            out.append('[^/]*')
        elif c == '?':
            out.append('[^/]')
        else:
            out.append(re.escape(c))
        i += 1
    return ''.join(out)


_rx_cache = {}


def _rx(pat):
    r = _rx_cache.get(pat)
    if r is None:
        if len(_rx_cache) > 20000:
            _rx_cache.clear()
        r = _rx_cache[pat] = re.compile(glob_regex(pat), re.S)
    return r


def undecided(pattern):
    """reasons for which the documents do not fix the meaning of `pattern` (None if decided)"""
    if pattern == '':
        return 'empty-pattern'
    comps = pattern.split('/')
    for i, c in enumerate(comps):
        if c == '..' and i > 0 and any(g in comps[i - 1] for g in GLOB_CHARS):
            return 'dotdot-after-glob'
    if '***' in pattern:
        # '***' can be read as '**','*' or '*','**': same language, documents do not list it
        return None
    return None


def match(pattern, path, base='', is_dir=False):
    """Does `pattern` select the file `path`?  base: directory that relative patterns and relative
    paths are relative to ('' = none known: relative paths stay relative).
    The documents say '?' matches "any single character": for names outside ASCII that may mean a
    code point or a byte; where the two readings differ the result is None (undecided)."""
    r = _match(pattern, path, base, is_dir)
    if r is None or (pattern.isascii() and path.isascii() and base.isascii()) or '?' not in pattern:
        return r

    def b(x):
        return x.encode('utf-8', 'surrogateescape').decode('latin-1')
    r2 = _match(b(pattern), b(path), b(base), is_dir)
    return r if r == r2 else None


def _match(pattern, path, base='', is_dir=False):
    why = undecided(pattern)
    if why:
        return None
    trailing_sep = pattern.endswith('/') and pattern.strip('/') != ''
    real = is_absolute_pattern(pattern) or is_relative_pattern(pattern)
    if is_relative_pattern(pattern):
        pc = canon(pattern, base) if base else canon(pattern)
        if not base:
            # relative to an unknown base: compared with the (relative) path from its start
            pass
    else:
        pabs, pcomps = split_canon(pattern)
        pc = ('/' if pabs else '') + '/'.join(pcomps)
    if pc == '':
        return None  # pattern canonicalises to nothing ('x/..'): not described
    xc = canon(path, base)
    xabs = xc.startswith('/')
    if is_absolute_pattern(pattern) and not xabs:
        return None  # absolute pattern against a path whose absolute form is unknown
    # candidate "ends": the whole path, or the path up to one of its separators
    comps = xc.strip('/').split('/') if xc.strip('/') else []
    cands = []
    for n in range(len(comps), 0, -1):
        if n == len(comps) and trailing_sep and not is_dir:
            continue
        cands.append(('/' if xabs else '') + '/'.join(comps[:n]))
    rx = _rx(pc)
    for cand in cands:
        if real:
            if rx.fullmatch(cand):
                return True
        else:
            starts = [0] + [i + 1 for i, ch in enumerate(cand) if ch == '/']
            for s in starts:
                if rx.fullmatch(cand, s):
                    return True
    return False


def match_any(patterns, path, base='', is_dir=False):
    """True if some pattern matches, False if none does, None if that depends on an undecided one"""
    und = False
    for p in patterns:
        r = match(p, path, base, is_dir)
        if r:
            return True
        if r is None:
            und = True
    return None if und else False


# ---------------------------------------------------------------- file selection
# man page / --help: "If a directory is given instead of a filename, *.cpp, *.cxx, *.cc, *.c++,
# *.c, *.ipp, *.ixx, *.tpp, and *.txx files are checked recursively from the given directory."
DOC_SOURCE_EXTS = ('.cpp', '.cxx', '.cc', '.c++', '.c', '.ipp', '.ixx', '.tpp', '.txx')
# accepted by the implementation but not listed in the documents: observed, counted, not judged
UNDOCUMENTED_EXTS = ('.cl', '.C')


def extension(name):
    base = name.rsplit('/', 1)[-1]
    i = base.rfind('.')
    return base[i:] if i >= 0 else ''


def accepted(name):
    """True / False / None (extension whose status the documents do not state)"""
    e = extension(name)
    if e in DOC_SOURCE_EXTS:
        return True
    if e in UNDOCUMENTED_EXTS or (e.lower() in DOC_SOURCE_EXTS and e != e.lower()):
        return None
    return False
