"""Reference interpretation of library `<valid>` expressions (man/reference-cfg-format.md, "Value range").

    0,3,5      only values 0, 3 and 5 are valid
    -10:20     all values between -10 and 20 are valid
    :0         all values that are less or equal to 0 are valid
    0:         all values that are greater or equal to 0 are valid
    0,2:32     the value 0 and all values between 2 and 32 are valid
    -1.5:5.6   all values between -1.5 and 5.6 are valid
    !0.0       all values are accepted, except 0.0

Exact arithmetic (fractions), independent of cppcheck's tokenizer-based evaluation.
"""
from fractions import Fraction


def num(s):
    s = s.strip()
    return Fraction(s)


class Item:
    def __init__(self, lo=None, hi=None, single=None, neg=None):
        self.lo, self.hi, self.single, self.neg = lo, hi, single, neg

    def matches(self, v):
        if self.neg is not None:
            return v != self.neg
        if self.single is not None:
            return v == self.single
        if self.lo is not None and v < self.lo:
            return False
        if self.hi is not None and v > self.hi:
            return False
        return True


def parse(expr):
    items = []
    for part in expr.split(','):
        part = part.strip()
        if part.startswith('!'):
            items.append(Item(neg=num(part[1:])))
        elif ':' in part:
            a, b = part.split(':', 1)
            items.append(Item(lo=num(a) if a.strip() else None, hi=num(b) if b.strip() else None))
        else:
            items.append(Item(single=num(part)))
    return items


def is_valid(expr, value):
    """value: Fraction/int. True iff the documented meaning of expr admits value."""
    v = Fraction(value)
    return any(i.matches(v) for i in parse(expr))


def boundaries(expr):
    """all numbers mentioned in expr (as Fractions)"""
    out = []
    for i in parse(expr):
        for x in (i.lo, i.hi, i.single, i.neg):
            if x is not None:
                out.append(x)
    return out
