"""Platform table for C09/C10: cppcheck platform <-> clang target.

Built-in cppcheck platforms are paired with the clang triple that implements the same data model;
"file" platforms are *generated*: the sizes and the char signedness written into the platform XML are
read from `clang --target=<triple> -dM -E -x c /dev/null`, so cppcheck is told exactly the model the
reference compiler uses.  Properties of a target that a platform file cannot express (signedness of
wchar_t, which integer type size_t/ptrdiff_t is) are exposed so that oracles can drop the cases that
depend on them.
"""
import os
import re
import threading

from .. import run

CLANG = 'clang-14'
CLANGXX = 'clang-14'
CLANG16 = 'clang-16'      # its static_assert diagnostics print the evaluated operands (value oracle of C10)
GCC = 'gcc'

# cppcheck built-in platform name -> clang triple
BUILTIN = [
    ('unix64', 'x86_64-linux-gnu'),
    ('unix32', 'i386-linux-gnu'),
    ('win64', 'x86_64-pc-windows-msvc'),
    ('win32A', 'i686-pc-windows-msvc'),
    ('win32W', 'i686-pc-windows-msvc'),
    ('native', 'x86_64-linux-gnu'),
]
# generated platform files (name -> clang triple)
GENERATED = [
    ('avr', 'avr'),
    ('msp430', 'msp430'),
    ('mips32', 'mips-linux-gnu'),
    ('riscv32', 'riscv32-unknown-elf'),
    ('arm32', 'arm-none-eabi'),
    ('aarch64', 'aarch64-linux-gnu'),
]
ALL = [n for n, _ in BUILTIN] + [n for n, _ in GENERATED]

_cache = {}
_lock = threading.Lock()


def _macros(triple):
    with _lock:
        if triple in _cache:
            return _cache[triple]
    r = run.run([CLANG, '--target=' + triple, '-dM', '-E', '-x', 'c', '/dev/null'], timeout=60)
    m = {}
    if r.rc == 0:
        for line in r.otext().splitlines():
            mm = re.match(r'#define (\w+) ?(.*)$', line)
            if mm:
                m[mm.group(1)] = mm.group(2).strip()
    with _lock:
        _cache[triple] = m
    return m


def _norm_type(s):
    """'long unsigned int' -> 'unsigned long' etc."""
    w = s.split()
    uns = 'unsigned' in w
    w = [x for x in w if x not in ('unsigned', 'signed', 'int')]
    base = ' '.join(w) or 'int'
    return ('unsigned ' if uns else '') + base


class Plat:
    def __init__(self, name, triple, generated):
        self.name = name
        self.triple = triple
        self.generated = generated
        m = _macros(triple)
        self.ok = bool(m)
        g = lambda k, d=0: int(m.get(k, d) or d)
        self.char_unsigned = '__CHAR_UNSIGNED__' in m
        self.sizes = {
            'bool': 1, 'char': 1, 'short': g('__SIZEOF_SHORT__'), 'int': g('__SIZEOF_INT__'),
            'long': g('__SIZEOF_LONG__'), 'long long': g('__SIZEOF_LONG_LONG__'),
            'float': g('__SIZEOF_FLOAT__'), 'double': g('__SIZEOF_DOUBLE__'),
            'long double': g('__SIZEOF_LONG_DOUBLE__'), 'pointer': g('__SIZEOF_POINTER__'),
            'size_t': g('__SIZEOF_SIZE_T__'), 'wchar_t': g('__SIZEOF_WCHAR_T__'),
        }
        self.char_bit = g('__CHAR_BIT__', 8)
        self.wchar_type = _norm_type(m.get('__WCHAR_TYPE__', 'int'))
        self.size_type = _norm_type(m.get('__SIZE_TYPE__', 'unsigned long'))
        self.ptrdiff_type = _norm_type(m.get('__PTRDIFF_TYPE__', 'long'))
        self.char16_type = _norm_type(m.get('__CHAR16_TYPE__', 'unsigned short'))
        self.char32_type = _norm_type(m.get('__CHAR32_TYPE__', 'unsigned int'))
        self.xml_path = None

    def xml(self):
        s = self.sizes
        return ('<?xml version="1.0"?>\n<platform>\n  <char_bit>%d</char_bit>\n  <default-sign>%s</default-sign>\n'
                '  <sizeof>\n    <bool>1</bool>\n    <short>%d</short>\n    <int>%d</int>\n    <long>%d</long>\n'
                '    <long-long>%d</long-long>\n    <float>%d</float>\n    <double>%d</double>\n'
                '    <long-double>%d</long-double>\n    <pointer>%d</pointer>\n    <size_t>%d</size_t>\n'
                '    <wchar_t>%d</wchar_t>\n  </sizeof>\n</platform>\n' % (
                    self.char_bit, 'unsigned' if self.char_unsigned else 'signed', s['short'], s['int'],
                    s['long'], s['long long'], s['float'], s['double'], s['long double'], s['pointer'],
                    s['size_t'], s['wchar_t']))

    def cppcheck_arg(self, workdir):
        """--platform=… argument; generated platforms write their XML file into workdir once"""
        if not self.generated:
            return '--platform=' + self.name
        p = os.path.join(workdir, 'plat_%s.xml' % self.name)
        if not os.path.exists(p):
            tmp = p + '.%d.tmp' % threading.get_ident()
            with open(tmp, 'w') as f:
                f.write(self.xml())
            os.replace(tmp, p)
        self.xml_path = p
        return '--platform=' + p

    def clang_args(self):
        return ['--target=' + self.triple]

    def bits(self, base):
        return self.sizes.get(base, 0) * self.char_bit


def get(name):
    for n, t in BUILTIN:
        if n == name:
            return Plat(n, t, False)
    for n, t in GENERATED:
        if n == name:
            return Plat(n, t, True)
    raise KeyError(name)


def check_dump_platform(plat, dump_platform):
    """Compare the <platform> element of a dump with the clang target; -> list of mismatching fields.
    A mismatch means the pairing is not valid (harness problem), not a finding."""
    bad = []
    pairs = [('short_bit', 'short'), ('int_bit', 'int'), ('long_bit', 'long'), ('long_long_bit', 'long long'),
             ('pointer_bit', 'pointer'), ('size_t_bit', 'size_t'), ('wchar_t_bit', 'wchar_t'),
             ('float_bit', 'float'), ('double_bit', 'double'), ('long_double_bit', 'long double')]
    for attr, k in pairs:
        v = dump_platform.get(attr)
        if v is not None and int(v) != plat.bits(k):
            bad.append('%s: cppcheck %s, clang %d' % (attr, v, plat.bits(k)))
    return bad
