"""Bring three views of one expression to a common canonical form (C07/C09/C10):

  * the generator's own tree           (vlib/gen/exprgen.canon)
  * clang's JSON AST                   (ClangUnit.canon / ClangUnit.pair)
  * cppcheck's --dump AST              (CppUnit.canon)

Canonical form = S-expression with cppcheck's representation conventions (probed on the pinned
build): leaves are `text@line:col`; `(op L R)`; `(pre<op> X)`, `(post<op> X)`; `(cast X)`;
`(call F A1 A2 …)` (argument comma chain flattened; functional casts, static_cast<>, `if (…)` are
calls of a keyword leaf); `([ B I)`; `(. B m@pos)` / `(-> B m@pos)`; `(? C A B)`; `(sizeof X)`;
`sizeoft@pos` for sizeof(type); `(new …)`, `(delete X)`; `(:: …)` chains.
"""
import json
import re

from . import platforms
from .. import run

TRANSPARENT = {'ImplicitCastExpr', 'ParenExpr', 'ExprWithCleanups', 'MaterializeTemporaryExpr',
               'CXXBindTemporaryExpr', 'ConstantExpr', 'FullExpr'}


def at(pos):
    return '@%d:%d' % pos


TYPE_KEYWORDS = {'int', 'char', 'short', 'long', 'float', 'double', 'bool', 'unsigned', 'signed', 'wchar_t'}


def leaftext(s):
    if s[:1].isdigit() or (s[:1] == '.' and s[1:2].isdigit()):
        return '#'
    if s in TYPE_KEYWORDS:
        return '<type>'
    return s


class LineMap:
    def __init__(self, text):
        self.starts = [0]
        b = text.encode('utf-8') if isinstance(text, str) else text
        self.bytes = b
        i = b.find(b'\n')
        while i >= 0:
            self.starts.append(i + 1)
            i = b.find(b'\n', i + 1)

    def pos(self, off):
        import bisect
        i = bisect.bisect_right(self.starts, off) - 1
        return (i + 1, off - self.starts[i] + 1)

    def text(self, off, n):
        return self.bytes[off:off + n].decode('utf-8', 'replace')


def clang_ast(path, lang, plat=None, std=None, cwd=None, timeout=300):
    """-> (json root or None, stderr text). Errors (not warnings) make the unit unusable."""
    argv = [platforms.CLANG, '-Xclang', '-ast-dump=json', '-fsyntax-only', '-w',
            '-x', 'c++' if lang == 'c++' else 'c', '-std=' + (std or ('c++17' if lang == 'c++' else 'c11'))]
    if plat is not None:
        argv += plat.clang_args()
    argv.append(path)
    r = run.run(argv, cwd=cwd, timeout=timeout)
    if r.timed_out or r.rc != 0:
        return None, r.etext()
    try:
        return json.loads(r.out), r.etext()
    except ValueError as e:
        return None, 'bad json: %s' % e


def loc_off(loc):
    if loc is None:
        return None
    if 'offset' in loc:
        return loc['offset']
    for k in ('expansionLoc', 'spellingLoc'):
        if k in loc and 'offset' in loc[k]:
            return loc[k]['offset']
    return None


class ClangUnit:
    """statement trees of the generated functions, keyed by source line"""

    def __init__(self, root, text):
        self.lm = LineMap(text)
        self.stmts = {}
        self.decls = {}      # clang decl id -> node
        for n in root.get('inner', []):
            if n.get('kind') == 'FunctionDecl' and not n.get('isImplicit'):
                body = [c for c in n.get('inner', []) if c.get('kind') == 'CompoundStmt']
                if not body:
                    continue
                for st in body[0].get('inner', []):
                    off = loc_off(st.get('range', {}).get('begin'))
                    if off is None:
                        continue
                    line = self.lm.pos(off)[0]
                    self.stmts.setdefault(line, st)

    # -------------------------------------------------------------- structure
    def strip(self, n):
        while True:
            k = n.get('kind')
            if k in TRANSPARENT and n.get('inner'):
                n = n['inner'][0]
            elif k == 'CXXConstructExpr' and len(n.get('inner', [])) == 1:
                n = n['inner'][0]
            else:
                return n

    def begin(self, n):
        return self.lm.pos(loc_off(n['range']['begin']))

    def endtok(self, n):
        return self.lm.pos(loc_off(n['range']['end']))

    def toktext(self, loc):
        off = loc_off(loc)
        ln = loc.get('tokLen')
        if ln is None:
            for k in ('expansionLoc', 'spellingLoc'):
                if k in loc:
                    ln = loc[k].get('tokLen')
                    break
        return self.lm.text(off, ln or 0)

    def head(self, n):
        """-> (head string, [children clang nodes]) of a stripped node; children in canonical order"""
        k = n.get('kind')
        inner = n.get('inner', [])
        if k in ('BinaryOperator', 'CompoundAssignOperator'):
            return n['opcode'], [inner[0], inner[1]]
        if k == 'UnaryOperator':
            op = n['opcode']
            if op == '__extension__':
                return None, None
            return ('post' if n.get('isPostfix') else 'pre') + op, [inner[0]]
        if k == 'ConditionalOperator':
            return '?', inner[:3]
        if k == 'CStyleCastExpr':
            return 'cast', [inner[0]]
        if k in ('CXXStaticCastExpr', 'CXXReinterpretCastExpr', 'CXXConstCastExpr', 'CXXDynamicCastExpr'):
            kw = self.toktext(n['range']['begin'])
            return 'call ' + kw + at(self.begin(n)), [inner[0]]
        if k == 'CXXFunctionalCastExpr':
            kw = leaftext(self.toktext(n['range']['begin']))
            return 'call ' + kw + at(self.begin(n)), inner[:1]
        if k in ('CXXScalarValueInitExpr', 'CXXTemporaryObjectExpr'):
            kw = leaftext(self.toktext(n['range']['begin']))
            return 'call ' + kw + at(self.begin(n)), []
        if k in ('CallExpr', 'CXXMemberCallExpr'):
            return 'call', [c for c in inner if c.get('kind') != 'CXXDefaultArgExpr']
        if k == 'CXXOperatorCallExpr':
            callee = self.strip(inner[0])
            name = callee.get('referencedDecl', {}).get('name', '')
            if name.startswith('operator') and len(inner) == 3:
                return name[len('operator'):], [inner[1], inner[2]]
            return None, None
        if k == 'ArraySubscriptExpr':
            return '[', [inner[0], inner[1]]
        if k == 'MemberExpr':
            return '%s %%s %s%s' % ('->' if n.get('isArrow') else '.', n.get('name'), at(self.endtok(n))), [inner[0]]
        if k == 'UnaryExprOrTypeTraitExpr':
            if n.get('name') != 'sizeof':
                return None, None
            if inner:
                return 'sizeof', [inner[0]]
            return 'LEAF sizeoft' + at(self.begin(n)), []
        if k == 'DeclRefExpr':
            b, e = loc_off(n['range']['begin']), loc_off(n['range']['end'])
            if b == e:
                return 'LEAF ' + self.toktext(n['range']['begin']) + at(self.begin(n)), []
            # qualified name and/or explicit template arguments: rebuild from the source text
            elen = n['range']['end'].get('tokLen', 1)
            src = self.lm.text(b, e + elen - b)
            return 'LEAF ' + self.qual_canon(src, b), []
        if k in ('IntegerLiteral', 'FloatingLiteral', 'CharacterLiteral', 'StringLiteral', 'CXXBoolLiteralExpr',
                 'CXXNullPtrLiteralExpr', 'CXXThisExpr'):
            return 'LEAF ' + leaftext(self.toktext(n['range']['begin'])) + at(self.begin(n)), []
        if k == 'CXXNewExpr':
            # the type token follows `new`
            b = loc_off(n['range']['begin'])
            e = loc_off(n['range']['end']) + n['range']['end'].get('tokLen', 1)
            src = self.lm.text(b, e - b)
            m = re.match(r'new\s+([A-Za-z_]\w*)', src)
            if not m:
                return None, None
            tpos = self.lm.pos(b + m.start(1))
            t = leaftext(m.group(1)) + at(tpos)
            rest = src[m.end(1):].lstrip()
            if n.get('isArray'):
                return 'NEWARR ' + t, [inner[0]]
            if rest.startswith('('):
                args = inner
                if len(args) == 1 and self.strip(args[0]).get('kind') == 'CXXConstructExpr':
                    args = self.strip(args[0]).get('inner', [])
                return 'NEWCALL ' + t, args
            return 'LEAF (new %s)' % t, []
        if k == 'CXXDeleteExpr':
            return 'delete', [inner[0]]
        if k == 'ReturnStmt':
            return 'return', inner[:1]
        if k == 'IfStmt':
            return 'call if' + at(self.begin(n)), inner[:1]
        return None, None

    def qual_canon(self, src, off):
        toks = []
        for m in re.finditer(r'::|[A-Za-z_]\w*|<', src):
            if m.group(0) == '<':
                break
            toks.append((m.group(0), self.lm.pos(off + m.start())))
        if not toks:
            return '?'
        i = 0
        if toks[0][0] == '::':
            cur = '(:: %s%s)' % (toks[1][0], at(toks[1][1]))
            i = 2
        else:
            cur = toks[0][0] + at(toks[0][1])
            i = 1
        while i + 1 < len(toks):
            cur = '(:: %s %s%s)' % (cur, toks[i + 1][0], at(toks[i + 1][1]))
            i += 2
        return cur

    def canon(self, n):
        n = self.strip(n)
        if n.get('kind') == 'DeclStmt':
            vd = n['inner'][0]
            init = [c for c in vd.get('inner', []) if 'kind' in c and not c['kind'].endswith('Attr')]
            pos = self.lm.pos(loc_off(vd['loc']))
            if not init:
                return '?'
            return '(= %s%s %s)' % (vd.get('name'), at(pos), self.canon(init[-1]))
        h, ch = self.head(n)
        if h is None:
            return '<%s>' % n.get('kind')
        if h.startswith('LEAF '):
            return h[5:]
        cs = [self.canon(c) for c in ch]
        if h.startswith('NEWARR '):
            return '(new ([ %s %s))' % (h[7:], cs[0])
        if h.startswith('NEWCALL '):
            return '(new (call %s%s))' % (h[8:], ''.join(' ' + c for c in cs))
        if '%s' in h:
            return '(' + (h % cs[0]) + ')'
        return '(%s%s)' % (h, ''.join(' ' + c for c in cs))

    def pair(self, g, n, out):
        """parallel walk of generator node g and clang node n (trees already known equal);
        out[id(g)] = clang node (stripped)"""
        n = self.strip(n)
        if n.get('kind') == 'DeclStmt':
            vd = n['inner'][0]
            init = [c for c in vd.get('inner', []) if 'kind' in c and not c['kind'].endswith('Attr')]
            out[id(g)] = vd
            out[id(g.ch[0])] = vd
            self.pair(g.ch[1], init[-1], out)
            return
        out[id(g)] = n
        h, ch = self.head(n)
        if not ch:
            return
        gch = g.ch
        if g.k in ('call',) and n.get('kind') in ('CallExpr', 'CXXMemberCallExpr'):
            pass
        if len(gch) != len(ch):
            return
        for a, b in zip(gch, ch):
            self.pair(a, b, out)


def clang_type(n):
    t = n.get('type', {})
    return t.get('desugaredQualType') or t.get('qualType')


# ---------------------------------------------------------------------------------------------
# cppcheck
# ---------------------------------------------------------------------------------------------
CAST_KW = ('static_cast', 'reinterpret_cast', 'const_cast', 'dynamic_cast')


class CppUnit:
    def __init__(self, dump, sizeoft_positions=(), numeric_leaves=()):
        """numeric_leaves: (line, col, length) of the numeric literals the generator printed. cppcheck's
        column of a floating literal is not the column of its first character (simplecpp reports a later
        column inside the literal); a numeric token is therefore identified with the generated literal whose
        span contains the reported column."""
        self.d = dump
        self.szt = set(sizeoft_positions)
        self.bylines = dump.by_line()
        self.numspans = {}
        for (line, col, ln) in numeric_leaves:
            self.numspans.setdefault(line, []).append((col, ln))

    def numcol(self, t):
        for col, ln in self.numspans.get(t.line, ()):
            if col <= t.col < col + ln:
                return col
        return t.col

    def roots(self, line):
        """AST roots among the tokens of a line"""
        r = []
        for t in self.bylines.get(line, []):
            if (t.get('astOperand1') or t.get('astOperand2')) and not t.get('astParent'):
                r.append(t)
        return r

    def leaf(self, t):
        if t.get('type') == 'number':
            return leaftext(t.str) + at((t.line, self.numcol(t)))
        return leaftext(t.str) + at((t.line, t.col))

    def args(self, t):
        if t is None:
            return []
        if t.str == ',' and t.get('astOperand1') and t.get('astOperand2'):
            return self.args(self.d.op1(t)) + [self.d.op2(t)]
        return [t]

    def canon(self, t, depth=0):
        d = self.d
        if t is None:
            return '?'
        if depth > 200:
            return '<deep>'
        o1, o2 = d.op1(t), d.op2(t)
        if t.get('astOperand1') and o1 is None or t.get('astOperand2') and o2 is None:
            return '<dangling>'
        c = lambda x: self.canon(x, depth + 1)
        s = t.str
        if o1 is None and o2 is None:
            return self.leaf(t)
        if o1 is None:
            return '<noop1 %s %s>' % (s, c(o2))
        if s == '(':
            if o1.str == 'sizeof' and not o1.get('astOperand1'):
                if (o1.line, o1.col) in self.szt:
                    return 'sizeoft' + at((o1.line, o1.col))
                return '(sizeof %s)' % c(o2)
            if t.get('isCast') == 'true' and o2 is None:
                return '(cast %s)' % c(o1)
            if (o1.str in ('if', 'while', 'switch') or o1.str in CAST_KW) and not o1.get('astOperand1'):
                # not an argument list: a comma here is the comma operator
                return '(call %s %s)' % (c(o1), c(o2))
            return '(call %s%s)' % (c(o1), ''.join(' ' + c(a) for a in self.args(o2)))
        if s == '[':
            if o2 is None:
                return '([ %s)' % c(o1)
            return '([ %s %s)' % (c(o1), c(o2))
        if s == '.':
            arrow = t.get('originalName') == '->'
            if o2 is None:
                return '(. %s)' % c(o1)
            if o2.get('astOperand1') or o2.get('astOperand2'):
                return '(%s %s %s)' % ('->' if arrow else '.', c(o1), c(o2))
            return '(%s %s %s)' % ('->' if arrow else '.', c(o1), self.leaf(o2))
        if s == '?':
            if o2 is not None and o2.str == ':' and o2.get('astOperand1') and o2.get('astOperand2'):
                return '(? %s %s %s)' % (c(o1), c(d.op1(o2)), c(d.op2(o2)))
            return '(?bad %s %s)' % (c(o1), c(o2))
        if s == '::':
            if o2 is None:
                return '(:: %s)' % c(o1)
            return '(:: %s %s)' % (c(o1), c(o2))
        if o2 is None:
            if s in ('++', '--'):
                return '(%s%s %s)' % ('pre' if o1.idx > t.idx else 'post', s, c(o1))
            if s in ('-', '+', '*', '&', '!', '~'):
                return '(pre%s %s)' % (s, c(o1))
            if s == 'new':
                return '(new %s)' % c(o1)
            return '(%s %s)' % (s, c(o1))
        return '(%s %s %s)' % (s, c(o1), c(o2))

    def tree_tokens(self, t, acc=None):
        if acc is None:
            acc = []
        acc.append(t)
        for o in (self.d.op1(t), self.d.op2(t)):
            if o is not None and len(acc) < 5000:
                self.tree_tokens(o, acc)
        return acc

    def link_errors(self, line):
        """parent/child edge consistency of all tokens of a line; -> list of messages"""
        d = self.d
        errs = []
        for t in self.bylines.get(line, []):
            for k in ('astOperand1', 'astOperand2'):
                oid = t.get(k)
                if oid:
                    o = d.tok(oid)
                    if o is None:
                        errs.append('%r %s dangling' % (t, k))
                    elif o.get('astParent') != t.id:
                        errs.append('%r is %s of %r but its astParent is %r' % (o, k, t, d.tok(o.get('astParent'))))
            pid = t.get('astParent')
            if pid:
                p = d.tok(pid)
                if p is None:
                    errs.append('%r astParent dangling' % t)
                elif p.get('astOperand1') != t.id and p.get('astOperand2') != t.id:
                    errs.append('%r has astParent %r which does not list it as operand' % (t, p))
            if t.get('astOperand1') and t.get('astOperand1') == t.get('astOperand2'):
                errs.append('%r has the same token as both operands' % t)
        return errs


# ---------------------------------------------------------------------------------------------
# type reduction (C09)
# ---------------------------------------------------------------------------------------------
_BASE = {
    '_Bool': ('bool', ''), 'bool': ('bool', ''),
    'char': ('char', ''), 'signed char': ('char', 'signed'), 'unsigned char': ('char', 'unsigned'),
    'short': ('short', 'signed'), 'unsigned short': ('short', 'unsigned'),
    'int': ('int', 'signed'), 'unsigned int': ('int', 'unsigned'),
    'long': ('long', 'signed'), 'unsigned long': ('long', 'unsigned'),
    'long long': ('long long', 'signed'), 'unsigned long long': ('long long', 'unsigned'),
    'float': ('float', ''), 'double': ('double', ''), 'long double': ('long double', ''),
    'wchar_t': ('wchar_t', ''), 'char16_t': ('char16_t', ''), 'char32_t': ('char32_t', ''), 'void': ('void', ''),
}


def reduce_clang_type(q, enum_underlying=None):
    """clang qualType string -> (base, sign, pointer) in cppcheck's vocabulary, or None if the type has no
    such reduction (function types, pointers to arrays/functions, member pointers, …).
    Arrays count as one pointer level per dimension (cppcheck's convention for array designators)."""
    if q is None:
        return None
    s = q
    if '(' in s or '<' in s or '::*' in s or '&' in s:
        return None
    ptr = 0
    # array dimensions
    while True:
        m = re.search(r'\[[^\]]*\]\s*$', s)
        if not m:
            break
        ptr += 1
        s = s[:m.start()].rstrip()
    s = re.sub(r'\b(const|volatile|restrict|__restrict)\b', ' ', s)
    ptr += s.count('*')
    s = s.replace('*', ' ')
    s = ' '.join(s.split())
    if s.startswith('struct ') or s.startswith('union ') or s.startswith('class '):
        return ('record', '', ptr)
    if s.startswith('enum '):
        s = s[5:]
    if s in _BASE:
        b = _BASE[s]
        return (b[0], b[1], ptr)
    if enum_underlying and s in enum_underlying:
        b = _BASE.get(enum_underlying[s])
        if b:
            return (b[0], b[1], ptr)
        return None
    if re.match(r'^[A-Za-z_]\w*$', s):
        return ('record', '', ptr)
    return None


def report(ctx, key, what, files=None, cmd=None, cap=60):
    """ctx.violation with a cap on the number of replay directories written by one run (a broken build can
    produce tens of thousands of mismatches); known findings are always passed through"""
    if key in ctx.known or len(ctx.violations) < cap:
        return ctx.violation(key, what, files=files, cmd=cmd)
    ctx.count('violations_beyond_cap', 'detected but not written (cap %d)' % cap)
    return True
