"""Executable reading of the severity / certainty gating rules (man/manual.md "Severities",
`cppcheck --help` for --enable and --inconclusive):

* `error` findings are always reported;
* `warning`, `style`, `performance`, `portability`, `information` findings only when that
  severity is enabled (`--enable=style` also enables warning, performance and portability;
  `--enable=all` everything);
* findings of an explicitly enabled check group (`--enable=unusedFunction`,
  `--enable=missingInclude`) belong to that group;
* an inconclusive finding only with `--inconclusive`.
"""
SEVERITIES = ['warning', 'style', 'performance', 'portability', 'information']
GROUP_IDS = {
    'unusedFunction': {'unusedFunction'},
    'missingInclude': {'missingInclude', 'missingIncludeSystem'},
}


def effective(enabled):
    """set of severities switched on by a list of --enable values"""
    s = set()
    for e in enabled:
        if e == 'all':
            s.update(SEVERITIES)
        elif e == 'style':
            s.update(['style', 'warning', 'performance', 'portability'])
        elif e in SEVERITIES:
            s.add(e)
    return s


def allowed(finding, enabled, inconclusive):
    """-> None if the finding may be reported under the setting, else the name of the broken rule"""
    sev = finding.severity
    groups = [g for g in enabled if g in GROUP_IDS] + (list(GROUP_IDS) if 'all' in enabled else [])
    if finding.inconclusive and not inconclusive:
        return 'inconclusive-without---inconclusive'
    if sev == 'error':
        return None
    if sev in effective(enabled):
        return None
    if any(finding.id in GROUP_IDS[g] for g in groups):
        return None
    if sev in SEVERITIES:
        return 'severity-not-enabled'
    return 'unknown-severity'
