"""A small lexer of C/C++ *preprocessing tokens* (C11 6.4 / C++ [lex.pptoken]).

Used to compare the output of different preprocessors token by token: white space, new-lines and
line markers (`# 12 "f.c"`, `#line 12 "f.c"`) are dropped, adjacent string literals are NOT merged,
every other character sequence is cut with the longest-match rule.
"""
import re

_PUNCT_C = ['%:%:', '...', '<<=', '>>=',
            '->', '++', '--', '<<', '>>', '<=', '>=', '==', '!=', '&&', '||', '*=', '/=', '%=', '+=',
            '-=', '&=', '^=', '|=', '##', '<:', ':>', '<%', '%>', '%:',
            '[', ']', '(', ')', '{', '}', '.', '&', '*', '+', '-', '~', '!', '/', '%', '<', '>', '^',
            '|', '?', ':', ';', '=', ',', '#']
_PUNCT_CPP = ['->*', '<=>', '::', '.*'] + _PUNCT_C


def _alt(ps):
    return '|'.join(re.escape(p) for p in sorted(ps, key=len, reverse=True))


_STR = r'(?:u8|u|U|L)?"(?:[^"\\\n]|\\.)*"'
_CHR = r"(?:u8|u|U|L)?'(?:[^'\\\n]|\\.)+'"
_NUM = r"\.?[0-9](?:[eEpP][+-]|[0-9A-Za-z_.])*"
_ID = r'[A-Za-z_$][A-Za-z0-9_$]*'


def _mk(punct):
    return re.compile(r'(?P<ws>[ \t\r\f\v\n]+)|(?P<str>%s)|(?P<chr>%s)|(?P<num>%s)|(?P<id>%s)|(?P<op>%s)|(?P<other>.)'
                      % (_STR, _CHR, _NUM, _ID, _alt(punct)), re.S)


_RE_C = _mk(_PUNCT_C)
_RE_CPP = _mk(_PUNCT_CPP)
_LINEMARK = re.compile(r'^[ \t]*#[ \t]*(?:line[ \t]+)?[0-9]+(?:[ \t]+"(?:[^"\\\n]|\\.)*")?[ \t0-9]*$')


def strip_linemarkers(text):
    return '\n'.join(l for l in text.split('\n') if not _LINEMARK.match(l))


def lex(text, cpp=False):
    """-> list of pp-token spellings"""
    if isinstance(text, bytes):
        text = text.decode('utf-8', 'replace')
    text = strip_linemarkers(text)
    rx = _RE_CPP if cpp else _RE_C
    out = []
    for m in rx.finditer(text):
        if m.lastgroup != 'ws':
            out.append(m.group())
    return out


def first_diff(a, b):
    """index of the first differing token, or -1"""
    n = min(len(a), len(b))
    for i in range(n):
        if a[i] != b[i]:
            return i
    return -1 if len(a) == len(b) else n


def show_diff(a, b, la='A', lb='B', ctx=8):
    i = first_diff(a, b)
    if i < 0:
        return 'equal'
    lo = max(0, i - ctx)
    return ('first difference at token %d (lengths %d / %d)\n%s: ... %s\n%s: ... %s'
            % (i, len(a), len(b), la, ' '.join(a[lo:i + ctx]), lb, ' '.join(b[lo:i + ctx])))
