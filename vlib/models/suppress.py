"""Executable reading of man/manual.md chapter "Suppressions" (plain text, XML and inline forms)
plus the path-pattern rules (models/pathmatch.py).

A suppression is a `Suppr`; `matches(s, finding)` answers True / False / None, None meaning that
the manual does not decide the case (callers count such cases and do not judge them).

Written from the manual:
* format `[error id]:[filename]:[line]`, `[error id]:[filename]`, `[error id]`; id and filename
  may contain `**`, `*`, `?`; comments (`#`, `//`) and blank lines in suppression files;
* XML: <id>, <fileName>, <lineNumber>, <symbolName>;
* inline (`--inline-suppr`): `cppcheck-suppress id`, `[a, b]` lists, `symbolName=`, trailing
  comment after `;` or `//`; comment before the code (possibly separated by comments or empty
  lines) or on the same line; `{` on its own line + comment covers this and the next line;
  `-begin`/`-end` blocks, `-file` (whole file), `-macro` (where the macro is used).
A finding's location is its primary location (the first <location> of the XML report).
"""
import re

from . import pathmatch as pm


class Suppr:
    __slots__ = ('origin', 'kind', 'id', 'file', 'line', 'block', 'symbol', 'macro', 'exitcode_only',
                 'undecided', 'where', 'col', 'samefile', 'also_next')

    def __init__(self, origin, kind, id, file='', line=None, symbol='', block=None, macro=None,
                 exitcode_only=False, undecided=None, where=None, col=None, also_next=False):
        self.origin = origin          # 'cmd' | 'list' | 'xml' | 'inline'
        self.kind = kind              # 'plain' | 'unique' | 'block' | 'file' | 'macro'
        self.id = id
        self.file = file              # pattern (plain) or the file holding the comment (inline)
        self.line = line              # plain: line number or None; inline unique: target line
        self.block = block            # (first, last) line of a begin/end block
        self.symbol = symbol
        self.macro = macro            # (name, set of lines where the macro is used)
        self.exitcode_only = exitcode_only
        self.undecided = undecided    # reason the manual does not fix this suppression's meaning
        self.where = where            # inline: (line, col) of the comment
        self.col = col                # inline unique before code: column of the first code token
        self.also_next = also_next    # '{' special case

    def __repr__(self):
        return 'Suppr(%s %s id=%r file=%r line=%r sym=%r block=%r%s)' % (
            self.origin, self.kind, self.id, self.file, self.line, self.symbol, self.block,
            ' exitcode-only' if self.exitcode_only else '')


# ---------------------------------------------------------------- globs on ids / symbols
def glob_match(pat, s):
    rx = ''.join('.*' if c == '*' else '.' if c == '?' else re.escape(c) for c in pat)
    return re.fullmatch(rx, s, re.S) is not None


def has_glob(s):
    return '*' in s or '?' in s


# ---------------------------------------------------------------- parsing of the plain text format
def parse_spec(spec, origin='cmd', exitcode_only=False):
    """`id`, `id:file`, `id:file:line` (manual "Plain text suppressions") -> Suppr or None"""
    spec = spec.strip()
    parts = spec.split(':')
    sid = parts[0]
    if len(parts) == 1:
        return Suppr(origin, 'plain', sid, exitcode_only=exitcode_only)
    line = None
    rest = parts[1:]
    if len(rest) >= 2 and rest[-1].isdigit():
        line = int(rest[-1])
        rest = rest[:-1]
    file = ':'.join(rest)
    und = None
    if ':' in file:
        und = 'colon-in-filename'
    return Suppr(origin, 'plain', sid, file=file, line=line, exitcode_only=exitcode_only, undecided=und)


def parse_list_text(text, origin='list', exitcode_only=False):
    """suppressions file: blank lines and comments (`#`, `//` at line start or after the
    suppression) are allowed"""
    out = []
    for raw in text.replace('\r\n', '\n').replace('\r', '\n').split('\n'):
        line = raw.strip()
        if not line or line.startswith('#') or line.startswith('//'):
            continue
        cut = len(line)
        for mark in ('#', '//'):
            i = line.find(mark)
            if i >= 0:
                cut = min(cut, i)
        line = line[:cut].strip()
        if line:
            out.append(parse_spec(line, origin, exitcode_only))
    return out


# ---------------------------------------------------------------- a small C lexer (comments/code)
class Tok:
    __slots__ = ('kind', 'text', 'line', 'col')

    def __init__(self, kind, text, line, col):
        self.kind = kind      # 'comment' | 'code'
        self.text = text
        self.line = line
        self.col = col


_ID = re.compile(r'[A-Za-z_]\w*')


def lex(text):
    """-> list of Tok (comments and code tokens: identifiers, numbers/others as single chars,
    string/char literals as one token). Line continuation is not handled (generators do not use it)."""
    toks = []
    i, line, col = 0, 1, 1
    n = len(text)
    while i < n:
        c = text[i]
        if c == '\n':
            i += 1
            line += 1
            col = 1
            continue
        if c in ' \t\r\f\v':
            i += 1
            col += 1
            continue
        if text.startswith('//', i):
            j = text.find('\n', i)
            j = n if j < 0 else j
            toks.append(Tok('comment', text[i:j].rstrip('\r'), line, col))
            col += j - i
            i = j
            continue
        if text.startswith('/*', i):
            j = text.find('*/', i + 2)
            j = n if j < 0 else j + 2
            toks.append(Tok('comment', text[i:j], line, col))
            seg = text[i:j]
            nl = seg.count('\n')
            if nl:
                line += nl
                col = len(seg) - seg.rfind('\n')
            else:
                col += len(seg)
            i = j
            continue
        if c in '"\'':
            j = i + 1
            while j < n and text[j] != c and text[j] != '\n':
                j += 2 if text[j] == '\\' else 1
            j = min(j + 1, n)
            toks.append(Tok('code', text[i:j], line, col))
            col += j - i
            i = j
            continue
        m = _ID.match(text, i)
        if m:
            toks.append(Tok('code', m.group(0), line, col))
            col += m.end() - i
            i = m.end()
            continue
        toks.append(Tok('code', c, line, col))
        i += 1
        col += 1
    return toks


_CMD = re.compile(r'^\s*cppcheck-suppress(-begin|-end|-file|-macro)?(?=[\s\[]|$)')


def parse_comment(text):
    """-> (command suffix or '', [(id, symbol)], undecided reason or None) or None if the comment
    is not a suppression comment"""
    if text.startswith('//'):
        body = text[2:]
    else:
        body = text[2:-2] if text.endswith('*/') else text[2:]
    m = _CMD.match(body)
    if not m:
        return None
    cmd = m.group(1) or ''
    rest = body[m.end():].strip()
    und = None
    items = []
    if rest.startswith('['):
        j = rest.find(']')
        if j < 0:
            return (cmd, [], 'malformed-list')
        for part in rest[1:j].split(','):
            words = part.split()
            if not words:
                continue
            sym = ''
            for w in words[1:]:
                if w.startswith('symbolName='):
                    sym = w[len('symbolName='):]
                else:
                    und = 'extra-word-in-list'
            items.append((words[0], sym))
    else:
        # trailing comment after ';' or '//'
        for mark in (';', '//'):
            k = rest.find(mark)
            if k >= 0:
                rest = rest[:k]
        words = rest.split()
        if not words:
            return (cmd, [], 'no-id')
        sym = ''
        for w in words[1:]:
            if w.startswith('symbolName='):
                sym = w[len('symbolName='):]
            else:
                und = 'extra-word'
        items.append((words[0], sym))
    return (cmd, items, und)


def inline_suppressions(text, filename):
    """Suppr list for the suppression comments of one file's text (manual "Inline suppressions")"""
    toks = lex(text)
    out = []
    open_blocks = []          # (ids-with-symbols, begin comment Tok)
    seen_code = False
    lines_with_code = {}
    for t in toks:
        if t.kind == 'code':
            lines_with_code.setdefault(t.line, []).append(t)
    i = 0
    while i < len(toks):
        t = toks[i]
        if t.kind != 'comment':
            seen_code = True
            i += 1
            continue
        pc = parse_comment(t.text)
        if pc is None:
            i += 1
            continue
        cmd, items, und = pc
        end_line = t.line + t.text.count('\n')
        code_before = any(c.col < t.col for c in lines_with_code.get(t.line, []))
        # the code the comment applies to
        nxt = None
        for u in toks[i + 1:]:
            if u.kind == 'code':
                nxt = u
                break
        for sid, sym in items:
            if cmd == '':
                if code_before:
                    target, col = t.line, None
                    line_toks = [c.text for c in lines_with_code.get(t.line, []) if c.col < t.col]
                    also = (line_toks == ['{'])
                    nxt_line_has_code = (end_line + 1) in lines_with_code
                    s = Suppr('inline', 'unique', sid, file=filename, line=target, symbol=sym, where=(t.line, t.col),
                              col=None, also_next=also and nxt_line_has_code, undecided=und)
                elif nxt is not None:
                    s = Suppr('inline', 'unique', sid, file=filename, line=nxt.line, symbol=sym,
                              where=(t.line, t.col), col=nxt.col, undecided=und)
                else:
                    s = Suppr('inline', 'unique', sid, file=filename, line=None, symbol=sym, where=(t.line, t.col),
                              undecided='no-code-after-comment')
                out.append(s)
            elif cmd == '-file':
                s = Suppr('inline', 'file', sid, file=filename, symbol=sym, where=(t.line, t.col),
                          undecided=und or ('file-suppression-not-at-top' if seen_code else None))
                out.append(s)
            elif cmd == '-macro':
                name = None
                if nxt is not None and nxt.text == '#':
                    k = toks.index(nxt)
                    if k + 2 < len(toks) and toks[k + 1].text == 'define' and toks[k + 2].line == nxt.line:
                        name = toks[k + 2].text
                uses = set()
                if name:
                    for c in toks:
                        if c.kind == 'code' and c.text == name and c.line != nxt.line:
                            uses.add(c.line)
                s = Suppr('inline', 'macro', sid, file=filename, symbol=sym, macro=(name, uses),
                          line=nxt.line if nxt else None, col=nxt.col if nxt else None, where=(t.line, t.col),
                          undecided=und or (None if name else 'macro-comment-not-before-define'))
                out.append(s)
            elif cmd == '-begin':
                open_blocks.append((sid, sym, t))
            elif cmd == '-end':
                # the block of this id: the innermost open begin with the same id
                k = None
                for j in range(len(open_blocks) - 1, -1, -1):
                    if open_blocks[j][0] == sid and open_blocks[j][1] == sym:
                        k = j
                        break
                if k is None:
                    out.append(Suppr('inline', 'block', sid, file=filename, symbol=sym, where=(t.line, t.col),
                                     undecided='end-without-begin'))
                    continue
                # properly nested iff no block opened later (by another comment) is still open
                inner_open = [b for b in open_blocks[k + 1:] if b[2] is not open_blocks[k][2]]
                b = open_blocks.pop(k)
                out.append(Suppr('inline', 'block', sid, file=filename, symbol=sym, block=(b[2].line, end_line),
                                 where=(b[2].line, b[2].col),
                                 undecided=und or ('interleaved-blocks' if inner_open else None)))
        i += 1
    for sid, sym, t in open_blocks:
        out.append(Suppr('inline', 'block', sid, file=filename, symbol=sym, where=(t.line, t.col),
                         undecided='begin-without-end'))
    return out


# ---------------------------------------------------------------- matching
def _file_of(f):
    return f.locs[0][0] if f.locs else f.file0


def _line_of(f):
    return f.locs[0][1] if f.locs else None


def matches(s, f):
    """does suppression `s` match finding `f` (findings.Finding)?  True / False / None"""
    if s.undecided:
        # a suppression the manual does not describe can still be ruled out by its id
        if not has_glob(s.id) and s.id != f.id:
            return False
        return None
    if not glob_match(s.id, f.id):
        return False
    ffile = _file_of(f)
    fline = _line_of(f)
    und = False
    if s.origin == 'inline':
        if pm.display(ffile) != pm.display(s.file):
            return False
        if s.kind == 'unique':
            if s.line is None:
                return None
            if not (fline == s.line or (s.also_next and fline == s.line + 1)):
                return False
        elif s.kind == 'block':
            if not (s.block[0] <= (fline or 0) <= s.block[1]):
                return False
        elif s.kind == 'macro':
            if fline not in s.macro[1]:
                return False
        # kind 'file': every line
    else:
        if s.file:
            if not ffile:
                return None
            r = pm.match(s.file, ffile, base='', is_dir=False)
            if r is False:
                return False
            if r is None:
                und = True
            elif pm.is_relative_pattern(s.file):
                und = True        # manual does not say what './x' is relative to
            elif s.file.endswith('/'):
                und = True        # directory-only form is not described for suppressions
        if s.line is not None and fline != s.line:
            return False
    if s.symbol:
        if has_glob(s.symbol):
            if not any(glob_match(s.symbol, x) for x in f.symbols):
                return False
            und = True            # manual does not say whether symbol names are patterns
        elif s.symbol not in f.symbols:
            return False
    return None if und else True


def verdict(supprs, f):
    """Is finding f hidden by the message suppressions?  True / False / None.
    exitcode-only suppressions never hide a finding."""
    und = False
    for s in supprs:
        if s.exitcode_only:
            continue
        r = matches(s, f)
        if r:
            return True
        if r is None:
            und = True
    return None if und else False


def exitcode_neutral(supprs, f):
    """Is finding f matched by an exit-code suppression?  True / False / None"""
    und = False
    for s in supprs:
        if not s.exitcode_only:
            continue
        r = matches(s, f)
        if r:
            return True
        if r is None:
            und = True
    return None if und else False


def is_matched(s, fs):
    """Did suppression s match some finding of fs?  True / False / None"""
    und = False
    for f in fs:
        r = matches(s, f)
        if r:
            return True
        if r is None:
            und = True
    return None if und else False
