"""Shared helpers for run-to-run relation oracles."""
import os
import shutil

from . import findings, run

WHOLE_PROGRAM_IDS_PREFIX = ('ctu',)
WHOLE_PROGRAM_IDS = {'unusedFunction', 'staticFunction'}


def is_whole_program(fid):
    return fid.startswith(WHOLE_PROGRAM_IDS_PREFIX) or fid in WHOLE_PROGRAM_IDS


KNOWN_WP_IDS = ['ctunullpointer', 'ctuuninitvar', 'ctuArrayIndex', 'ctuPointerArith',
                'ctuOneDefinitionRuleViolation', 'ctunullpointerOutOfMemory',
                'ctunullpointerOutOfResources', 'unusedFunction', 'staticFunction']


def glob_hits_whole_program(pattern):
    """True if the error-id glob `pattern` can match a whole-program id"""
    import fnmatch
    return is_whole_program(pattern) or any(fnmatch.fnmatchcase(i, pattern) for i in KNOWN_WP_IDS)


class Analysis:
    def __init__(self, res, fs, xml_ok=True):
        self.res = res
        self.findings = fs
        self.rc = res.rc
        self.xml_ok = xml_ok


def analyse(cwd, args, flavour='mon', env=None, timeout=run.WATCHDOG):
    """cppcheck --xml <args> in cwd -> Analysis (findings parsed from stderr)."""
    res = run.cppcheck(['--xml'] + list(args), flavour=flavour, cwd=cwd, env=env, timeout=timeout)
    try:
        fs = findings.parse_xml(res.err)
        ok = True
    except findings.XmlError:
        fs = []
        ok = False
    return Analysis(res, fs, ok)


def crashed(res):
    """True if the process died from a signal, a sanitizer abort or an uncaught exception."""
    if res.timed_out:
        return False
    if res.rc is not None and res.rc < 0:
        return True
    e = res.err
    return (b'ERROR: AddressSanitizer' in e or b'runtime error:' in e or b'ThreadSanitizer' in e
            or b'terminate called' in e or b'Assertion' in e and b'failed' in e
            or res.rc in (134, 139))


def copy_tree(src, dst):
    shutil.copytree(src, dst, dirs_exist_ok=True)


def fmt_diff(only_a, only_b, la='A', lb='B', limit=6):
    out = []
    for x in only_a[:limit]:
        out.append('only in %s: %r' % (la, x[:4] + (x[5],)))
    for x in only_b[:limit]:
        out.append('only in %s: %r' % (lb, x[:4] + (x[5],)))
    return '\n'.join(out)


def read(path):
    with open(path, 'rb') as f:
        return f.read()


def write(path, text):
    os.makedirs(os.path.dirname(path), exist_ok=True)
    with open(path, 'w' if isinstance(text, str) else 'wb') as f:
        f.write(text)
