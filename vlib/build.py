"""Flavour builds of /repo's *current working tree* (cmake + ninja), serialised with flock.

Every check calls ensure(flavours) first; ninja rebuilds exactly what changed in /repo.
Build failure => HarnessError (exit 2), never a verdict.
"""
import fcntl
import os
import subprocess
import sys
import time

VERIF = os.path.dirname(os.path.dirname(os.path.abspath(__file__)))
REPO = os.environ.get('VERIF_REPO', '/repo')
BUILD_ROOT = os.environ.get('VERIF_BUILD_ROOT') or os.path.join(VERIF, '.build')
GUARD = 'DANMAR_CPPCHECK_VERIF'


class HarnessError(Exception):
    pass


COMMON = ['-DDISABLE_DMAKE=ON', '-DBUILD_TESTS=OFF', '-DBUILD_TESTING=OFF', '-DBUILD_GUI=OFF',
          '-DCMAKE_BUILD_TYPE=Release', '-DUSE_BOOST=Off']

FLAVOURS = {
    # name: (c++ compiler, cxxflags, linker flags, extra cmake args)
    'mon': ('g++', '-O2 -D%s' % GUARD, '', ['-DUSE_MATCHCOMPILER=On']),
    'asan': ('g++', '-O1 -g1 -fno-omit-frame-pointer -fsanitize=address,undefined '
                    '-fno-sanitize-recover=all -D%s' % GUARD,
             '-fsanitize=address,undefined', ['-DUSE_MATCHCOMPILER=On']),
    'tsan': ('g++', '-O1 -g1 -fno-omit-frame-pointer -fsanitize=thread -D%s' % GUARD,
             '-fsanitize=thread', ['-DUSE_MATCHCOMPILER=On']),
    'mcv': ('g++', '-O1 -D%s' % GUARD, '', ['-DUSE_MATCHCOMPILER=Verify']),
    'nomc': ('g++', '-O1 -D%s' % GUARD, '', ['-DUSE_MATCHCOMPILER=Off']),
}

_ensured = set()


def builddir(flavour):
    return os.path.join(BUILD_ROOT, flavour)


def binary(flavour):
    return os.path.join(builddir(flavour), 'bin', 'cppcheck')


def _run(cmd, log, **kw):
    with open(log, 'ab') as f:
        f.write(('\n$ %s\n' % ' '.join(cmd)).encode())
        f.flush()
        return subprocess.call(cmd, stdout=f, stderr=subprocess.STDOUT, **kw)


def ensure(flavours, jobs=None, quiet=False):
    """(Re)build the given flavours from /repo's working tree. Idempotent within a process."""
    if isinstance(flavours, str):
        flavours = [flavours]
    os.makedirs(BUILD_ROOT, exist_ok=True)
    for fl in flavours:
        if fl in _ensured:
            continue
        if os.environ.get('VERIF_NO_BUILD') == '1' and os.path.exists(binary(fl)):
            _ensured.add(fl)
            continue
        cxx, cxxflags, ldflags, extra = FLAVOURS[fl]
        bdir = builddir(fl)
        os.makedirs(bdir, exist_ok=True)
        log = os.path.join(BUILD_ROOT, fl + '.log')
        lock = open(os.path.join(BUILD_ROOT, fl + '.lock'), 'w')
        t0 = time.time()
        fcntl.flock(lock, fcntl.LOCK_EX)
        try:
            if os.path.exists(log) and os.path.getsize(log) > 4_000_000:
                os.remove(log)
            cfg = ['cmake', '-G', 'Ninja', '-S', REPO, '-B', bdir,
                   '-DCMAKE_CXX_COMPILER=' + cxx,
                   '-DCMAKE_C_COMPILER=' + ('clang-14' if cxx.startswith('clang') else 'gcc'),
                   '-DCMAKE_CXX_FLAGS=' + cxxflags,
                   '-DCMAKE_C_FLAGS=' + ' '.join(x for x in cxxflags.split() if not x.startswith('-D')),
                   '-DCMAKE_EXE_LINKER_FLAGS=' + ldflags] + COMMON + extra
            # always re-configure: sources are globbed, so added/removed files need it (2 s)
            if _run(cfg, log) != 0:
                raise HarnessError('cmake configure failed for flavour %s (see %s)' % (fl, log))
            j = str(jobs or os.cpu_count() or 8)
            if _run(['cmake', '--build', bdir, '--target', 'cppcheck', '-j', j], log) != 0:
                raise HarnessError('build failed for flavour %s (see %s)' % (fl, log))
            if not os.path.exists(binary(fl)):
                raise HarnessError('no binary for flavour %s' % fl)
        finally:
            fcntl.flock(lock, fcntl.LOCK_UN)
            lock.close()
        if not quiet:
            sys.stderr.write('[build] %s up to date (%.1fs)\n' % (fl, time.time() - t0))
        _ensured.add(fl)


if __name__ == '__main__':
    try:
        ensure(sys.argv[1:] or ['mon', 'asan', 'tsan', 'mcv'])
    except HarnessError as e:
        sys.stderr.write('HARNESS-ERROR: %s\n' % e)
        sys.exit(2)
