"""Shared pipeline for the soundness monitors (C01-C04, C06): compile the instrumented rendering of
a progen program with ASan+UBSan, run it over input vectors with a facts file, aggregate the
observations of the executions that ended normally (sanitizer-clean)."""
import os

from . import run
from .build import VERIF

HARNESS = os.path.join(VERIF, 'harness')
KINDS = ['EQ', 'NE', 'GT', 'LT', 'SEQ', 'SNE', 'SGT', 'SLT']

EXEC_ENV = {
    'ASAN_OPTIONS': 'abort_on_error=0:detect_leaks=0:halt_on_error=1:exitcode=77:detect_stack_use_after_return=1',
    'UBSAN_OPTIONS': 'halt_on_error=1:print_stacktrace=0:exitcode=78',
}


def compile_inst(d, src, lang='c', leak=False, timeout=120):
    exe = os.path.join(d, 'prog')
    if lang == 'c':
        cmd = ['gcc', '-std=gnu11']
    else:
        cmd = ['g++', '-std=gnu++17']
    cmd += ['-w', '-O0', '-g0', '-fsigned-char', '-fsanitize=address,undefined', '-fno-sanitize-recover=all',
            '-fno-omit-frame-pointer', '-I', HARNESS, src, '-o', exe]
    r = run.run(cmd, cwd=d, timeout=timeout)
    if r.rc != 0 or not os.path.exists(exe):
        return None, r
    return exe, r


class Obs:
    def __init__(self):
        self.probes = {}     # pid -> [hits, zero, nonzero, min, max, set(distinct)]
        self.facts = {}      # (pid, kind, K) -> [hits, viol, firstbad, first_input]
        self.ok_runs = 0
        self.discarded = 0
        self.discard_reasons = {}


def run_inputs(exe, d, facts, vecs, timeout=20, leak=False):
    """facts: list of (pid, kind_index, K). Runs one process per input vector."""
    obs = Obs()
    ff = os.path.join(d, 'facts.txt')
    with open(ff, 'w') as f:
        for fact in facts:
            pid, kind, k = fact[0], fact[1], fact[2]
            if kind >= 4:
                f.write('%d %s %d:%d\n' % (pid, KINDS[kind], fact[3], k))      # symbolic: ref probe : delta
            else:
                f.write('%d %s %d\n' % (pid, KINDS[kind], k))
    for i, vec in enumerate(vecs):
        out = os.path.join(d, 'out%d.txt' % i)
        if os.path.exists(out):
            os.remove(out)
        env = dict(EXEC_ENV)
        if leak:
            env['ASAN_OPTIONS'] = env['ASAN_OPTIONS'].replace('detect_leaks=0', 'detect_leaks=1')
        env.update({'VP_FACTS': ff, 'VP_OUT': out})
        r = run.run([exe] + [str(v) for v in vec], cwd=d, env=run.base_env(env), timeout=timeout)
        ok = False
        if not r.timed_out and r.rc == 0 and os.path.exists(out):
            txt = open(out).read()
            if txt.endswith('END\n'):
                ok = True
        if not ok:
            obs.discarded += 1
            reason = 'timeout' if r.timed_out else 'rc=%s' % r.rc
            obs.discard_reasons[reason] = obs.discard_reasons.get(reason, 0) + 1
            continue
        obs.ok_runs += 1
        for line in txt.splitlines():
            p = line.split(' ')
            if p[0] == 'P':
                pid = int(p[1])
                hits, zero, nonzero = int(p[2]), int(p[3]), int(p[4])
                mn, mx = int(p[5]), int(p[6])
                dist = set(int(x) for x in p[7].split(',')) if len(p) > 7 and p[7] else set()
                o = obs.probes.get(pid)
                if o is None:
                    obs.probes[pid] = [hits, zero, nonzero, mn, mx, dist]
                else:
                    o[0] += hits
                    o[1] += zero
                    o[2] += nonzero
                    o[3] = min(o[3], mn)
                    o[4] = max(o[4], mx)
                    o[5] |= dist
            elif p[0] == 'F':
                key = (int(p[1]), int(p[2]), int(p[5])) if int(p[2]) < 4 else (int(p[1]), int(p[2]), int(p[5]), int(p[7]))
                hits, viol, bad = int(p[3]), int(p[4]), int(p[6])
                o = obs.facts.get(key)
                if o is None:
                    obs.facts[key] = [hits, viol, bad if viol else None, vec if viol else None]
                else:
                    o[0] += hits
                    if viol and not o[1]:
                        o[2], o[3] = bad, vec
                    o[1] += viol
    return obs


def symbolic_facts_for_token(tok, values, tok_by_id, probe_at):
    """known/impossible symbolic relations of a dump token to another *probed* token:
    list of (kind_index 4..7, delta, ref probe id, description)"""
    out = []
    if not tok.values:
        return out
    for v in values.get(tok.values, []):
        if 'symbolic' not in v or v.get('path', '0') != '0' or int(v.get('indirect', '0')) != 0:
            continue
        ref = tok_by_id.get(v['symbolic'])
        if ref is None:
            continue
        rp = probe_at.get((ref.line, ref.col))
        if rp is None or (ref.line, ref.col) >= (tok.line, tok.col):
            continue    # only relations to an expression that is evaluated earlier in the text
        try:
            d = int(v.get('symbolic-delta', '0'))
        except ValueError:
            continue
        where = '%s@%d:%d' % (ref.str, ref.line, ref.col)
        if v.get('known') == 'true':
            out.append((4, d, rp, 'known == %s%+d' % (where, d)))
        elif v.get('impossible') == 'true':
            b = v.get('bound', 'Point')
            if b == 'Point':
                out.append((5, d, rp, 'impossible == %s%+d' % (where, d)))
            elif b == 'Upper':
                out.append((6, d, rp, 'impossible <= %s%+d' % (where, d)))
            elif b == 'Lower':
                out.append((7, d, rp, 'impossible >= %s%+d' % (where, d)))
    return out


def int_facts_for_token(tok, values, want_indirect=0, attr='intvalue'):
    """Checkable integer facts of a dump token: list of (kind_index, K, description)."""
    out = []
    if not tok.values:
        return out
    for v in values.get(tok.values, []):
        if attr not in v:
            continue
        if v.get('path', '0') != '0':
            continue
        if int(v.get('indirect', '0')) != want_indirect:
            continue
        try:
            k = int(v[attr])
        except ValueError:
            continue
        if v.get('known') == 'true':
            out.append((0, k, 'known %d' % k))
        elif v.get('impossible') == 'true':
            b = v.get('bound', 'Point')
            if b == 'Point':
                out.append((1, k, 'impossible ==%d' % k))
            elif b == 'Upper':
                out.append((2, k, 'impossible <=%d' % k))
            elif b == 'Lower':
                out.append((3, k, 'impossible >=%d' % k))
    return out
