"""Hand-written witnesses for the probe pipeline.

An annotated source uses  VPT(id, "tok", expr)  around probed expressions, where "tok" is the string
of the token cppcheck uses as AST root of expr (first occurrence at bracket depth 0 inside expr).
from_annotated() derives the plain text (wrappers stripped), the instrumented text (VPT -> VP) and
the probe table. Line structure is preserved. The first line of the annotated text must be the
comment line that stands in for '#include "trace.h"'.
"""
import re

from .gen.progen import Program

_VPT = re.compile(r'VPT\((\d+), "([^"]+)", ')


def _strip_line(line, lineno, probes):
    """strip VPT wrappers from one line; returns plain line"""
    while True:
        m = None
        # innermost-last: take the last VPT occurrence so that nested wrappers are handled inside-out
        for mm in _VPT.finditer(line):
            m = mm
        if m is None:
            return line
        start = m.start()
        i = m.end()
        depth = 1
        j = i
        while j < len(line) and depth:
            if line[j] in '([':
                depth += 1
            elif line[j] in ')]':
                depth -= 1
            j += 1
        expr = line[i:j - 1]
        tok = m.group(2)
        # position of tok at depth 0 in expr
        d = 0
        pos = None
        k = 0
        while k < len(expr):
            c = expr[k]
            if expr.startswith(tok, k) and d == 0 and pos is None:
                if not (tok[0].isalnum() or tok[0] == '_') or not (k > 0 and (expr[k - 1].isalnum() or expr[k - 1] == '_')):
                    pos = k
                    break
            if c in '([':
                # allow the root token to be the bracket itself at depth 0
                d += 1
            elif c in ')]':
                d -= 1
            k += 1
        if pos is None:
            # root inside one level of parentheses, e.g. "(a + b)"
            d = 0
            for k, c in enumerate(expr):
                if c in '([':
                    d += 1
                elif c in ')]':
                    d -= 1
                elif expr.startswith(tok, k) and d == 1:
                    pos = k
                    break
        assert pos is not None, (line, tok)
        # probes recorded so far on this line to the right of `start` shift left by len(prefix)
        prefix = len(m.group(0))
        for pid, (ln, col, t, kd) in list(probes.items()):
            if ln == lineno and col - 1 >= start:
                shift = prefix if col - 1 < j - 1 else prefix + 1
                probes[pid] = (ln, col - shift, t, kd)
        probes[int(m.group(1))] = (lineno, start + pos + 1, tok, 'hand')
        line = line[:start] + expr + line[j:]


_VST = re.compile(r'VST\((\d+), (\w+)\)')


def _strip_vst(line, lineno, probes):
    """VST(id, name) -> name (container-size probe on a container token)"""
    while True:
        m = _VST.search(line)
        if not m:
            return line
        probes[int(m.group(1))] = (lineno, m.start() + 1, m.group(2), 'container')
        line = line[:m.start()] + m.group(2) + line[m.end():]


def from_annotated(text, lang='c'):
    lines = text.split('\n')
    probes = {}
    plain = []
    inst = []
    for n, line in enumerate(lines, 1):
        il = _VPT.sub(lambda m: 'VP(%s, ' % m.group(1), line)
        inst.append(_VST.sub(lambda m: 'VSZ(%s, %s)' % (m.group(1), m.group(2)), il))
        plain.append(_strip_vst(_strip_line(line, n, probes), n, probes))
    inst[0] = '#include "trace.h"'
    itext = '\n'.join(inst).replace('/*FINISH*/', 'vp_finish();')
    prog = Program('\n'.join(plain), itext, probes, [], [], {}, lang)
    prog.parents = _parents(lines)
    return prog


def _parents(lines):
    """pid -> pid of the smallest enclosing VPT wrapper on the same line"""
    parents = {}
    for line in lines:
        spans = []
        for m in _VPT.finditer(line):
            depth = 1
            j = m.end()
            while j < len(line) and depth:
                if line[j] in '([':
                    depth += 1
                elif line[j] in ')]':
                    depth -= 1
                j += 1
            spans.append((m.start(), j, int(m.group(1))))
        for a, b, pid in spans:
            enc = [(b2 - a2, p2) for a2, b2, p2 in spans if a2 < a and b2 >= b]
            if enc:
                parents[pid] = min(enc)[1]
    return parents
