"""Edit histories over a project on disk (C18).

A `Tree` mirrors a projgen Project (relpath -> text, list of sources) in a directory.  `random_edit`
applies one edit and returns its description `(kind, size, target)`; kind/size give the violation
key `edit:<kind>[:<size>]` (DESIGN.md appendix A).  Line and column shifts use the sizes
{1, 2, 255, 256, 257, 512, 65536}.
"""
import os
import re
import time

from . import projgen

SIZES = [1, 2, 255, 256, 257, 512, 65536]
_NUM = re.compile(r'(?<![\w.])(\d+)(?![\w.])')


class Tree:
    def __init__(self, root, proj):
        self.root = root
        self.files = dict(proj.files)
        self.sources = list(proj.sources)
        self.lang = proj.lang
        self.nadded = 0
        for rel in self.files:
            self._write(rel)

    def _write(self, rel):
        p = os.path.join(self.root, rel)
        os.makedirs(os.path.dirname(p), exist_ok=True)
        with open(p, 'w') as f:
            f.write(self.files[rel])

    def set(self, rel, text):
        self.files[rel] = text
        self._write(rel)

    def remove(self, rel):
        del self.files[rel]
        os.unlink(os.path.join(self.root, rel))
        if rel in self.sources:
            self.sources.remove(rel)

    def headers(self):
        return sorted(f for f in self.files if f not in self.sources)

    def digest(self):
        from ..core import sha1
        return sha1(*[k + '\0' + v for k, v in sorted(self.files.items())])


def key_of(edit):
    kind, size, _target = edit
    return 'edit:%s%s' % (kind, ':%d' % size if size else '')


def _code_lines(lines):
    """indices of lines that hold plain code (no directive, not blank, no comment-only line)"""
    return [i for i, l in enumerate(lines)
            if l.strip() and not l.lstrip().startswith(('#', '//', '/*'))]


def _pick_file(rng, tree, header):
    if header and tree.headers():
        return rng.choice(tree.headers())
    return rng.choice(tree.sources)


def _prefix(rel, tree):
    return 'header-' if rel not in tree.sources else ''


def e_insert_lines(rng, tree, rel, k):
    lines = tree.files[rel].split('\n')
    # not inside the include-guard opening (keeps `#ifndef/#define` adjacent: irrelevant to cppcheck, but tidy)
    pos = rng.randint(0, max(0, len(lines) - 1))
    if rng.random() < 0.5:
        pos = rng.randint(0, min(3, len(lines) - 1))   # near the top: shifts (almost) every finding
    lines[pos:pos] = [''] * k
    tree.set(rel, '\n'.join(lines))
    return ('insert-lines', k, rel)


def e_remove_lines(rng, tree, rel, k):
    lines = tree.files[rel].split('\n')
    runs = []
    i = 0
    while i < len(lines):
        if lines[i] == '':
            j = i
            while j < len(lines) and lines[j] == '':
                j += 1
            if j - i >= k and j < len(lines):   # keep the trailing newline structure intact
                runs.append((i, j))
            i = j
        else:
            i += 1
    if not runs:
        return None
    i, j = rng.choice(runs)
    del lines[i:i + k]
    tree.set(rel, '\n'.join(lines))
    return ('remove-lines', k, rel)


def e_insert_columns(rng, tree, rel, k):
    lines = tree.files[rel].split('\n')
    cand = _code_lines(lines)
    if not cand:
        return None
    i = rng.choice(cand)
    lines[i] = ' ' * k + lines[i]
    tree.set(rel, '\n'.join(lines))
    return ('insert-columns', k, rel)


def e_remove_columns(rng, tree, rel, k):
    lines = tree.files[rel].split('\n')
    cand = [i for i in _code_lines(lines) if len(lines[i]) - len(lines[i].lstrip(' ')) >= k]
    if not cand:
        return None
    i = rng.choice(cand)
    lines[i] = lines[i][k:]
    tree.set(rel, '\n'.join(lines))
    return ('remove-columns', k, rel)


def e_token(rng, tree, rel):
    lines = tree.files[rel].split('\n')
    cand = [i for i in _code_lines(lines) if _NUM.search(lines[i])]
    cand += [i for i, l in enumerate(lines) if l.startswith('#define') and _NUM.search(l) and '_H' not in l]
    if not cand:
        return None
    i = rng.choice(cand)
    ms = list(_NUM.finditer(lines[i]))
    m = rng.choice(ms)
    old = int(m.group(1))
    new = rng.choice([v for v in (0, 1, 2, 3, 5, 7, 11, 40, 99) if v != old])
    lines[i] = lines[i][:m.start(1)] + str(new) + lines[i][m.end(1):]
    tree.set(rel, '\n'.join(lines))
    return (_prefix(rel, tree) + 'token', 0, rel)


def e_comment(rng, tree, rel):
    """comment-only edit that keeps every token where it is: trailing comment added / changed"""
    lines = tree.files[rel].split('\n')
    cand = _code_lines(lines)
    if not cand:
        return None
    i = rng.choice(cand)
    m = re.search(r'\s*/\* note \d+ \*/$', lines[i])
    if m:
        lines[i] = lines[i][:m.start()] + ' /* note %d */' % rng.randint(0, 999)
    else:
        lines[i] += ' /* note %d */' % rng.randint(0, 999)
    tree.set(rel, '\n'.join(lines))
    return (_prefix(rel, tree) + 'comment', 0, rel)


def e_suppress_add(rng, tree, findings_now):
    """trailing `// cppcheck-suppress id` on the line of a current finding (no token moves)"""
    cand = []
    for f in findings_now:
        if not f.locs:
            continue
        file, line = f.locs[0][0], f.locs[0][1]
        if file in tree.files and line > 0 and f.id not in ('unmatchedSuppression',):
            cand.append((file, line, f.id))
    rng.shuffle(cand)
    for file, line, fid in cand:
        lines = tree.files[file].split('\n')
        if line - 1 >= len(lines) or '//' in lines[line - 1] or lines[line - 1].lstrip().startswith('#'):
            continue
        m = re.search(r'\s*/\* note \d+ \*/$', lines[line - 1])
        if m:
            lines[line - 1] = lines[line - 1][:m.start()]
        lines[line - 1] += ' // cppcheck-suppress %s' % fid
        tree.set(file, '\n'.join(lines))
        return ('inline-suppress-add', 0, file)
    return None


UNLIKELY_IDS = ['nullPointer', 'uninitvar', 'memleak', 'zerodiv', 'resourceLeak', 'doubleFree', 'noSuchIdAtAll']


def e_suppress_unmatched(rng, tree, findings_now):
    """comment-only edit that adds an inline suppression matching nothing (or changes the id of an existing trailing
    suppression) on a code line of a *source* file that carries no finding; no token moves. Headers are excluded:
    an unmatched inline suppression in a header is dropped by a cached re-run (separate, listed defect)."""
    busy = set((f.locs[0][0], f.locs[0][1]) for f in findings_now if f.locs)
    cand = []
    for rel, t in tree.files.items():
        if rel.endswith('.h'):
            continue
        for i, l in enumerate(t.split('\n')):
            st = l.strip()
            if (rel, i + 1) in busy or not st or st.startswith(('#', '}', '{', '//', '/*')) or not st.endswith(';'):
                continue
            cand.append((rel, i))
    if not cand:
        return None
    rel, i = rng.choice(cand)
    lines = tree.files[rel].split('\n')
    l = lines[i]
    if ' // cppcheck-suppress ' in l:
        l = l[:l.index(' // cppcheck-suppress ')]
        kind = 'inline-suppress-unmatched-change'
    else:
        m = re.search(r'\s*/\* note \d+ \*/$', l)
        if m:
            l = l[:m.start()]
        kind = 'inline-suppress-unmatched-add'
    lines[i] = l + ' // cppcheck-suppress %s' % rng.choice(UNLIKELY_IDS)
    tree.set(rel, '\n'.join(lines))
    return (kind, 0, rel)


def e_suppress_remove(rng, tree):
    cand = [(rel, i) for rel, t in tree.files.items() for i, l in enumerate(t.split('\n'))
            if ' // cppcheck-suppress ' in l]
    if not cand:
        return None
    rel, i = rng.choice(cand)
    lines = tree.files[rel].split('\n')
    lines[i] = lines[i][:lines[i].index(' // cppcheck-suppress ')]
    tree.set(rel, '\n'.join(lines))
    return ('inline-suppress-remove', 0, rel)


def e_add_file(rng, tree):
    tree.nadded += 1
    p = projgen.gen(rng, nfiles=1, lang=tree.lang, headers=False, ctu=False)
    text = list(p.files.values())[0]
    text = re.sub(r'\b(\w+_f0_\d+)\b', r'\1_n%d' % tree.nadded, text)
    n = [0]

    def sub(m):
        n[0] += 1
        return '%s_n%d_%d' % (m.group(1), tree.nadded, n[0])
    text = _DUP.sub(sub, text)     # exclusion: C22 witness:dupname-unusedFunction-location
    text = text.replace('int main(void) {\n    return 0;\n}\n', '')
    hs = tree.headers()
    if hs and rng.random() < 0.6:
        text = '#include "%s"\n' % rng.choice(hs) + text
    ext = '.c' if tree.lang == 'c' else '.cpp'
    rel = 'n%d%s' % (tree.nadded, ext)
    tree.files[rel] = text
    tree._write(rel)
    tree.sources.insert(rng.randint(0, len(tree.sources)), rel)
    return ('add-file', 0, rel)


def e_remove_file(rng, tree):
    if len(tree.sources) < 2:
        return None
    rel = rng.choice(tree.sources)
    tree.remove(rel)
    return ('remove-file', 0, rel)


def e_rename_file(rng, tree):
    rel = rng.choice(tree.sources)
    tree.nadded += 1
    d, b = os.path.split(rel)
    stem, ext = os.path.splitext(b)
    how = rng.random()
    if how < 0.5:
        new = os.path.join(d, 'r%d%s' % (tree.nadded, ext))
    else:
        # take over the name pattern of a sibling: alphabetical position among the sources changes
        new = os.path.join(d, 'a%d_%s%s' % (tree.nadded, stem, ext))
    text = tree.files[rel]
    idx = tree.sources.index(rel)
    tree.remove(rel)
    tree.files[new] = text
    tree._write(new)
    tree.sources.insert(idx, new)
    return ('rename-file', 0, new)


def e_touch(rng, tree):
    rel = rng.choice(sorted(tree.files))
    t = time.time() + rng.randint(-5000, 5000)
    os.utime(os.path.join(tree.root, rel), (t, t))
    return ('touch', 0, rel)


def random_edit(rng, tree, findings_now):
    """apply one random edit; -> (kind, size, target)"""
    for _ in range(20):
        r = rng.random()
        hdr = rng.random() < 0.3
        e = None
        if r < 0.22:
            e = e_insert_lines(rng, tree, _pick_file(rng, tree, hdr), rng.choice(SIZES))
        elif r < 0.34:
            e = e_remove_lines(rng, tree, _pick_file(rng, tree, hdr), rng.choice(SIZES))
        elif r < 0.44:
            e = e_insert_columns(rng, tree, _pick_file(rng, tree, hdr), rng.choice(SIZES))
        elif r < 0.52:
            e = e_remove_columns(rng, tree, _pick_file(rng, tree, hdr), rng.choice(SIZES))
        elif r < 0.64:
            e = e_token(rng, tree, _pick_file(rng, tree, hdr))
        elif r < 0.72:
            e = e_comment(rng, tree, _pick_file(rng, tree, hdr))
        elif r < 0.76:
            e = e_suppress_add(rng, tree, findings_now)
        elif r < 0.80:
            e = e_suppress_unmatched(rng, tree, findings_now)
        elif r < 0.83:
            e = e_suppress_remove(rng, tree)
        elif r < 0.87:
            e = e_add_file(rng, tree)
        elif r < 0.91:
            e = e_remove_file(rng, tree)
        elif r < 0.96:
            e = e_rename_file(rng, tree)
        else:
            e = e_touch(rng, tree)
        if e:
            return e
    return e_touch(rng, tree)


def unique_function_names(proj):
    """Generator exclusion naming the C22 finding `witness:dupname-unusedFunction-location`: a function
    name defined in two files of one program makes unusedFunction report a different one of the two
    definitions depending on the summary storage (in memory: first file, build dir: last file).  That
    defect has its own witness in C22; the history/option monitors (C18, C19) keep function names unique
    so that it is not rediscovered under every edit/option key.  projgen's only duplicates are the member
    `geta` of its ODR pair and the members `get`/`calc` of two class snippets (all never called)."""
    uniq_text_all(proj.files, proj.sources, 'u')
    return proj


_DUP = re.compile(r'\b(geta|get|calc)\b(?=\()')


def uniq_text_all(files, sources, tag):
    n = [0]

    def sub(m):
        n[0] += 1
        return '%s_%s%d' % (m.group(1), tag, n[0])
    for rel in sources:
        files[rel] = _DUP.sub(sub, files[rel])


def prepad(rng, proj):
    """give some files blocks of blank lines / deeply indented lines so that removals of every size are possible"""
    for rel in list(proj.files):
        if rng.random() < 0.5:
            k = rng.choice([3, 300, 600, 66000])
            lines = proj.files[rel].split('\n')
            pos = rng.randint(0, min(4, len(lines) - 1))
            if rel.endswith('.h'):
                pos = min(pos, 2) + 2      # after the include guard
            lines[pos:pos] = [''] * k
            proj.files[rel] = '\n'.join(lines)
        if rng.random() < 0.4:
            k = rng.choice([3, 300, 600, 66000])
            lines = proj.files[rel].split('\n')
            cand = _code_lines(lines)
            if cand:
                i = rng.choice(cand)
                lines[i] = ' ' * k + lines[i]
                proj.files[rel] = '\n'.join(lines)
    return proj
