"""contgen — C++ programs over standard containers for C02. Every use of a container variable as the
object of a member call (or as a call argument) is a probe: the instrumented text logs c.size()
right before the use, which is what cppcheck's container-size value on that token means."""
from .progen import Program

KINDS = ['vector', 'string', 'deque', 'list', 'set']

EXCLUSIONS = {
    'no-nested-input-branches': 'conditions on the input variable are not nested in each other [finding '
                                'nested-condition-boundary-assumed: inside if (x < 4) the inner if (x < 1) is evaluated with x == 3]',
    'set-insert-fresh': 'every value inserted into a std::set is fresh (taken from a program-wide counter), never an '
                        'element that may already be present [finding set-insert-existing]',
}


class B:
    def __init__(self):
        self.plain = []
        self.inst = []
        self.probes = {}
        self.npid = 0

    def line(self, indent, parts):
        p = '    ' * indent
        i = '    ' * indent
        for x in parts:
            if isinstance(x, tuple):
                self.npid += 1
                self.probes[self.npid] = (len(self.plain) + 1, len(p) + 1, x[1], 'container')
                p += x[1]
                i += 'VSZ(%d, %s)' % (self.npid, x[1])
            else:
                p += x
                i += x
        self.plain.append(p)
        self.inst.append(i)

    def raw(self, p, i=None):
        self.plain.append(p)
        self.inst.append(p if i is None else i)


def C(name):
    return ('c', name)


def typ(kind):
    return {'vector': 'std::vector<int>', 'string': 'std::string', 'deque': 'std::deque<int>',
            'list': 'std::list<int>', 'set': 'std::set<int>'}[kind]


class Gen:
    def __init__(self, rng):
        self.r = rng
        self.b = B()
        self.n = 0
        self.feats = {}
        self.in_input_branch = 0

    def feat(self, f):
        self.feats[f] = self.feats.get(f, 0) + 1

    def nv(self, p='c'):
        self.n += 1
        return '%s%d' % (p, self.n)

    def elem(self, kind):
        if kind == 'string':
            return "'%s'" % self.r.choice('abcxyz')
        return str(self.r.randint(0, 9))

    def declare(self, indent, conts):
        r = self.r
        kind = r.choice(KINDS)
        name = self.nv()
        form = r.choice(['default', 'n', 'nv', 'init', 'copy'])
        T = typ(kind)
        if kind == 'set' and form in ('n', 'nv'):
            form = 'init'
        same = [c for c in conts if c[1] == kind]
        if form == 'copy' and not same:
            form = 'default'
        self.feat('construct:' + form)
        if form == 'default':
            self.b.line(indent, ['%s %s;' % (T, name)])
        elif form == 'n':
            self.b.line(indent, ['%s %s(%d%s);' % (T, name, r.randint(0, 4), ", 'q'" if kind == 'string' else '')])
        elif form == 'nv':
            self.b.line(indent, ['%s %s(%d, %s);' % (T, name, r.randint(0, 4), self.elem(kind))])
        elif form == 'init':
            if kind == 'string':
                self.b.line(indent, ['%s %s = "%s";' % (T, name, 'abcdefgh'[:r.randint(0, 6)])])
            else:
                k = r.randint(0, 4)
                vals = r.sample(range(10), k)   # distinct: a set keeps all of them
                self.b.line(indent, ['%s %s = {%s};' % (T, name, ', '.join(map(str, vals)))] if k else ['%s %s;' % (T, name)])
        else:
            self.b.line(indent, ['%s %s(' % (T, name), C(r.choice(same)[0]), ');'])
        conts.append((name, kind))

    def stmt(self, indent, conts, depth, in_loop):
        before = len(self.b.plain)
        self.stmt0(indent, conts, depth, in_loop)
        # isolate the effect of each operation: read the size of a container right after a statement that used it
        if conts and len(self.b.plain) == before + 1 and self.r.random() < 0.5:
            line = self.b.plain[-1]
            used = [c for c in conts if c[1] != 'array' and (c[0] + '.') in line or (c[0] + ' ') in line]
            if used:
                self.b.line(indent, ['sink += (long)', C(self.r.choice(used)[0]), '.size();'])

    def stmt0(self, indent, conts, depth, in_loop):
        r = self.r
        if not conts or r.random() < 0.12:
            self.declare(indent, conts)
            return
        if r.random() < 0.06:
            # std::array: fixed size, read-only uses
            n = r.randint(1, 5)
            name = self.nv('ar')
            self.feat('construct:array')
            self.b.line(indent, ['std::array<int, %d> %s = {{%s}};' % (n, name, ', '.join(str(r.randint(0, 9)) for _ in range(n)))])
            conts.append((name, 'array'))
            return
        if r.random() < 0.06:
            movable = [c for c in conts if c[1] != 'array']
            if movable:
                src, kind = r.choice(movable)
                name = self.nv()
                self.feat('construct:move')
                self.b.line(indent, ['%s %s(std::move(' % (typ(kind), name), C(src), '));'])
                conts.remove((src, kind))       # a moved-from container is never probed again
                conts.append((name, kind))
                return
        name, kind = r.choice(conts)
        if kind == 'array':
            self.feat('read-array')
            form = r.choice(['size', 'empty', 'sizecmp'])
            if form == 'size':
                self.b.line(indent, ['sink += (long)', C(name), '.size();'])
            elif form == 'empty':
                self.b.line(indent, ['sink += ', C(name), '.empty() ? 1 : 0;'])
            else:
                self.b.line(indent, ['sink += (', C(name), '.size() %s %d) ? 1 : 0;' % (r.choice(['<', '>', '==', '!=']), r.randint(0, 5))])
            return
        ops = ['push', 'push', 'pop', 'clear', 'read', 'read', 'branch-size', 'branch-input', 'loop-push', 'helper-ro',
               'helper-rw', 'swap', 'assign-copy']
        if kind in ('vector', 'string', 'deque'):
            ops += ['resize', 'insert', 'erase', 'assign']
        if kind in ('deque', 'list'):
            ops += ['push-front', 'pop-front']
        if kind == 'string':
            ops += ['append'] * 6
        op = r.choice(ops)
        if depth >= 2 and op in ('branch-size', 'branch-input', 'loop-push'):
            op = 'read'
        if op == 'branch-input' and self.in_input_branch:
            op = 'read'     # exclusion no-nested-input-branches
        if in_loop and op == 'loop-push':
            op = 'push'
        self.feat(op)
        b = self.b
        if op == 'push':
            if kind == 'set':
                b.line(indent, [C(name), '.insert(1000 + fresh++);'])   # exclusion set-insert-fresh
            else:
                b.line(indent, [C(name), '.%s(%s);' % (r.choice(['push_back', 'push_back', 'emplace_back']) if kind != 'string' else 'push_back', self.elem(kind))])
        elif op == 'push-front':
            b.line(indent, [C(name), '.push_front(%s);' % self.elem(kind)])
        elif op == 'pop':
            b.line(indent, ['if (!', C(name), '.empty()) {'])
            if kind == 'set':
                b.line(indent + 1, [C(name), '.erase(', C(name), '.begin());'])
            else:
                b.line(indent + 1, [C(name), '.pop_back();'])
            b.line(indent, ['}'])
        elif op == 'pop-front':
            b.line(indent, ['if (', C(name), '.size() > 0) {'])
            b.line(indent + 1, [C(name), '.pop_front();'])
            b.line(indent, ['}'])
        elif op == 'clear':
            b.line(indent, [C(name), '.clear();'])
        elif op == 'read':
            form = r.choice(['size', 'empty', 'sizecmp'])
            if form == 'size':
                b.line(indent, ['sink += (long)', C(name), '.size();'])
            elif form == 'empty':
                b.line(indent, ['sink += ', C(name), '.empty() ? 1 : 0;'])
            else:
                b.line(indent, ['sink += (', C(name), '.size() %s %d) ? 1 : 0;' % (r.choice(['<', '>', '==', '!=', '>=']), r.randint(0, 4))])
        elif op == 'resize':
            b.line(indent, [C(name), '.resize(%d%s);' % (r.randint(0, 5), ", 'r'" if kind == 'string' else '')])
        elif op == 'assign':
            if kind in ('vector', 'deque') and r.random() < 0.4:
                self.feat('assign:list')
                b.line(indent, [C(name), ' = {%s};' % ', '.join(self.elem(kind) for _ in range(r.randint(0, 4)))]
                       if r.random() < 0.5 else
                       [C(name), '.assign({%s});' % ', '.join(self.elem(kind) for _ in range(r.randint(1, 4)))])
            else:
                b.line(indent, [C(name), '.assign(%d, %s);' % (r.randint(0, 4), self.elem(kind))])
        elif op == 'insert':
            form = r.choice(['one', 'one', 'n', 'list']) if kind in ('vector', 'deque') else 'one'
            self.feat('insert:' + form)
            if form == 'one':
                b.line(indent, [C(name), '.insert(', C(name), '.begin(), %s);' % self.elem(kind)])
            elif form == 'n':
                b.line(indent, [C(name), '.insert(', C(name), '.begin(), %d, %s);' % (r.randint(0, 3), self.elem(kind))])
            else:
                b.line(indent, [C(name), '.insert(', C(name), '.end(), {%s});' % ', '.join(self.elem(kind) for _ in range(r.randint(1, 3)))])
        elif op == 'erase':
            b.line(indent, ['if (!', C(name), '.empty()) {'])
            b.line(indent + 1, [C(name), '.erase(', C(name), '.begin());'])
            b.line(indent, ['}'])
        elif op == 'append':
            form = r.choice(['+=', 'append', '+=c', 'append-n-char', 'append-lit-n', 'append-str', '+=str', 'assign-lit',
                             'insert-lit', 'push_back'])
            lit = 'uvwxyz'[:r.randint(0, 4)]
            others = [c for c in conts if c[1] == 'string' and c[0] != name]
            if form in ('append-str', '+=str') and not others:
                form = 'append'
            self.feat('string:' + form)
            if form == '+=':
                b.line(indent, [C(name), ' += "%s";' % lit])
            elif form == 'append':
                b.line(indent, [C(name), '.append("%s");' % lit])
            elif form == '+=c':
                b.line(indent, [C(name), " += 'k';"])
            elif form == 'append-n-char':
                b.line(indent, [C(name), ".append(%d, 'n');" % r.randint(0, 4)])
            elif form == 'append-lit-n':
                b.line(indent, [C(name), '.append("abcdef", %d);' % r.randint(0, 5)])
            elif form == 'append-str':
                b.line(indent, [C(name), '.append(', C(r.choice(others)[0]), ');'])
            elif form == '+=str':
                b.line(indent, [C(name), ' += ', C(r.choice(others)[0]), ';'])
            elif form == 'assign-lit':
                b.line(indent, [C(name), '.assign("%s");' % lit])
            elif form == 'insert-lit':
                b.line(indent, [C(name), '.insert(0, "%s");' % lit])
            else:
                b.line(indent, [C(name), ".push_back('p');"])
        elif op == 'swap':
            same = [c for c in conts if c[1] == kind and c[0] != name]
            if same:
                b.line(indent, [C(name), '.swap(', C(r.choice(same)[0]), ');'])
            else:
                b.line(indent, ['sink += (long)', C(name), '.size();'])
        elif op == 'assign-copy':
            same = [c for c in conts if c[1] == kind and c[0] != name]
            if same:
                b.line(indent, [C(name), ' = ', C(r.choice(same)[0]), ';'])
            else:
                b.line(indent, ['sink += (long)', C(name), '.size();'])
        elif op == 'branch-size':
            b.line(indent, ['if (', C(name), '.size() %s %d) {' % (r.choice(['<', '>', '==', '!=', '>=', '<=']), r.randint(0, 4))])
            for _ in range(r.randint(1, 3)):
                self.stmt(indent + 1, list(conts), depth + 1, in_loop)
            if r.random() < 0.4:
                b.line(indent, ['} else {'])
                for _ in range(r.randint(1, 2)):
                    self.stmt(indent + 1, list(conts), depth + 1, in_loop)
            b.line(indent, ['}'])
        elif op == 'branch-input':
            b.line(indent, ['if (x %s %d) {' % (r.choice(['<', '>', '==', '!=']), r.randint(0, 4))])
            self.in_input_branch += 1
            for _ in range(r.randint(1, 3)):
                self.stmt(indent + 1, list(conts), depth + 1, in_loop)
            if r.random() < 0.4:
                b.line(indent, ['} else {'])
                for _ in range(r.randint(1, 2)):
                    self.stmt(indent + 1, list(conts), depth + 1, in_loop)
            self.in_input_branch -= 1
            b.line(indent, ['}'])
        elif op == 'loop-push':
            iv = self.nv('i')
            bound = r.choice([str(r.randint(1, 4)), '(x & 3)'])
            b.line(indent, ['for (int %s = 0; %s < %s; %s++) {' % (iv, iv, bound, iv)])
            for _ in range(r.randint(1, 2)):
                self.stmt(indent + 1, list(conts), depth + 1, True)
            b.line(indent, ['}'])
        elif op in ('helper-ro', 'helper-rw'):
            h = ('ro_' if op == 'helper-ro' else 'rw_') + kind
            b.line(indent, ['sink += %s(' % h, C(name), ');'])

    def program(self):
        r = self.r
        b = self.b
        b.raw('/* generated by contgen */', '#include "trace.h"')
        for h in ['vector', 'string', 'deque', 'list', 'set', 'array', 'utility']:
            b.raw('#include <%s>' % h)
        b.raw('static long sink = 0;')
        b.raw('static int fresh = 0;')
        for kind in KINDS:
            T = typ(kind)
            b.raw('static long ro_%s(const %s &c) {' % (kind, T))
            b.line(1, ['return (long)', C('c'), '.size();'])
            b.raw('}')
            b.raw('static long rw_%s(%s &c) {' % (kind, T))
            if kind == 'set':
                b.line(1, [C('c'), '.insert(1000 + fresh++);'])
            elif kind == 'string':
                b.line(1, [C('c'), " += 'z';"])
            else:
                b.line(1, [C('c'), '.push_back(7);'])
            b.line(1, ['return (long)', C('c'), '.size();'])
            b.raw('}')
        nf = r.randint(1, 3)
        for fi in range(nf):
            b.raw('static void f%d(int x) {' % fi)
            conts = []
            for _ in range(r.randint(3, 9)):
                self.stmt(1, conts, 0, False)
            b.raw('}')
        b.raw('long long strtoll(const char *, char **, int);')
        b.raw('int main(int argc, char **argv) {')
        b.raw('    long long in[8] = {0, 0, 0, 0, 0, 0, 0, 0};')
        b.raw('    for (int k = 1; k < argc && k <= 8; k++) {')
        b.raw('        in[k - 1] = strtoll(argv[k], 0, 10);')
        b.raw('    }')
        for fi in range(nf):
            b.raw('    f%d((int)in[%d]);' % (fi, fi))
        b.raw('    return (int)(sink & 0);', '    vp_finish(); return (int)(sink & 0);')
        b.raw('}')
        p = Program('\n'.join(b.plain) + '\n', '\n'.join(b.inst) + '\n', b.probes, [], [0, 1, 2, 3, 4, 5], dict(self.feats), 'cpp')
        return p


def gen(rng):
    return Gen(rng).program()
