"""Feature-oriented generator of small, (mostly) well-formed C and C++ translation units.

Unlike progen (typed, UB-free, executable) these programs are only *analysed*; they exist to push
the dump writer and the clang importer through constructs progen does not emit: typedef / using
simplification (originalName), macros (macroName, nested expansion), templates and their
instantiations, operator overloads whose names contain XML specials, string/char literals with
`< > & " '`, containers, lambdas, thread_local/consteval rewriting, alignas, function-pointer
typedef casts, inheritance, namespaces, and `#if` structure that yields several configurations.

gen(rng, lang) -> Program(text, lang, features, configs)
"""


class Program:
    def __init__(self, text, lang, features, macros):
        self.text = text
        self.lang = lang            # 'c' | 'cpp'
        self.features = features
        self.macros = macros        # names usable in -D sets (referenced by #if/#ifdef)


class _G:
    def __init__(self, rng, lang):
        self.rng = rng
        self.lang = lang
        self.n = 0
        self.feat = []
        self.macros = []

    def name(self, p='v'):
        self.n += 1
        return '%s%d' % (p, self.n)

    def lit(self):
        r = self.rng
        return r.choice(['0', '1', '7', '42', '255', '0x10', '100u', '3L', "'a'", "'<'", "'&'", "'\"'", "'\\''",
                         '1000000', '-5', '2+3', '(1<<4)', '(7&3)', '(2>1)', '(1<2)'])

    def strlit(self):
        return self.rng.choice(['"a<b"', '"x&y"', '"q\\"uote"', '"<>&\'\\""', '"&amp;"', '"]]>"', '"tab\\t"', '""',
                                '"<!--"', '"plain"', '"%d<%s>&"'])

    # ----------------------------------------------------------------- C and C++
    def f_typedef(self):
        t, v, f = self.name('T'), self.name(), self.name('f')
        base = self.rng.choice(['unsigned int', 'long long', 'const char *', 'unsigned char', 'int *', 'short'])
        return ['typedef %s %s;' % (base, t),
                'static %s %s(%s %s) { %s q = %s; return q; }' % (t, f, t, v, t, v)]

    def f_typedef_struct(self):
        s, t, f = self.name('S'), self.name('T'), self.name('f')
        return ['typedef struct %s { int a; char b[%s]; struct %s *next; } %s;' % (s, self.rng.choice(['4', '16', '2+2']), s, t),
                'static int %s(%s *p) { %s loc; loc.a = %s; loc.next = p; return p ? p->a + loc.a : (int)sizeof(%s); }' % (
                    f, t, t, self.lit(), t)]

    def f_fnptr_typedef(self):
        t, f, g = self.name('Fn'), self.name('f'), self.name('g')
        return ['typedef int (*%s)(int, char);' % t,
                'static int %s(int a, char b) { return a + b; }' % f,
                'static int %s(void *p) { %s h = (%s)p; %s k = %s; return h(1, %s) + k(2, \'b\') + ((%s)p)(3, \'c\'); }' % (
                    g, t, t, t, f, self.rng.choice(["'a'", "'<'", "'&'"]), t)]

    def f_macro(self):
        m, n, f = self.name('M'), self.name('N'), self.name('f')
        body = self.rng.choice(['((x) * (x))', '((x) < (y) ? (x) : (y))', '((x) & (y))', 'do { (x) += (y); } while (0)'])
        two = 'y' in body
        call = '%s(a, %s)' % (m, self.lit()) if two else '%s(a)' % m
        stmt = ('%s;' % call) if body.startswith('do') else ('a = %s;' % call)
        return ['#define %s(%s) %s' % (m, 'x, y' if two else 'x', body),
                '#define %s (%s + 1)' % (n, self.lit()),
                'static int %s(int a) { %s a += %s; return a %s %s; }' % (f, stmt, n, self.rng.choice(['<', '&', '>', '+']), n)]

    def f_macro_nested(self):
        a, b, c, f = self.name('A'), self.name('B'), self.name('C'), self.name('f')
        return ['#define %s(x) (%s(x) + 1)' % (a, b), '#define %s(x) ((x) %s 2)' % (b, self.rng.choice(['<<', '&', '<', '*'])),
                '#define %s(s) #s' % c,
                'static const char *%s(int v) { int w = %s(v); return w ? %s(v < w && 1) : %s; }' % (f, a, c, self.strlit())]

    def f_strings(self):
        f = self.name('f')
        return ['static int %s(const char *s) { const char *a = %s; const char *b = %s %s; char c = %s; '
                'return s == a || s == b || *s == c; }' % (f, self.strlit(), self.strlit(), self.strlit(),
                                                           self.rng.choice(["'<'", "'&'", "'>'", "'\"'", "'\\''"]))]

    def f_ifdef(self):
        m, v = self.name('CFG'), self.name('g')
        self.macros.append(m)
        k = self.rng.choice(['#ifdef %s' % m, '#if defined(%s) && %s > 1' % (m, m), '#ifndef %s' % m, '#if %s' % m])
        return [k, 'static int %s = %s;' % (v, self.lit()), '#else', 'static long %s = %s;' % (v, self.lit()), '#endif',
                'static int %s_use(void) { return (int)%s; }' % (v, v)]

    def f_arrays(self):
        f, a = self.name('f'), self.name('arr')
        n = self.rng.choice([3, 8, 16])
        return ['static int %s[%d][2] = {{1, 2}, {3, 4}};' % (a, n),
                'static int %s(int i) { int s = 0; for (int k = 0; k < %d; k++) { s += %s[k][i & 1]; } '
                'if (i >= 0 && i < %d) s += %s[i][0]; return s; }' % (f, n, a, n, a)]

    def f_switch(self):
        f = self.name('f')
        return ['static int %s(int x) { switch (x) { case 1: return %s; case 2: { int y = x << 1; return y; } '
                'default: break; } return x > 3 ? x : -x; }' % (f, self.lit())]

    def f_alignas(self):
        s = self.name('S')
        if self.lang == 'c':
            return ['struct %s { _Alignas(16) char buf[%s]; int n; };' % (s, self.rng.choice(['16', '32'])),
                    'static struct %s %s_v;' % (s, s)]
        e = self.rng.choice(['16', 'sizeof(int) < 8 ? 8 : 16', '(4 & 12) + 4', 'alignof(double)'])
        return ['struct alignas(%s) %s { char buf[16]; int n; };' % (e, s), 'static %s %s_v;' % (s, s)]

    def f_enum(self):
        e, f = self.name('E'), self.name('f')
        return ['enum %s { %s_A, %s_B = %s, %s_C };' % (e, e, e, self.rng.choice(['5', '1<<3', "'<'"]), e),
                'static int %s(enum %s v) { return v == %s_B ? %s_C : (int)v; }' % (f, e, e, e)]

    def f_ptrs(self):
        f = self.name('f')
        return ['static int %s(int *p, int n) { int loc[4] = {0}; int *q = &loc[n & 3]; if (!p) p = q; '
                '*q = n; return *p + loc[0] + (p == q) + (p < q); }' % f]

    # ----------------------------------------------------------------- C++ only
    def f_using(self):
        t, u, f = self.name('U'), self.name('W'), self.name('f')
        return ['using %s = %s;' % (t, self.rng.choice(['unsigned long', 'const int *', 'std::vector<int>', 'int (*)(int)',
                                                        'std::map<std::string, int>'])),
                'template<class T> using %s = std::vector<T>;' % u,
                'static std::size_t %s(const %s<int>& v) { %s x{}; (void)x; return v.size(); }' % (f, u, t)]

    def f_template(self):
        f, c, g = self.name('tf'), self.name('TC'), self.name('g')
        return ['template<class T, int N = %s> struct %s { T a[N]; T get(int i) const { return a[i %% N]; } '
                'bool operator<(const %s& o) const { return a[0] < o.a[0]; } };' % (self.rng.choice(['2', '4', '(1<2)+1']), c, c),
                'template<typename T> T %s(T x, T y) { return x < y ? x : y; }' % f,
                'static int %s(int v) { %s<int> a{}; %s<long, 3> b{}; return %s(v, 3) + %s<int>(1, 2) + a.get(v) + '
                '(int)b.get(1) + (a < a) + %s(2.5, 1.5) > 0; }' % (g, c, c, f, f, f)]

    def f_operators(self):
        s, g = self.name('Op'), self.name('g')
        ops = self.rng.sample(['<', '>', '<=', '>=', '&', '&&', '<<', '>>', '->', '()', '[]', '<=>', '&=', '<<='], 4)
        body = []
        for o in ops:
            if o == '->':
                body.append('%s* operator->() { return this; }' % s)
            elif o == '()':
                body.append('int operator()(int a) const { return a + v; }')
            elif o == '[]':
                body.append('int operator[](int a) const { return a & v; }')
            elif o == '<=>':
                body.append('bool operator==(const %s& o) const { return v == o.v; }' % s)
            elif o in ('&=', '<<='):
                body.append('%s& operator%s(int a) { v %s a; return *this; }' % (s, o, o))
            elif o in ('&', '<<', '>>'):
                body.append('%s operator%s(const %s& o) const { %s r; r.v = v %s o.v; return r; }' % (s, o, s, s, o))
            else:
                body.append('bool operator%s(const %s& o) const { return v %s o.v; }' % (o, s, o if o != '&&' else '<'))
        use = []
        for o in ops:
            if o == '->':
                use.append('r += a->v;')
            elif o == '()':
                use.append('r += a(2);')
            elif o == '[]':
                use.append('r += a[3];')
            elif o == '<=>':
                use.append('r += (a == b);')
            elif o in ('&=', '<<='):
                use.append('a %s 1;' % o)
            elif o in ('&', '<<', '>>'):
                use.append('r += (a %s b).v;' % o)
            else:
                use.append('r += (a %s b) ? 1 : 0;' % o)
        return ['struct %s { int v; %s };' % (s, ' '.join(body)),
                'static int %s(%s a, %s b) { int r = 0; %s return r; }' % (g, s, s, ' '.join(use))]

    def f_containers(self):
        f = self.name('f')
        return ['static int %s(std::vector<int>& v, const std::string& s, std::map<std::string, int>& m) { '
                'v.push_back(%s); if (v.empty()) return 0; std::string t = s + %s; m[t] = (int)v.size(); '
                'for (auto it = v.begin(); it != v.end(); ++it) { if (*it < 0) v.front() = 1; } '
                'for (const auto& kv : m) { if (kv.second > 2) return kv.second; } '
                'return v[0] + (int)t.size() + v.at(0); }' % (f, self.lit(), self.strlit())]

    def f_lambda(self):
        f = self.name('f')
        return ['static int %s(int a) { int k = %s; auto l = [&k, a](int x) -> int { return x < a ? k : x & k; }; '
                'auto m = [](auto p, auto q) { return p < q; }; return l(3) + m(1, 2) + [=] { return a; }(); }' % (
                    f, self.lit())]

    def f_storage(self):
        f, v = self.name('f'), self.name('tl')
        return ['thread_local int %s = %s;' % (v, self.lit()),
                'constexpr int %s_c(int x) { return x < 3 ? x : 3; }' % f,
                self.rng.choice(['consteval int %s_e(int x) { return x & 7; }' % f, 'constinit int %s_i = 4;' % f]),
                'static int %s() { static thread_local int s = 1; return %s + s + %s_c(2); }' % (f, v, f)]

    def f_inherit(self):
        b, d, t, f = self.name('B'), self.name('D'), self.name('BT'), self.name('f')
        return ['struct %s { virtual ~%s() {} virtual int get() const { return 1; } int bm = 0; };' % (b, b),
                'typedef %s %s;' % (b, t),
                'struct %s : public %s { int get() const override { return bm + 2; } %s *self() { return this; } };' % (d, t, t),
                'static int %s(const %s& x) { %s dd; const %s& r = dd; return x.get() + r.get() + dd.self()->bm; }' % (f, b, d, t)]

    def f_namespace(self):
        n, f = self.name('ns'), self.name('f')
        return ['namespace %s { namespace inner { typedef unsigned short us; static us conv(int x) { return (us)x; } } '
                'using inner::us; static int %s(us a) { return a < 3; } }' % (n, f),
                'static int %s_use() { %s::us q = %s::inner::conv(%s); return %s::%s(q) + (int)q; }' % (f, n, n, self.lit(), n, f)]

    def f_casts(self):
        f = self.name('f')
        return ['static long %s(const void *p, double d) { const int *ip = static_cast<const int *>(p); '
                'long a = static_cast<long>(d); unsigned char c = (unsigned char)(a & 0xff); '
                'auto u = reinterpret_cast<unsigned long long>(p); return *ip + a + c + (long)(u < 4); }' % f]

    def f_winapi(self):
        f = self.name('f')
        return ['static int %s(const TCHAR *s) { TCHAR buf[8]; _tcscpy(buf, _T("a<b")); return _tcslen(s) < 3 && _tcscmp(buf, s); }' % f]


C_FEATURES = ['typedef', 'typedef_struct', 'fnptr_typedef', 'macro', 'macro_nested', 'strings', 'ifdef', 'arrays',
              'switch', 'alignas', 'enum', 'ptrs']
CPP_FEATURES = C_FEATURES + ['using', 'template', 'operators', 'containers', 'lambda', 'storage', 'inherit', 'namespace',
                             'casts', 'using', 'template', 'operators']


def gen(rng, lang='cpp', winapi=False, nostd=False):
    """nostd: no #include and no std:: (self-contained text, e.g. for clang's JSON AST)"""
    g = _G(rng, lang)
    feats = list(C_FEATURES if lang == 'c' else CPP_FEATURES)
    if nostd:
        feats = [f for f in feats if f not in ('using', 'containers')]
    lines = ['/* generated by featgen */']
    if nostd:
        pass
    elif lang != 'c':
        lines += ['#include <vector>', '#include <string>', '#include <map>', '#include <cstddef>']
    else:
        lines += ['#include <stddef.h>']
    k = rng.randint(3, 9)
    chosen = [rng.choice(feats) for _ in range(k)]
    if winapi:
        chosen.append('winapi')
    for name in chosen:
        lines += getattr(g, 'f_' + name)()
        g.feat.append(name)
        lines.append('')
    return Program('\n'.join(lines) + '\n', lang, g.feat, g.macros)
