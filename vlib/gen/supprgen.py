"""Suppression generators: inline comments injected into a project, command-line sets."""
from .projgen import Project

UNLIKELY_IDS = ['nullPointer', 'zerodiv', 'memleak', 'uninitvar', 'arrayIndexOutOfBounds',
                'unreadVariable', 'noSuchId', 'resourceLeak']


def add_inline(rng, proj, fs, frac=0.4, unmatched=2, in_headers=True, blocks=0.0):
    """Return (new Project, list of inserted comments) with `// cppcheck-suppress id` lines
    inserted above a random subset of the findings `fs` (findings.Finding of the *unmodified*
    project, relative paths) and `unmatched` suppressions that match nothing.
    Insertions go bottom-up per file so that earlier line numbers stay valid."""
    ins = {}  # file -> list of (line, text)
    for f in fs:
        if not f.locs:
            continue
        file, line, _c, _i = f.locs[0]
        if file not in proj.files or line <= 0:
            continue
        if not in_headers and file.endswith('.h'):
            continue
        if rng.random() < frac:
            form = rng.random()
            if rng.random() < blocks:
                # block form: begin above the finding, end some lines further down (possibly far: the range then covers
                # the lines on which *other* files have findings with the same id)
                nlines = proj.files[file].count('\n') + 1
                end = min(nlines + 1, line + 1 + rng.choice([0, 1, 3, 10, 40, 200]))
                ins.setdefault(file, []).append((end, '// cppcheck-suppress-end %s' % f.id))
                ins.setdefault(file, []).append((line, '// cppcheck-suppress-begin %s' % f.id))
                continue
            if f.symbols and form < 0.15:
                # with a symbol name: travels through Suppression::toString()/parseLine() between worker and parent
                txt = '// cppcheck-suppress %s symbolName=%s' % (f.id, f.symbols[0])
            elif form < 0.7:
                txt = '// cppcheck-suppress %s' % f.id
            elif form < 0.85:
                txt = '/* cppcheck-suppress %s */' % f.id
            else:
                txt = '// cppcheck-suppress [%s,%s]' % (f.id, rng.choice(UNLIKELY_IDS))
            ins.setdefault(file, []).append((line, txt))
    names = sorted(proj.files)
    for _ in range(unmatched):
        file = rng.choice(names)
        nlines = proj.files[file].count('\n')
        if nlines < 3:
            continue
        line = rng.randint(2, nlines)
        ins.setdefault(file, []).append((line, '// cppcheck-suppress %s' % rng.choice(UNLIKELY_IDS)))
    q = Project()
    q.sources = list(proj.sources)
    q.aimed = list(proj.aimed)
    q.lang = proj.lang
    inserted = []
    for file, text in proj.files.items():
        lines = text.split('\n')
        seen = set()
        for line, txt in sorted(ins.get(file, []), key=lambda x: -x[0]):
            if line in seen:
                continue  # one comment per target line
            seen.add(line)
            # do not split a preprocessor directive block or land inside a macro continuation
            lines.insert(line - 1, txt)
            inserted.append((file, line, txt))
        q.files[file] = '\n'.join(lines)
    return q, inserted


def cmdline_set(rng, fs, files, n=(0, 4)):
    """random --suppress=... options: some matching real findings, some matching nothing"""
    opts = []
    for _ in range(rng.randint(*n)):
        r = rng.random()
        if fs and r < 0.6:
            f = rng.choice(fs)
            file, line = (f.locs[0][0], f.locs[0][1]) if f.locs else ('', 0)
            form = rng.random()
            if form < 0.3 or not file:
                opts.append('--suppress=%s' % f.id)
            elif form < 0.6:
                opts.append('--suppress=%s:%s' % (f.id, file))
            elif form < 0.85:
                opts.append('--suppress=%s:%s:%d' % (f.id, file, line))
            else:
                opts.append('--suppress=%s*:%s' % (f.id[:3], file))
        else:
            i = rng.choice(UNLIKELY_IDS)
            if files and rng.random() < 0.5:
                opts.append('--suppress=%s:%s' % (i, rng.choice(files)))
            else:
                opts.append('--suppress=%s_%d' % (i, rng.randint(0, 99)))
    return opts
