"""condgen — random conditional skeletons for C12 (see models/cfgselect.py).

gen(rng) -> (root Region, macros used).  The tree nests #ifdef/#ifndef/#if defined()/#if !defined()
with optional #else, depth <= 5, <= 8 macros; every conditional uses its own macro (never defined in
the file); sibling order and the position of each region's finding site are random.

Finding-keyed exclusions (known/C12.txt; the witnesses are replayed on every run): shapes on which
cppcheck is known to lose a guarded region are repaired out of the random workload; this narrows the
workload, never the oracle.
"""
from ..models.cfgselect import Cond, Region, KINDS

# name: (generate?, known key)
EXCL = {
    'else-of-ifdef-before-sibling': (True, 'else-pops-enclosing-configuration'),   # defect repaired (fix: 9167c0c): exclusion lifted
    'nested-in-if-not-defined': (False, 'if-not-defined-nested-uses-defined-configuration'),
}


def allowed(name):
    return EXCL.get(name, (True, ''))[0]


# names chosen so that several are substrings / prefixes / suffixes of others
NAMES = ['A', 'AA', 'AB', 'BA', 'B', 'A_B', 'XA', 'AX', 'FOO', 'FOOBAR', 'BAR', 'X', 'X1', 'X11', 'DEBUG', 'NDEBUG',
         'CFG_A', 'CFG', 'A1', 'Z']


class _Node:
    """construction-time conditional"""
    def __init__(self, kind, macro, has_else):
        self.kind, self.macro, self.has_else = kind, macro, has_else
        self.then, self.els = None, None     # lists of items ('SITE' | _Node)


def _build(rng, depth, max_depth, budget):
    """-> list of items for one region; budget = [remaining macros]"""
    items = []
    if depth < max_depth:
        nmax = [3, 3, 2, 2, 1, 0][depth]
        k = rng.randint(0 if depth else 1, nmax)
        for _ in range(k):
            if not budget:
                break
            macro = budget.pop()
            node = _Node(rng.choice(KINDS), macro, rng.random() < 0.5)
            node.then = _build(rng, depth + 1, max_depth, budget)
            if node.has_else:
                node.els = _build(rng, depth + 1, max_depth, budget)
            items.append(node)
    items.insert(rng.randint(0, len(items)), 'SITE')
    return items


def _has_cond(items):
    return any(isinstance(i, _Node) for i in items)


def _repair(items, depth, followed):
    """apply the exclusions. followed = a conditional directive (#if... of a sibling, or the #else of an
    enclosing conditional) follows later inside an enclosing conditional"""
    for idx, it in enumerate(items):
        if not isinstance(it, _Node):
            continue
        later = followed or _has_cond(items[idx + 1:])
        if it.kind == 'if-not-defined' and not allowed('nested-in-if-not-defined'):
            it.then = ['SITE']
            if it.has_else:
                it.els = ['SITE']
        if (it.has_else and it.kind in ('ifdef', 'if-defined', 'if-not-defined') and depth > 0 and later
                and not allowed('else-of-ifdef-before-sibling')):
            it.has_else, it.els = False, None
        _repair(it.then, depth + 1, later or it.has_else)
        if it.has_else:
            _repair(it.els, depth + 1, later)


def _finish(items, guard, counter):
    region = Region(counter[0], guard)
    counter[0] += 1
    for it in items:
        if it == 'SITE':
            region.items.append('SITE')
            continue
        c = Cond(it.kind, it.macro, it.has_else)
        g1 = dict(guard)
        g1[it.macro] = c.positive()
        c.then = _finish(it.then, g1, counter)
        if it.has_else:
            g2 = dict(guard)
            g2[it.macro] = not c.positive()
            c.els = _finish(it.els, g2, counter)
        region.items.append(c)
    return region


def gen(rng, max_depth=5, max_macros=8):
    names = list(NAMES)
    rng.shuffle(names)
    budget = names[:rng.randint(1, max_macros)]
    used = list(budget)
    items = _build(rng, 0, rng.randint(1, max_depth), budget)
    _repair(items, 0, False)
    root = _finish(items, {}, [0])
    macros = [m for m in used if m not in budget]
    return root, macros
