"""ppgen — seeded generator of preprocessor workloads for C11.

gen(rng) -> Case: a main source, generated headers (next to the source, in a sub directory, in -I
directories, a forced header) and an option set (-D/-U/-I/--include) given both in cppcheck and in
gcc/clang spelling.  The sources exercise object-/function-like/variadic macros, # and ##, nested
and self-referential expansion, rescanning that pulls in following tokens, __VA_ARGS__/__VA_OPT__,
#if arithmetic with defined(), short-circuit, #elif/#else, #undef/redefinition, #include in both
forms (incl. computed includes) and include guards.  Nothing depends on predefined macros
(no identifier starts with `__` except __VA_ARGS__/__VA_OPT__).

Every construct is meant to be accepted by gcc; what gcc rejects anyway (argument-count mismatch
caused by conditional redefinition, invalid paste results, ...) is only checked for "no crash".

Finding-keyed exclusions (see /verif/known/C11.txt; each witness is replayed on every run): the
EXCL_* switches below remove one construct each from the random workload because cppcheck is known
to deviate on it; they narrow the workload, never the oracle.
"""
import os
import re

# --- finding-keyed generator exclusions (False = construct not generated) -------------------------
EXCL = {
    # name: (generate?, known key)
    'elif-after-taken-group': (False, 'pp:elif-after-taken-group-evaluated'),
    'if-short-circuit-div0': (False, 'pp:if-short-circuit-division-by-zero'),
    'if-unsigned': (False, 'pp:if-unsigned-arithmetic'),
    'if-stacked-unary': (False, 'pp:if-stacked-unary-operators'),
    'if-ternary-nested': (False, 'pp:if-ternary-right-associativity'),
    'if-ternary-cond-minus-zero': (False, 'pp:if-ternary-condition-zero-not-spelled-0'),
    'if-eq-rel-precedence': (False, 'pp:if-equality-relational-same-precedence'),
    'if-and-or-precedence': (False, 'pp:if-logical-and-or-same-precedence'),
    'paste-operators': (False, 'pp:paste-forming-operator'),
    'stringify-apostrophe': (False, 'pp:stringify-escapes-apostrophe'),
    'stringify-multichar-space': (False, 'pp:stringify-drops-space-after-multichar-token'),
    'stringify-expanded-argument': (False, 'pp:stringify-of-expanded-argument-spacing'),
    'lex-incdec-next-to-number': (False, 'pp:lex-incdec-next-to-number-split'),
    'lex-number-space-dot': (False, 'pp:lex-number-space-dot-merged'),
    'lex-shift-space-assign': (False, 'pp:lex-shift-space-assign-merged'),
    'U-of-file-defined-macro': (False, 'pp:U-hides-define-in-file'),
    'duplicate-D': (False, 'pp:duplicate-D-first-wins'),
    'computed-include': (False, 'pp:computed-include-keeps-comments'),
    'macro-cycles': (False, 'pp:painted-macro-re-expanded-through-nested-call'),
    'funmacro-bare-self-reference': (False, 'pp:painted-funmacro-reinvoked-after-object-macro'),
    'funmacro-call-formed-by-expansion': (False, 'pp:funmacro-call-formed-by-argument-expansion-not-invoked'),
    'lex-line-starting-with-lt-after-include': (False, 'pp:line-starting-with-lt-after-include'),
}


def allowed(name):
    return EXCL.get(name, (True, ''))[0]


IDENTS = ['a', 'b', 'c', 'x', 'y', 'z', 'foo', 'bar', 'int', 'p', 'q', 'n', 'i']
PUNCT = ['+', '-', '*', '/', '<', '>', '=', ',', ';', '==', '!=', '&&', '||', '<<', '>>', '+=', '->',
         '.', '&', '|', '^', '!', '~', '?', ':', '++', '--', '<=', '>=', '[', ']', '{', '}', '%']
STRINGS = ['"s"', '"a b"', '"x\\n"', '"q\\"q"', '""', '"a  b"', '"%d,%s"', 'L"w"', '"\\\\"', '"/*c*/"',
           '"//n"', '"it\'s"']
CHARS = ["'a'", "'\\n'", "'\\''", "'\"'", "' '", "L'x'", "'\\\\'", "'0'"]
NUMS = ['0', '1', '2', '3', '7', '10', '42', '255', '0x1F', '0x10', '1u', '2L', '3UL', '1.5', '2.0f', '1e3',
        '1.0e-3', '.5', '017', '100000', '0xffu', '1e+5']
INTS = ['0', '1', '2', '3', '4', '5', '7', '9', '10', '16', '42', '100', '255', '0x10', '0xff', '010']


class Case:
    def __init__(self):
        self.files = {}          # relative path -> text
        self.main = 'main.c'
        self.cpp = False
        self.opts = []           # abstract options: ('D', 'X=1') ('U', 'X') ('I', 'dir') ('include', 'file')
        self.features = set()

    def write(self, d):
        for rel, text in self.files.items():
            p = os.path.join(d, rel)
            os.makedirs(os.path.dirname(p), exist_ok=True)
            with open(p, 'w') as f:
                f.write(text)

    def cppcheck_args(self):
        out = []
        for k, v in self.opts:
            if k == 'D':
                out.append('-D' + v)
            elif k == 'U':
                out.append('-U' + v)
            elif k == 'I':
                out.append('-I' + v)
            elif k == 'Isep':
                out += ['-I', v]
            elif k == 'include':
                out.append('--include=' + v)
        return out

    def cc_args(self):
        out = []
        for k, v in self.opts:
            if k == 'D':
                out.append('-D' + v)
            elif k == 'U':
                out.append('-U' + v)
            elif k in ('I', 'Isep'):
                out += ['-I', v] if k == 'Isep' else ['-I' + v]
            elif k == 'include':
                out += ['-include', v]
        return out

    def digest_text(self):
        parts = []
        for rel in sorted(self.files):
            parts.append('== %s\n%s' % (rel, self.files[rel]))
        parts.append('== opts %r' % (self.opts,))
        return '\n'.join(parts)


class Gen:
    def __init__(self, rng, size=1.0):
        self.r = rng
        self.size = size
        self.case = Case()
        # macro tables: name -> info ; names are fixed per kind so that arity never changes
        self.obj = ['M%d' % i for i in range(6)]                 # object-like, arbitrary bodies
        self.num = ['N%d' % i for i in range(5)]                 # object-like, integer expressions
        self.cfg = ['C%d' % i for i in range(6)]                 # configuration macros (-D/-U, #ifdef)
        # function-like macros: the arity and the *kind* of every parameter are fixed per name, so that an
        # invocation written anywhere (before/after a redefinition, in another file) stays valid:
        #   'any'   parameter is only used plainly            -> arbitrary argument
        #   'str'   parameter may also be stringified          -> argument from the "stringify-safe" atoms
        #   'paste' parameter may also be pasted / stringified -> identifier, integer or empty argument
        self.fun = {}
        for n in range(0, 4):
            for i in range(2):
                self.fun['F%d_%d' % (n, i)] = {'n': n, 'variadic': False, 'va_str': False,
                                               'kinds': [rng.choice(['any', 'any', 'str', 'paste']) for _ in range(n)]}
        for n in range(0, 3):
            self.fun['V%d_0' % n] = {'n': n, 'variadic': True, 'va_str': rng.random() < 0.5,
                                     'kinds': [rng.choice(['any', 'str', 'paste']) for _ in range(n)]}
        order = self.num + self.cfg + ['F0_0', 'F0_1', 'F1_0', 'F1_1'] + self.obj + \
            [f for f in self.fun if f not in ('F0_0', 'F0_1', 'F1_0', 'F1_1')]
        self.rank = {n: i for i, n in enumerate(order)}
        self.cur = None                                          # macro whose body is being generated
        self.str_depth = 0                                       # >0 while generating a to-be-stringified argument
        self.numfun = {'SQ': 1, 'ADD': 2, 'MAX': 2}              # numeric function-like (fixed bodies)
        self.f = self.case.features


    # ---- pools; while a macro body is generated (self.cur) only lower-ranked macros and the macro itself may be
    # ---- referenced unless definition cycles are allowed (finding-keyed exclusion 'macro-cycles')
    def _lower(self, names):
        if self.cur is None or allowed('macro-cycles'):
            return list(names)
        rk = self.rank[self.cur]
        return [n for n in names if self.rank[n] < rk or n == self.cur]

    def objs(self):
        return self._lower(self.obj) or [self.ident()]

    def nums(self):
        return self._lower(self.num) or [self.r.choice(INTS)]

    def cfgs(self):
        return self._lower(self.cfg) or [self.r.choice(INTS)]

    def funs(self):
        return self._lower(list(self.fun))

    # ------------------------------------------------------------------ atoms
    def ident(self):
        return self.r.choice(IDENTS)

    def atom(self):
        r = self.r.random()
        if r < 0.35:
            return self.ident()
        if r < 0.55:
            t = self.r.choice(NUMS)
            if self.str_depth and not allowed('stringify-multichar-space') and ('.' in t or '+' in t or '-' in t):
                return self.r.choice(INTS)
            return t
        if r < 0.65:
            t = self.r.choice(STRINGS)
            if self.str_depth and ((not allowed('stringify-apostrophe') and "'" in t)
                                   or (not allowed('stringify-multichar-space') and not t.startswith('"'))):
                return '"s"'
            return t
        if r < 0.70:
            if self.str_depth and not allowed('stringify-apostrophe'):
                return self.ident()
            t = self.r.choice(CHARS)
            if self.str_depth and not allowed('stringify-multichar-space') and not t.startswith("'"):
                return "'a'"
            return t
        t = self.r.choice(PUNCT)
        if self.str_depth and len(t) > 1 and not allowed('stringify-multichar-space'):
            return t[0]
        return t

    def ws(self):
        """token separator inside generated lines"""
        r = self.r.random()
        if r < 0.8:
            return ' '
        if r < 0.88:
            return '  '
        if r < 0.93:
            return '\t'
        if r < 0.97:
            self.f.add('comment-in-line')
            return ' /* c */ '
        return ''  # caller must make sure that gluing is harmless: only used via join()

    GLUE = set('(),;[]{}')

    @staticmethod
    def _isnum(t):
        return t[:1].isdigit() or (t[:1] == '.' and t[1:2].isdigit())

    def sanitise(self, toks):
        """apply the finding-keyed *lexical* exclusions: separate token pairs cppcheck is known to mis-lex"""
        out = []
        for t in toks:
            if out:
                a = out[-1]
                bad = False
                if not allowed('lex-incdec-next-to-number'):
                    bad |= (a in ('++', '--') and self._isnum(t)) or (self._isnum(a) and t in ('++', '--'))
                if not allowed('lex-number-space-dot'):
                    bad |= (a == '.' and self._isnum(t)) or (self._isnum(a) and t[:1] == '.')
                if not allowed('lex-shift-space-assign'):
                    bad |= a in ('<<', '>>', '<', '>') and t in ('=', '==', '<=', '>=')
                if not allowed('funmacro-call-formed-by-expansion'):
                    # "F M" where M expands to "( ... )": the invocation only forms when the text is rescanned as
                    # part of another macro's argument
                    bad |= a in self.fun and (t in self.fun or t in self.obj or t in self.num or t in self.cfg)
                if bad:
                    out.append('k')
            out.append(t)
        # the same mis-lexing happens across line ends, and a line starting with '<' after an #include line
        # is rejected: keep such tokens away from both ends of every generated line
        if out and not allowed('lex-incdec-next-to-number'):
            if out[0] in ('++', '--'):
                out.insert(0, 'k')
            if out[-1] in ('++', '--'):
                out.append('k')
        if out and not allowed('lex-shift-space-assign'):
            if out[-1] in ('<<', '>>', '<', '>'):
                out.append('k')
        if out and not allowed('lex-line-starting-with-lt-after-include') and out[0][:1] == '<':
            out.insert(0, 'k')
        if out and not allowed('lex-number-space-dot') and (out[0][:1] == '.' or out[-1] == '.'):
            out = ['k'] + out + ['k']
        return out

    def join(self, toks):
        """join token spellings with random white space, never gluing two tokens into another one"""
        toks = self.sanitise(toks)
        out = []
        for i, t in enumerate(toks):
            if i:
                s = self.ws()
                if s == '' and not (toks[i - 1] in self.GLUE or t in self.GLUE):
                    s = ' '
                out.append(s)
            out.append(t)
        return ''.join(out)

    # ------------------------------------------------------------------ token lists
    def any_macro_ref(self):
        r = self.r.random()
        if r < 0.45:
            return [self.r.choice(self.objs())]
        if r < 0.6:
            return [self.r.choice(self.nums())]
        if r < 0.7:
            return [self.r.choice(self.cfgs())]
        return self.call(depth=1)

    def arg(self, depth, kind='any', outer=None):
        """one macro argument as a token list; outer = {kind: [names]} parameters of the macro being defined"""
        r = self.r
        if outer and r.random() < 0.4:
            ok = {'any': ['any', 'str', 'paste'], 'str': ['str', 'paste'], 'paste': ['paste']}[kind]
            if kind != 'any' and not allowed('stringify-expanded-argument'):
                ok = []       # a forwarded parameter is macro-expanded first; the inner macro would stringify/paste that
            cands = [p for k in ok for p in outer.get(k, [])]
            if cands:
                self.f.add('param-passed-to-inner-call')
                return [r.choice(cands)]
        if kind == 'paste':
            x = r.random()
            if x < 0.12:
                self.f.add('empty-arg')
                return []
            if x < 0.55:
                return [self.ident()]
            if x < 0.75:
                return [r.choice(INTS[:12])]
            if x < 0.9:
                return [r.choice(['M', 'N', 'C']) if r.random() < 0.5 else r.choice(self.objs())]
            return [self.ident(), r.choice(['+', '-', '*']), self.ident()]
        x = r.random()
        if x < 0.06:
            self.f.add('empty-arg')
            return []
        if kind == 'str':
            self.str_depth += 1
        n = r.choice([1, 1, 1, 2, 3, 4])
        out = []
        for _ in range(n):
            y = r.random()
            if y < 0.45:
                out.append(self.atom_noparen())
            elif y < 0.65:
                out += [r.choice(self.objs() + self.nums())]
            elif y < 0.8 and depth < 3:
                self.f.add('nested-call-in-arg')
                out += self.call(depth + 1, outer=outer)
            elif y < 0.9:
                self.f.add('paren-comma-arg')
                if out and out[-1] in self.fun:
                    out.append(self.ident())     # no accidental invocation with unchecked arguments
                out += ['('] + [self.ident(), ',', self.ident()] + [')']
            elif y < 0.95:
                out.append(r.choice(self.funs() or [self.ident()]))  # bare function-like name as argument
                self.f.add('funname-as-arg')
            else:
                out.append('"s"' if self.str_depth else r.choice(STRINGS))
        if kind == 'str':
            self.str_depth -= 1
        # a top-level comma would split the argument
        return out if self._balanced_no_top_comma(out) else [self.ident()]

    @staticmethod
    def _balanced_no_top_comma(toks):
        d = 0
        for t in toks:
            if t == '(':
                d += 1
            elif t == ')':
                d -= 1
                if d < 0:
                    return False
            elif t == ',' and d == 0:
                return False
        return d == 0

    def atom_noparen(self):
        while True:
            t = self.atom()
            if t not in ('(', ')', ',', '[', ']', '{', '}'):
                return t

    def call(self, depth=0, name=None, outer=None):
        """token list of a function-like macro invocation"""
        r = self.r
        if name is None:
            cands = self.funs()
            if r.random() < 0.15 or not cands:
                name = r.choice(list(self.numfun))
            else:
                name = r.choice(cands)
        if name in self.numfun:
            n = self.numfun[name]
            args = [[r.choice(INTS + self.nums())] for _ in range(n)]
        else:
            fi = self.fun[name]
            args = [self.arg(depth, fi['kinds'][i], outer) for i in range(fi['n'])]
            if fi['variadic']:
                k = r.choice([0, 1, 1, 2, 3])
                if k == 0 and fi['n'] == 0:
                    pass
                elif k == 0:
                    self.f.add('variadic-no-varargs')
                    if r.random() < 0.5:
                        args.append([])     # trailing comma: F(a,)
                else:
                    for _ in range(k):
                        args.append(self.arg(depth, 'str' if fi['va_str'] else 'any', outer))
        out = [name, '(']
        for i, a in enumerate(args):
            if i:
                out.append(',')
            out += a
        out.append(')')
        self.f.add('call')
        return out

    def body_tokens(self, n, params=(), depth=0, variadic=False, outer=None):
        r = self.r
        out = []
        for _ in range(n):
            x = r.random()
            if params and x < 0.3:
                out.append(r.choice(params))
            elif variadic and x < 0.4:
                out.append('__VA_ARGS__')
            elif x < 0.6:
                out.append(self.atom_noparen())
            elif x < 0.78:
                out += [r.choice(self.objs() + self.nums() + self.cfgs())]
            elif x < 0.9 and depth < 2:
                out += self.call(depth + 1, outer=outer)
            elif x < 0.95:
                if out and out[-1] in self.fun:
                    out.append(self.ident())     # no accidental invocation with unchecked arguments
                out += ['(', self.atom_noparen(), r.choice(['+', '*', ',']), self.atom_noparen(), ')']
            else:
                cands = self.funs()
                if not allowed('funmacro-bare-self-reference'):
                    cands = [c for c in cands if c != self.cur]
                # bare function-like name: may pull in "( ... )" after the macro
                out.append(r.choice(cands or [self.ident()]))
                self.f.add('bare-funname-in-body')
        return out

    # ------------------------------------------------------------------ directives
    def define_obj(self):
        r = self.r
        name = r.choice(self.obj)
        self.cur = name
        x = r.random()
        if x < 0.12:
            self.f.add('self-ref-macro')
            body = [self.atom_noparen(), name, self.atom_noparen()] if r.random() < 0.5 else [name, '+', '1']
        elif x < 0.2:
            self.f.add('mutual-recursion' if allowed('macro-cycles') else 'macro-chain')
            other = r.choice(self.objs())
            body = [other, r.choice(['+', ',', '*']), self.ident()]
        elif x < 0.27:
            body = []
            self.f.add('empty-macro')
        elif x < 0.35:
            # body ends in a function-like macro name: following "(...)" in the text is pulled in
            body = self.body_tokens(r.randint(0, 2)) + [r.choice(self.funs() or [self.ident()])]
            self.f.add('obj-ends-in-funname')
        else:
            body = self.body_tokens(r.randint(1, 5))
        self.cur = None
        return self._define_line(name, None, body)

    def define_num(self):
        r = self.r
        name = r.choice(self.num)
        self.cur = name
        x = r.random()
        if x < 0.5:
            body = [r.choice(INTS)]
        elif x < 0.8:
            body = ['(', r.choice(INTS + self.nums()), r.choice(['+', '-', '*', '<<', '|', '&']), r.choice(INTS[:8]), ')']
        else:
            body = self.call(name=r.choice(list(self.numfun)))
            if not allowed('macro-cycles'):
                # no self-reference through an argument either (same finding: a painted name passed on as an argument)
                body = [('7' if t == name else t) for t in body]
        self.cur = None
        return self._define_line(name, None, body)

    NUMFUN_PRELUDE = ['#define SQ(x) ((x)*(x))', '#define ADD(x,y) ((x)+(y))', '#define MAX(x,y) ((x)>(y)?(x):(y))']

    def define_fun(self):
        r = self.r
        name = r.choice(list(self.fun))
        self.cur = name
        fi = self.fun[name]
        n, variadic, kinds = fi['n'], fi['variadic'], fi['kinds']
        pnames = ['p%d' % i for i in range(n)] if r.random() < 0.7 else ['a', 'b', 'c'][:n]
        outer = {}
        for p, k in zip(pnames, kinds):
            outer.setdefault(k, []).append(p)
        strable = outer.get('str', []) + outer.get('paste', [])
        pastable = outer.get('paste', [])
        body = []
        for _ in range(r.randint(1, 4)):
            x = r.random()
            if strable and x < 0.22:
                p = r.choice(strable)
                body += ['#', p] if r.random() < 0.8 else ['#' + p]
                self.f.add('stringify')
            elif x < 0.45:
                body += self.paste(pastable)
            elif variadic and x < 0.65:
                y = r.random()
                if y < 0.3 and fi['va_str']:
                    body += ['#', '__VA_ARGS__']
                    self.f.add('stringify-va-args')
                elif y < 0.6:
                    body += [self.ident(), '(', '__VA_ARGS__', ')']
                elif y < 0.8 and allowed('va-opt'):
                    body += ['__VA_OPT__', '('] + [self.atom_noparen(), ','][:r.randint(1, 2)] + [')', '__VA_ARGS__']
                    self.f.add('va-opt')
                else:
                    body += ['__VA_ARGS__']
                self.f.add('va-args')
            else:
                body += self.body_tokens(r.randint(1, 3), tuple(pnames), depth=1, variadic=variadic, outer=outer)
        params = list(pnames) + (['...'] if variadic else [])
        self.cur = None
        return self._define_line(name, params, body)

    def paste(self, pastable):
        """tokens `L ## R` whose result is always one valid token for arguments of kind 'paste'"""
        r = self.r
        self.f.add('paste')

        def operand(side):
            x = r.random()
            if pastable and x < 0.6:
                return r.choice(pastable)
            if x < 0.8 or side == 'L':
                if self.cur is not None and not allowed('macro-cycles') and self.rank[self.cur] < self.rank['M0']:
                    return r.choice(['N', 'C', 'x', 'foo', 'pre_'])     # a pasted name must not close a cycle
                return r.choice(['M', 'N', 'C', 'x', 'foo', 'F1_', 'pre_'])
            return r.choice(['0', '1', '2', '_t', 'x'])
        if r.random() < 0.08 and allowed('paste-operators'):
            self.f.add('paste-operators')
            a, b = r.choice([('<', '<'), ('+', '+'), ('-', '>'), ('=', '='), ('&', '&'), ('<<', '='), ('!', '=')])
            return [a, '##', b]
        toks = [operand('L'), '##', operand('R')]
        if r.random() < 0.2:
            toks += ['##', operand('R')]
            self.f.add('paste-chain')
        return toks

    def _define_line(self, name, params, body):
        r = self.r
        head = '#define ' if r.random() < 0.85 else r.choice(['# define ', '#  define  ', '#define\t'])
        s = head + name
        if params is not None:
            s += '(' + (', ' if r.random() < 0.5 else ',').join(params) + ')'
        text = self.join(body)
        if text and r.random() < 0.12 and len(body) > 2:
            # line continuation somewhere between two tokens
            body = self.sanitise(body)
            k = r.randint(1, len(body) - 1)
            text = self.join(body[:k]) + ' \\\n    ' + self.join(body[k:])
            self.f.add('line-continuation')
        if text:
            s += ' ' + text
        if r.random() < 0.06:
            s += ' // trailing comment'
        return s

    # ------------------------------------------------------------------ #if expressions
    REL = ('<', '>', '<=', '>=')
    EQ = ('==', '!=')

    def expr(self, depth=0, nodef=False):
        return self._expr(depth, nodef)

    _OPRE = re.compile(r'<<|>>|<=|>=|==|!=|&&|\|\||[-+*/%<>&^|?:]')

    @classmethod
    def _exposed_ops(cls, e):
        """binary operators of e outside any parentheses"""
        d, out, i = 0, set(), 0
        flat = []
        for ch in e:
            if ch == '(':
                d += 1
            elif ch == ')':
                d -= 1
            flat.append(ch if d == 0 and ch not in '()' else ' ')
        for m in cls._OPRE.finditer(''.join(flat)):
            out.add(m.group())
        return out

    def _binary(self, a, op, b):
        """a op b; operands are parenthesised where cppcheck is known to apply a wrong precedence"""
        oa, ob = self._exposed_ops(a), self._exposed_ops(b)
        ops = oa | ob | {op}
        wrap = False
        if not allowed('if-eq-rel-precedence'):
            wrap |= bool(ops & set(self.EQ)) and bool(ops & set(self.REL))
        if not allowed('if-and-or-precedence'):
            wrap |= '&&' in ops and '||' in ops
        if wrap:
            a = '(' + a + ')' if oa else a
            b = '(' + b + ')' if ob else b
        elif oa or ob:
            self.f.add('if-unparenthesised-precedence')
        return '%s %s %s' % (a, op, b)

    def _expr(self, depth=0, nodef=False):
        r = self.r
        x = r.random()
        if depth >= 3 or x < 0.25:
            y = r.random()
            if y < 0.45:
                return r.choice(INTS)
            if y < 0.7:
                return r.choice(self.num)
            if y < 0.8:
                return r.choice(self.cfg)
            if y < 0.86:
                self.f.add('if-undefined-ident')
                return r.choice(['undefined_id', 'zz', 'foo'])
            if y < 0.92:
                self.f.add('if-char-const')
                return r.choice(["'a'", "'0'", "'\\n'"])
            if allowed('if-unsigned'):
                self.f.add('if-unsigned')
                return r.choice(['0u', '1u', '2U', '10UL'])
            return r.choice(INTS)
        if x < 0.42 and not nodef:
            self.f.add('if-defined')
            m = r.choice(self.cfg + self.cfg + self.num + self.obj)
            return r.choice(['defined(%s)', 'defined %s', 'defined ( %s )', '!defined(%s)']) % m
        if x < 0.5:
            return '(' + self.expr(depth + 1, nodef) + ')'
        if x < 0.58:
            operand = self.expr_prim(depth + 1, nodef)
            if not operand.isalnum() or operand in self.num or operand in self.cfg:
                # operand is itself an operator expression or a macro that may expand to one
                if not allowed('if-stacked-unary'):
                    operand = r.choice(INTS + ['zz'])
                else:
                    self.f.add('if-stacked-unary')
            uop = r.choice(['!', '-', '~', '+'])
            if uop == '-' and not allowed('if-ternary-cond-minus-zero'):
                operand = r.choice([i for i in INTS if i.strip('0x')])      # "-0" is not recognised as zero by ?:
            return uop + operand
        if x < 0.64:
            self.f.add('if-ternary')
            if r.random() < 0.3 and allowed('if-ternary-nested'):
                self.f.add('if-ternary-nested')
                return '(%s ? %s : %s ? %s : %s)' % tuple(self.expr(depth + 2, nodef) for _ in range(5))
            cond = self.expr(depth + 1, nodef)
            if cond.lstrip('( ')[:1] == '-' and not allowed('if-ternary-cond-minus-zero'):
                cond = r.choice(INTS + self.num)
            return '(%s ? %s : %s)' % (cond, self.expr(depth + 1, nodef), self.expr(depth + 1, nodef))
        if x < 0.70:
            self.f.add('if-short-circuit')
            if r.random() < 0.5 and allowed('if-short-circuit-div0'):
                self.f.add('if-short-circuit-div0')
                return '(0 && (1/0))' if r.random() < 0.5 else '(%s || 1 || (1/0))' % self.expr(depth + 1, nodef)
            if nodef:
                return '(%s && %s)' % (self.expr(depth + 1, nodef), self.expr(depth + 1, nodef))
            m = r.choice(self.cfg + self.num)
            return '(defined(%s) && %s %s %s)' % (m, m, r.choice(['>', '==', '<', '>=']), r.choice(INTS[:8]))
        if x < 0.76:
            self.f.add('if-funmacro')
            f = r.choice(list(self.numfun))
            return '%s(%s)' % (f, ', '.join(self.expr(depth + 2, True) for _ in range(self.numfun[f])))
        if x < 0.82:
            self.f.add('if-div')
            return '(%s %s %s)' % (self.expr(depth + 1, nodef), r.choice(['/', '%']), r.choice(['1', '2', '3', '7', '(%s | 1)' % self.expr(depth + 2, nodef)]))
        if x < 0.87:
            return '(%s %s %s)' % (self.expr(depth + 1, nodef), r.choice(['<<', '>>']), r.choice(['0', '1', '2', '3', '5']))
        op = r.choice(['+', '-', '*', '<', '>', '<=', '>=', '==', '!=', '&', '^', '|', '&&', '||'])
        return self._binary(self.expr(depth + 1, nodef), op, self.expr(depth + 1, nodef))

    def expr_prim(self, depth, nodef=False):
        e = self.expr(depth, nodef)
        return e if e.isalnum() else '(' + e + ')'

    # ------------------------------------------------------------------ text
    def text_line(self):
        r = self.r
        n = r.randint(1, 6)
        toks = []
        for _ in range(n):
            x = r.random()
            if x < 0.4:
                toks += self.any_macro_ref()
            elif x < 0.5:
                # object-like macro followed by an argument list: matters when it ends in a function-like name
                toks += [r.choice(self.obj), '(', self.ident(), ')']
            elif x < 0.55:
                # function-like macro name NOT followed by '(' is not an invocation
                toks += [r.choice(list(self.fun)), r.choice([';', '+', self.ident()])]
                self.f.add('funname-without-call')
            else:
                toks.append(self.atom_noparen())
        line = self.join(toks)
        if r.random() < 0.08:
            line += ' // comment ' + r.choice(self.obj)
        if r.random() < 0.05:
            line = '/* ' + r.choice(self.obj) + ' */ ' + line
        return line

    def multiline_call(self):
        c = self.call()
        self.f.add('multiline-call')
        # split after some tokens
        k = self.r.randint(1, len(c) - 1)
        k2 = self.r.randint(k, len(c) - 1)
        parts = [c[:k], c[k:k2], c[k2:]]
        return '\n'.join(self.join(p) for p in parts if p) + ' ;'

    # ------------------------------------------------------------------ blocks
    def block(self, depth, budget, hdr_index):
        """list of lines"""
        r = self.r
        lines = []
        for _ in range(budget):
            x = r.random()
            if x < 0.30:
                lines.append(self.text_line())
            elif x < 0.42:
                lines.append(self.define_obj())
            elif x < 0.55:
                lines.append(self.define_fun())
            elif x < 0.62:
                lines.append(self.define_num())
            elif x < 0.65:
                lines.append(self.text_line())
            elif x < 0.70:
                self.f.add('undef')
                lines.append('#undef ' + r.choice(self.obj + self.num + self.cfg + list(self.fun)[:6]))
            elif x < 0.74:
                lines.append(self.multiline_call())
            elif x < 0.82:
                inc = self.include_line(hdr_index)
                if inc:
                    lines.append(inc)
            elif depth < 3:
                lines += self.conditional(depth, hdr_index)
            else:
                lines.append(self.text_line())
        return lines

    def conditional(self, depth, hdr_index):
        r = self.r
        lines = []
        x = r.random()
        if x < 0.25:
            lines.append('#ifdef ' + r.choice(self.cfg + self.obj + self.num))
            self.f.add('ifdef')
        elif x < 0.4:
            lines.append('#ifndef ' + r.choice(self.cfg + self.obj + self.num))
            self.f.add('ifndef')
        else:
            lines.append(('#if ' if r.random() < 0.9 else '# if ') + self.expr())
            self.f.add('if-expr')
        lines += self.block(depth + 1, r.randint(1, 3), hdr_index)
        if r.random() < 0.04 and allowed('elif-after-taken-group'):
            # "#if 1" group is certainly taken: a conforming preprocessor does not evaluate the #elif
            self.f.add('elif-after-taken-group')
            return (['#if 1'] + lines + ['#endif', '#elif NOT_A_MACRO(1) > 2', self.text_line(), '#endif'])
        for _ in range(r.choice([0, 0, 0, 1, 1, 2])):
            lines.append('#elif ' + self.expr())
            self.f.add('elif')
            lines += self.block(depth + 1, r.randint(1, 2), hdr_index)
        if r.random() < 0.55:
            lines.append('#else' if r.random() < 0.9 else '#else /* not */')
            self.f.add('else')
            lines += self.block(depth + 1, r.randint(1, 3), hdr_index)
        lines.append('#endif' if r.random() < 0.9 else '#endif // done')
        return lines

    # ------------------------------------------------------------------ headers
    def plan_headers(self):
        """decide the header set: list of dicts {rel, spell:[(form, text)], guard}"""
        r = self.r
        self.headers = []
        self.incdirs = []
        n = r.choice([0, 1, 2, 3, 4])
        if r.random() < 0.75:
            self.incdirs.append('inc/a')
        if r.random() < 0.5:
            self.incdirs.append('inc/b')
        for i in range(n):
            place = r.choice(['same', 'same', 'sub', 'inc', 'inc', 'both', 'twoinc'])
            name = 'h%d.h' % i
            h = {'i': i, 'name': name, 'guard': r.choice([None, None, 'ifndef', 'ifndef', 'if-not-defined']),
                 'copies': []}
            if place == 'same':
                h['copies'] = [name]
                h['spell'] = ['"%s"' % name]
            elif place == 'sub':
                h['copies'] = ['sub/' + name]
                h['spell'] = ['"sub/%s"' % name]
            elif place == 'inc' and self.incdirs:
                d = r.choice(self.incdirs)
                h['copies'] = [d + '/' + name]
                h['spell'] = ['"%s"' % name, '<%s>' % name]
                self.f.add('include-via-I')
            elif place == 'both' and self.incdirs:
                # a copy next to the source and a different one in an -I directory: "" vs <> differ
                d = r.choice(self.incdirs)
                h['copies'] = [name, d + '/' + name]
                h['spell'] = ['"%s"' % name, '<%s>' % name]
                self.f.add('include-quote-vs-angle')
            elif place == 'twoinc' and len(self.incdirs) == 2:
                h['copies'] = ['inc/a/' + name, 'inc/b/' + name]
                h['spell'] = ['"%s"' % name, '<%s>' % name]
                self.f.add('include-I-order')
            else:
                h['copies'] = [name]
                h['spell'] = ['"%s"' % name]
            self.headers.append(h)
        r.shuffle(self.incdirs)

    def include_line(self, from_index):
        """an #include of a header with a larger index than the including one (no cycles)"""
        r = self.r
        cands = [h for h in self.headers if h['i'] > from_index]
        if not cands:
            return None
        h = r.choice(cands)
        # a header in sub/ or inc/ includes siblings relative to its own directory: only use spellings
        # that resolve from anywhere unless the including file is the main source
        spells = h['spell']
        if from_index >= 0:
            inc = self.headers[from_index]
            here = os.path.dirname(inc['copies'][0])
            spells = [s for s in spells if s.startswith('<')]
            if not spells:
                # "x.h" resolves relative to the including header's directory
                if all(os.path.dirname(c) == here for c in h['copies']) and len(inc['copies']) == 1:
                    spells = ['"%s"' % h['name']]
                    self.f.add('include-relative-to-header')
                else:
                    return None
        s = r.choice(spells)
        self.f.add('include')
        x = r.random()
        if x < 0.1 and allowed('computed-include'):
            self.f.add('computed-include')
            return '#define INCFILE %s\n#include INCFILE' % s
        if x < 0.2:
            return '#  include  %s' % s
        if x < 0.25:
            return '#include%s' % s
        return '#include %s' % s

    def header_text(self, h, copy_rel, copy_no):
        r = self.r
        lines = []
        tag = copy_rel.replace('/', '_').replace('.', '_')
        body = ['int in_%s ;' % tag] + self.block(1, r.randint(1, 4), h['i'])
        if h['guard'] == 'ifndef':
            g = 'G_%s' % tag.upper()
            lines = ['#ifndef ' + g, '#define ' + g] + body + ['#endif']
            self.f.add('include-guard')
        elif h['guard'] == 'if-not-defined':
            g = 'G_%s' % tag.upper()
            lines = ['#if !defined(%s)' % g, '#define ' + g] + body + ['#endif']
            self.f.add('include-guard')
        else:
            lines = body
        return '\n'.join(lines) + '\n'

    def multi_inclusion(self):
        """X-macro idiom: an unguarded header with an #if/#elif/#else chain on a selector, included several times
        with a different selector each time (every inclusion is a new traversal of the same header text)"""
        r = self.r
        self.f.add('multi-inclusion')
        n = r.randint(2, 4)
        by_define = r.random() < 0.35
        hl = []
        for k in range(1, n + 1):
            kw = '#if' if k == 1 else '#elif'
            hl.append('%s defined(XSEL%d)' % (kw, k) if by_define else '%s XSEL == %d' % (kw, k))
            hl.append('int xm_group_%d ;' % k)
            if r.random() < 0.4:
                hl.append(self.text_line())
            if r.random() < 0.2:
                hl += ['#if XSEL_INNER', 'int xm_inner_%d ;' % k, '#else', 'int xm_noinner_%d ;' % k, '#endif']
        if r.random() < 0.7:
            hl += ['#else', 'int xm_group_other ;']
        hl.append('#endif')
        if not by_define:
            hl.append('#undef XSEL')
        self.case.files['xm.h'] = '\n'.join(hl) + '\n'
        out = []
        seq = [r.randint(1, n + 1) for _ in range(r.randint(2, 5))]
        for k in seq:
            if by_define:
                out.append('#define XSEL%d' % k)
            else:
                out.append('#define XSEL %d' % k)
            inner = r.random() < 0.3
            if inner:
                out.append('#define XSEL_INNER %d' % r.randint(0, 1))
            out.append('#include "xm.h"')
            if by_define:
                out.append('#undef XSEL%d' % k)
            if inner:
                out.append('#undef XSEL_INNER')
            if r.random() < 0.3:
                out.append(self.text_line())
        return out

    # ------------------------------------------------------------------ options
    def options(self):
        r = self.r
        opts = []
        dnames = []
        # at least one -D: exactly the user's configuration is preprocessed
        pool = self.cfg + self.cfg + self.num + self.obj[:3]
        for _ in range(r.choice([1, 1, 2, 3, 4])):
            name = r.choice(pool)
            if name in dnames and not allowed('duplicate-D'):
                continue
            x = r.random()
            if x < 0.35:
                v = name
            elif x < 0.75:
                v = '%s=%s' % (name, r.choice(INTS))
            elif x < 0.82 and name in self.obj:
                v = name + '='
                self.f.add('D-empty-value')
            elif x < 0.92 and name in self.obj:
                self.cur = name
                v = '%s=%s' % (name, self.join(self.body_tokens(r.randint(1, 3))))
                self.cur = None
                self.f.add('D-token-list')
            else:
                self.cur = name
                v = '%s=%s' % (name, r.choice(self.nums() + self.cfgs()))
                self.cur = None
                self.f.add('D-macro-chain')
            if ';' in v:
                v = '%s=%s' % (name, r.choice(INTS))   # ';' separates defines inside cppcheck (documented)
            dnames.append(name)
            opts.append(('D', v))
        if r.random() < 0.15 and allowed('D-function-like'):
            opts.append(('D', 'DF(x)=x %s 1' % r.choice(['+', '*'])))
            self.f.add('D-function-like')
            self.fun_d = True
        for _ in range(r.choice([0, 0, 1, 1, 2])):
            name = r.choice(self.cfg + self.num if allowed('U-of-file-defined-macro') else self.cfg)
            opts.append(('U', name))          # after every -D: the order gcc needs for "-U wins"
            self.f.add('U-after-D' if name in dnames else 'U')
        for d in self.incdirs:
            opts.append((r.choice(['I', 'I', 'Isep']), d if r.random() < 0.7 else d + '/'))
        if r.random() < 0.3:
            self.f.add('forced-include')
            rel = r.choice(['forced.h', 'inc/forced.h'])
            self.case.files[rel] = ('int in_forced ;\n' + '\n'.join(self.NUMFUN_PRELUDE) + '\n'
                                    + '\n'.join(self.block(1, r.randint(1, 3), 10 ** 6)) + '\n')
            opts.append(('include', rel))
        r.shuffle(opts)
        # keep every -U behind the -D options (gcc processes -D/-U in order, cppcheck as sets)
        opts = [o for o in opts if o[0] != 'U'] + [o for o in opts if o[0] == 'U']
        self.case.opts = opts

    # ------------------------------------------------------------------ whole case
    def gen(self):
        r = self.r
        self.plan_headers()
        self.options()
        # headers are generated from the highest index down so that included ones exist conceptually
        for h in self.headers:
            for k, rel in enumerate(h['copies']):
                self.case.files[rel] = self.header_text(h, rel, k)
        budget = max(3, int(r.randint(5, 14) * self.size))
        lines = list(self.NUMFUN_PRELUDE) + self.block(0, budget, -1)
        if getattr(self, 'fun_d', False):
            lines.append('DF(3) DF(a b)')
        if r.random() < 0.35:
            lines += self.multi_inclusion()
        # make sure every case expands something
        lines.append(self.text_line())
        lines.append(self.join(self.call()) + ' ;')
        if r.random() < 0.2:
            self.case.main, self.case.cpp = 'main.cpp', True       # same text preprocessed as C++
            self.f.add('c++-source')
        self.case.files[self.case.main] = '\n'.join(lines) + '\n'
        return self.case


def gen(rng, size=1.0):
    return Gen(rng, size).gen()
