"""addongen — scripts for the scripted addon (/verif/harness/scripted_addon.py) plus an executable
reading of what cppcheck has to do with each addon output line (lib/cppcheck.cpp executeAddon /
executeAddons, documented in the comments there and in addons/cppcheckdata.py reportError()).

All texts are python `str` in which undecodable bytes are carried as surrogate escapes ("sstr"):
`enc(s)` gives the bytes, `dec(b)` the sstr.
"""
import base64
import json
import os

HARNESS = os.path.join(os.path.dirname(os.path.dirname(os.path.dirname(os.path.abspath(__file__)))), 'harness')
ADDON_EXE = os.path.join(HARNESS, 'scripted_addon.py')

INT64_MIN, INT64_MAX = -2 ** 63, 2 ** 63 - 1
SEVERITIES = ['error', 'warning', 'style', 'performance', 'portability', 'information']


def enc(s):
    return s.encode('utf-8', 'surrogateescape') if isinstance(s, str) else s


def dec(b):
    return b.decode('utf-8', 'surrogateescape') if isinstance(b, bytes) else b


# ------------------------------------------------------------------ JSON writer (bytes-faithful)
def jstr(s, rng=None):
    """JSON string literal for sstr `s`: raw bytes for everything >= 0x20 except '"' and '\\';
    control characters as \\u00XX (or the short escapes)."""
    out = bytearray(b'"')
    short = {0x08: b'\\b', 0x09: b'\\t', 0x0a: b'\\n', 0x0c: b'\\f', 0x0d: b'\\r'}
    for c in enc(s):
        if c == 0x22:
            out += b'\\"'
        elif c == 0x5c:
            out += b'\\\\'
        elif c < 0x20:
            if c in short and (rng is None or rng.random() < 0.5):
                out += short[c]
            else:
                out += b'\\u%04x' % c
        else:
            out.append(c)
    out += b'"'
    return bytes(out)


def jdump(o, rng=None):
    """compact JSON text (bytes) of a python object; dict order preserved"""
    if o is None:
        return b'null'
    if o is True:
        return b'true'
    if o is False:
        return b'false'
    if isinstance(o, int):
        return b'%d' % o
    if isinstance(o, float):
        return repr(o).encode()
    if isinstance(o, str):
        return jstr(o, rng)
    if isinstance(o, (list, tuple)):
        return b'[' + b','.join(jdump(x, rng) for x in o) + b']'
    if isinstance(o, dict):
        sep = b', ' if rng is not None and rng.random() < 0.5 else b','
        return b'{' + sep.join(jstr(k, rng) + b':' + jdump(v, rng) for k, v in o.items()) + b'}'
    raise TypeError(type(o))


# ------------------------------------------------------------------ script files / logs
class Script:
    """what the scripted addon prints: per source file, for the whole-program call, default"""

    def __init__(self):
        self.files = {}      # source name -> (list of raw line bytes, exit code)
        self.ctu = None      # (lines, exit)
        self.default = None

    @staticmethod
    def _entry(e):
        lines, code = e
        return {'lines_b64': [base64.b64encode(enc(l)).decode() for l in lines], 'exit': code}

    def to_json(self):
        d = {'files': {k: self._entry(v) for k, v in self.files.items()}}
        if self.ctu is not None:
            d['ctu'] = self._entry(self.ctu)
        if self.default is not None:
            d['default'] = self._entry(self.default)
        return d

    def write(self, path):
        with open(path, 'w') as f:
            json.dump(self.to_json(), f)

    def digest_text(self):
        return json.dumps(self.to_json(), sort_keys=True)


def write_addon_json(dirpath, name='scr.json', ctu=True):
    p = os.path.join(dirpath, name)
    with open(p, 'w') as f:
        json.dump({'executable': ADDON_EXE, 'ctu': bool(ctu)}, f)
    return p


def read_log(path):
    """-> list of invocation records; ctu_files decoded to bytes"""
    out = []
    if not os.path.exists(path):
        return out
    for l in open(path):
        l = l.strip()
        if not l:
            continue
        r = json.loads(l)
        if 'ctu_files' in r:
            r['ctu_files'] = {k: (base64.b64decode(v) if v is not None else None)
                              for k, v in r['ctu_files'].items()}
        out.append(r)
    return out


# ------------------------------------------------------------------ message model (ErrorMessage::setmsg)
def _wordch(c):
    return c == '_' or (c.isascii() and c.isalnum())


def replace_symbol(s, to):
    """replaceStr(s, "$symbol", to) of lib/errorlogger.cpp: whole-word occurrences only"""
    frm = '$symbol'
    pos = 0
    while pos < len(s):
        pos = s.find(frm, pos)
        if pos < 0:
            return s
        if pos > 0 and _wordch(s[pos - 1]):
            pos += 1
            continue
        pos2 = pos + len(frm)
        if pos2 >= len(s):
            return s[:pos] + to
        if _wordch(s[pos2]):
            pos += 1
            continue
        s = s[:pos] + to + s[pos2:]
        pos += len(to)
    return s


def setmsg(raw):
    """-> (short, verbose, [symbol names]) as documented in lib/errorlogger.h: leading
    `$symbol:NAME\\n` lines give symbol names, the first newline separates the short from the
    verbose message, `$symbol` in the text stands for the first symbol name."""
    symbols = ''
    msg = raw
    while True:
        pos = msg.find('\n')
        first = symbols.split('\n')[0] if symbols else ''
        if pos < 0:
            t = replace_symbol(msg, first)
            short, verbose = t, t
            break
        if msg.startswith('$symbol:'):
            symbols += msg[8:pos + 1]
            msg = msg[pos + 1:]
            continue
        short = replace_symbol(msg[:pos], first)
        verbose = replace_symbol(msg[pos + 1:], first)
        break
    syms = []
    if symbols:
        syms = symbols.split('\n')
        if syms and syms[-1] == '':
            syms.pop()
    return short, verbose, syms


def fix_invalid_chars(s):
    """ErrorMessage::fixInvalidChars: every byte outside 0x20..0x7e becomes \\ooo (documented in
    the comment above the function: 'strings should at least be safe for tinyxml2')"""
    out = []
    for c in enc(s):
        if 0x20 <= c <= 0x7e:
            out.append(chr(c))
        else:
            out.append('\\%03o' % c)
    return ''.join(out)


# ------------------------------------------------------------------ expected finding
class EF:
    """a finding cppcheck has to report for an addon output object.
    locs: [(file, line, column, info)] in call-stack order (LAST = primary location)."""
    __slots__ = ('id', 'severity', 'short', 'verbose', 'symbols', 'locs', 'cwe', 'hash', 'file0',
                 'inconclusive', 'remark', 'tag')

    def __init__(self, id, severity, short, verbose, symbols, locs, cwe=0, hash=0, file0='',
                 inconclusive=False, remark='', tag=None):
        self.id = id
        self.severity = severity
        self.short = short
        self.verbose = verbose
        self.symbols = list(symbols)
        self.locs = list(locs)
        self.cwe = cwe
        self.hash = hash
        self.file0 = file0
        self.inconclusive = inconclusive
        self.remark = remark
        self.tag = tag

    def primary(self):
        return self.locs[-1] if self.locs else None

    def xml_key(self, with_file0=True):
        """canonical tuple as the XML report has to carry it (ErrorMessage::toXML)"""
        locs = tuple((l[0], max(l[1], 0), l[2], fix_invalid_chars(l[3])) for l in reversed(self.locs))
        k = (self.id, self.severity, self.inconclusive, fix_invalid_chars(self.short),
             fix_invalid_chars(self.verbose), locs, tuple(self.symbols), str(self.cwe) if self.cwe else '',
             str(self.hash) if self.hash else '', fix_invalid_chars(self.remark))
        if with_file0:
            k += (self.file0,)
        return k

    def digest_src(self):
        return repr((self.id, self.severity, self.short, self.verbose, self.symbols, self.locs, self.cwe,
                     self.hash))

    def __repr__(self):
        return 'EF(%r %s %r @%r cwe=%r hash=%r)' % (self.id, self.severity, self.short[:60], self.locs[-3:],
                                                  self.cwe, self.hash)


class Mismatch(Exception):
    """picojson get<T>() type mismatch: the conversion of this line throws"""


def _is_int(v):
    return type(v) is int and INT64_MIN <= v <= INT64_MAX


def _need(o, k, kind):
    v = o.get(k)
    if kind == 'str':
        if not isinstance(v, str):
            raise Mismatch('%s is not a string' % k)
    elif kind == 'int':
        if not _is_int(v):
            raise Mismatch('%s is not an integer' % k)
    elif kind == 'obj':
        if not isinstance(v, dict):
            raise Mismatch('%s is not an object' % k)
    elif kind == 'arr':
        if not isinstance(v, list):
            raise Mismatch('%s is not an array' % k)
    return v


def convert(o, file0, enabled_severities):
    """What executeAddons has to do with one JSON object `o` of an addon's output.
    -> ('summary', o) | ('metric', o) | ('skip', reason) | ('finding', EF);  raises Mismatch."""
    if 'summary' in o:
        return ('summary', o)
    locs = []
    if 'file' in o:
        f = _need(o, 'file', 'str')
        ln = _need(o, 'linenr', 'int')
        col = _need(o, 'column', 'int')
        locs.append((f, ln, col, ''))
    elif 'loc' in o:
        for l in _need(o, 'loc', 'arr'):
            if not isinstance(l, dict):
                raise Mismatch('loc entry is not an object')
            locs.append((_need(l, 'file', 'str'), _need(l, 'linenr', 'int'), _need(l, 'column', 'int'),
                         _need(l, 'info', 'str')))
    if 'metric' in o:
        _need(o, 'metric', 'obj')
        return ('metric', o)
    fid = _need(o, 'addon', 'str') + '-' + _need(o, 'errorId', 'str')
    msg = _need(o, 'message', 'str')
    sev = _need(o, 'severity', 'str')
    if sev not in SEVERITIES + ['debug']:
        return ('skip', 'unknown-severity')
    if sev != 'error' and sev not in enabled_severities:
        return ('skip', 'severity-not-enabled')
    cwe = 0
    h = 0
    if 'cwe' in o:
        cwe = _need(o, 'cwe', 'int')
    if 'hash' in o:
        h = _need(o, 'hash', 'int')
    short, verbose, syms = setmsg(msg)
    return ('finding', EF(fid, sev, short, verbose, syms, locs, cwe, h, file0))


# outcome of one addon invocation -------------------------------------------------------------
class Outcome:
    def __init__(self):
        self.findings = []      # EF in order
        self.summaries = []     # objects
        self.metrics = 0
        self.internal_error = None   # reason text or None
        self.skipped = {}       # reason -> count


def parse_line(line):
    """executeAddon's validation of one output line (bytes) ->
    ('skip', why) | ('bail', why) | ('obj', python object)"""
    if line == b'':
        return ('skip', 'empty-line')
    if line.startswith(b'Checking '):
        return ('skip', 'checking-line')
    if line[:1] != b'{':
        return ('bail', 'line-not-json-object')
    try:
        o, _end = json.JSONDecoder().raw_decode(dec(line))
    except (ValueError, RecursionError):
        return ('skip', 'invalid-json')
    if not isinstance(o, dict):
        return ('skip', 'not-an-object')
    return ('obj', o)


def model_invocation(lines, exitcode, file0, enabled_severities):
    """Expected effect of one addon invocation that printed `lines` (list of bytes) and exited with
    `exitcode`: non-zero exit or a non-JSON line => nothing relayed, one internalError; type
    mismatch in a line => lines before it relayed, one internalError."""
    out = Outcome()
    if exitcode != 0:
        out.internal_error = 'exitcode'
        return out
    objs = []
    for l in lines:
        k, v = parse_line(enc(l))
        if k == 'skip':
            out.skipped[v] = out.skipped.get(v, 0) + 1
        elif k == 'bail':
            out.internal_error = v
            out.skipped = {}
            return out
        else:
            objs.append(v)
    for o in objs:
        try:
            k, v = convert(o, file0, enabled_severities)
        except Mismatch as e:
            out.internal_error = 'type-mismatch: %s' % e
            return out
        if k == 'summary':
            out.summaries.append(v)
        elif k == 'metric':
            out.metrics += 1
        elif k == 'skip':
            out.skipped[v] = out.skipped.get(v, 0) + 1
        else:
            out.findings.append(v)
    return out


# ------------------------------------------------------------------ text generators
ASCII_WORDS = ['value', 'pointer', 'x<y', 'a&b', '"quoted"', "'c'", '<script>alert(1)</script>', ']]>',
               '<!--', '-->', '&amp;', '&#10;', '\\', '\\n', '\\012', '%s', '%n', '$symbol', '$', '`', ';', ':',
               '[', ']', '(', ')', '*', '?', '#', '//', '/*', '~', '|', '=', ',', '\\\\', '\\"', "''", '<![CDATA[',
               '{', '}', '{}', '{id}', '{unknown}', '{inconclusive:', '<b>bold</b>', '</error>', '\'"',
               'std::vector<int>', 'a->b', 'x && y', 'tab']
UNICODE_WORDS = ['é', 'ß', '中文', 'Ω', ' ', ' ', '﻿', '\U0001f600', 'ü̈', '‮']
CONTROL = [chr(c) for c in list(range(1, 10)) + [11, 12] + list(range(14, 32)) + [127]]
INVALID_UTF8 = [b'\xff', b'\xfe', b'\xc3', b'\xe9', b'\xed\xa0\x80', b'\xc0\xaf', b'\xf8\x88\x80\x80\x80', b'\x80']
# template fields substituted *after* {message} by ErrorMessage::toString — excluded from generated
# message texts by the known finding C26 'template-resubstitution' (see known/C26.txt)
LATE_FIELDS = ['{file}', '{line}', '{column}', '{code}', '{callstack}', '{remark}', '{info}']


def text(rng, maxlen=80, controls=True, invalid=True, unicode=True, late_fields=False, newline=False,
         long_p=0.03):
    """random message-like text (sstr)"""
    n = rng.randint(1, 8)
    parts = []
    for _ in range(n):
        r = rng.random()
        if r < 0.45:
            parts.append(rng.choice(ASCII_WORDS))
        elif r < 0.6:
            parts.append(''.join(rng.choice('abcdefghijklmnopqrstuvwxyzABCXYZ0123456789_') for _ in range(rng.randint(1, 9))))
        elif r < 0.7 and unicode:
            parts.append(rng.choice(UNICODE_WORDS))
        elif r < 0.78 and controls:
            parts.append(rng.choice(CONTROL))
        elif r < 0.84 and invalid:
            parts.append(dec(rng.choice(INVALID_UTF8)))
        elif r < 0.88 and late_fields:
            parts.append(rng.choice(LATE_FIELDS))
        elif r < 0.9 and newline:
            parts.append('\n')
        elif r < 0.93 and controls:
            parts.append(rng.choice(['\t', '\r']))
        else:
            parts.append(''.join(chr(rng.randint(0x20, 0x7e)) for _ in range(rng.randint(1, 12))))
    s = rng.choice(['', ' ']).join(parts)
    if rng.random() < long_p:
        s = (s + ' ') * rng.randint(20, max(21, maxlen * 3 // max(1, len(s))))
    elif len(s) > maxlen:
        s = s[:maxlen]
    return s


# ------------------------------------------------------------------ reading reports back
def parse_results_xml(data):
    """strict parse of a cppcheck --xml (version 2) report (bytes) -> list of tuples shaped like
    EF.xml_key(with_file0=True); raises xml.etree.ElementTree.ParseError / ValueError.
    checkersReport (a summary line, not a finding) is left out."""
    import xml.etree.ElementTree as ET
    i = data.find(b'<?xml')
    if i < 0:
        raise ValueError('no xml prolog')
    root = ET.fromstring(data[i:])
    out = []
    errs = root.find('errors')
    if errs is None:
        return out
    for e in errs.findall('error'):
        if e.get('id') == 'checkersReport':
            continue
        locs = tuple((l.get('file', ''), int(l.get('line', '0')), int(l.get('column', '0')), l.get('info', ''))
                     for l in e.findall('location'))
        syms = tuple(s.text or '' for s in e.findall('symbol'))
        out.append((e.get('id', ''), e.get('severity', ''), e.get('inconclusive') == 'true', e.get('msg', ''),
                    e.get('verbose', ''), locs, syms, e.get('cwe', ''), e.get('hash', ''), e.get('remark', ''),
                    e.get('file0', '')))
    return out
