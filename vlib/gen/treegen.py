"""Seeded generator of directory trees with awkward names, input path lists and path patterns
(C31, and the suppression file patterns of C23). No symlinks are ever created."""
import os

SRC_EXTS = ['.c', '.cpp', '.cc', '.cxx', '.c++', '.ipp', '.ixx', '.tpp', '.txx']
OTHER_EXTS = ['.h', '.hpp', '.txt', '.o', '', '.c.bak', '.cfg', '.py', '.C', '.cl', '.CPP', '.cp', '.cppx', '.hh']

STEMS_PLAIN = ['a', 'b', 'ab', 'abc', 'main', 'test', 'test1', 'util', 'x', 'foo', 'bar', 'src', 'lib', 'mod_1']
STEMS_AWKWARD = ['a b', 'with space ', 'ü', 'наб', '测试', 'a.b', '.hid', 'x..y', '..x', 'a-b', '-x', '--enable=all',
                 '-i', '[x]', '{a}', 'a,b', "it's", 'a+b', '@f', 'a=b', '~t', 'a*b', 'q?', '*', '%1', '$H',
                 'a;b', 'a&b', 'a(b)', 'A', 'Test', 'c', 'cpp', 'a.c', 'x.cpp']
# names safe inside a --suppress=<id>:<pattern> spec (no ':', '#', '//', no trailing space, not glob chars)
STEMS_SUPPR = ['a', 'b', 'ab', 'abc', 'main', 'test', 'test1', 'util', 'x', 'foo', 'a b', 'ü', 'наб', 'a.b', '.hid',
               'x..y', 'a-b', '[x]', '{a}', 'a,b', 'a+b', '@f', 'a=b', '~t', '%1', 'A', 'Test', 'c', 'a.c', 'src', 'lib']

BODY = 'void f(void){int *p=0;*p=1;}\n'


class Tree:
    def __init__(self):
        self.files = []     # relative paths (posix) of regular files
        self.dirs = ['']    # relative paths of directories ('' = root)

    def write(self, root, body=BODY):
        for d in self.dirs:
            os.makedirs(os.path.join(root, d) if d else root, exist_ok=True)
        for f in self.files:
            with open(os.path.join(root, f), 'w') as fh:
                fh.write(body)

    def files_under(self, d):
        """regular files below directory d ('' = root), relative to d"""
        if d == '':
            return list(self.files)
        return [f[len(d) + 1:] for f in self.files if f.startswith(d + '/')]


def gen_tree(rng, nfiles=(3, 14), maxdepth=6, awkward=0.4, stems_awk=None, stems_plain=None):
    t = Tree()
    stems_awk = stems_awk or STEMS_AWKWARD
    stems_plain = stems_plain or STEMS_PLAIN
    used = set()

    def name(kind):
        for _ in range(50):
            stem = rng.choice(stems_awk) if rng.random() < awkward else rng.choice(stems_plain)
            if kind == 'dir':
                n = stem + (rng.choice(['', '', '', '.c', '.d', '.cpp']))
            else:
                ext = rng.choice(SRC_EXTS) if rng.random() < 0.7 else rng.choice(OTHER_EXTS)
                n = stem + ext
            if n not in ('.', '..', '') and len(n.encode()) < 100:
                return n
        return 'n%d' % rng.randint(0, 999)

    ndirs = rng.randint(1, 6)
    for _ in range(ndirs):
        parent = rng.choice(t.dirs)
        if parent.count('/') + (1 if parent else 0) >= maxdepth:
            continue
        n = name('dir')
        p = (parent + '/' + n) if parent else n
        if p.lower() in used:
            continue
        used.add(p.lower())
        t.dirs.append(p)
    for _ in range(rng.randint(*nfiles)):
        parent = rng.choice(t.dirs)
        n = name('file')
        p = (parent + '/' + n) if parent else n
        if p.lower() in used:
            continue
        used.add(p.lower())
        t.files.append(p)
    return t


def spell_input(rng, rel, absroot, tree, is_dir):
    """one of the documented ways of naming `rel` (relative to cwd = absroot; '' = '.')"""
    forms = ['plain', 'plain', 'dot', 'abs', 'dotdot', 'dslash']
    if is_dir:
        forms += ['slash', 'slash', 'absslash', 'slashdot']
    form = rng.choice(forms)
    base = rel if rel else '.'
    need_dot = base.startswith('-')
    if form == 'plain':
        s = base
    elif form == 'dot':
        s = './' + base
    elif form == 'abs':
        s = absroot + ('/' + rel if rel else '')
    elif form == 'absslash':
        s = absroot + ('/' + rel if rel else '') + '/'
    elif form == 'slash':
        s = base + '/'
    elif form == 'slashdot':
        s = base + '/.'
    elif form == 'dslash':
        s = base.replace('/', '//', 1) if '/' in base else base
    else:  # dotdot: go through an existing directory and back
        ds = [d for d in tree.dirs if d and not d.startswith('-')]
        if ds and rel:
            d = rng.choice(ds)
            s = d + '/' + '/'.join(['..'] * (d.count('/') + 1)) + '/' + rel
        else:
            s = base
    if need_dot and not s.startswith('/') and not s.startswith('./'):
        s = './' + s
    return s


def _globify(rng, comp):
    """replace part of one path component by a glob"""
    r = rng.random()
    if not comp:
        return comp
    if r < 0.2:
        return '*'
    if r < 0.4:
        i = rng.randint(0, len(comp))
        return comp[:i] + '*'
    if r < 0.55:
        i = rng.randint(0, len(comp))
        return '*' + comp[i:]
    if r < 0.75:
        i = rng.randrange(len(comp))
        return comp[:i] + '?' + comp[i + 1:]
    if r < 0.85:
        i = rng.randint(0, len(comp))
        j = rng.randint(i, len(comp))
        return comp[:i] + '*' + comp[j:]
    if r < 0.93 and len(comp) >= 2:
        i = rng.randrange(len(comp) - 1)
        return comp[:i] + '?' + rng.choice(['?', '*']) + comp[i + 2:]
    return comp[:1] + '**'


def gen_pattern(rng, tree, absroot, targets=None, allow_real=True, allow_above=True):
    """a pattern derived from a real path of the tree (so that it has a chance to match) in one
    of the documented forms; sometimes a near miss."""
    paths = targets or (tree.files + [d for d in tree.dirs if d])
    if not paths:
        return '*.c'
    p = rng.choice(paths)
    comps = p.split('/')
    is_dir = p in tree.dirs
    r = rng.random()
    if r < 0.22:
        k = 1                                      # last component only
    elif r < 0.5:
        k = rng.randint(1, len(comps))             # a tail of the path
    else:
        k = len(comps)
    if rng.random() < 0.3 and len(comps) > 1:
        comps = comps[:rng.randint(1, len(comps) - 1)]   # a directory prefix of the path
        is_dir = True
        k = min(k, len(comps))
    sel = comps[len(comps) - k:]
    whole = (k == len(comps))
    # globs
    g = rng.random()
    if g < 0.5:
        n = rng.randint(1, 2)
        for _ in range(n):
            i = rng.randrange(len(sel))
            sel[i] = _globify(rng, sel[i])
    elif g < 0.64 and len(sel) > 2:
        i = rng.randrange(len(sel) - 1)
        j = rng.randint(i + 1, len(sel) - 1)
        sel[i:j + 1] = ['**']                      # '**' has to span at least one separator
    elif g < 0.64 and len(sel) > 1:
        sel[rng.randrange(len(sel))] = '**'
    elif g < 0.72:
        sel = (sel[:1] if len(sel) > 2 and rng.random() < 0.5 else []) + ['**'] + sel[-1:]
    pat = '/'.join(sel)
    # near misses: cut into a component so that the match would not start after a separator
    m = rng.random()
    if m < 0.06 and len(pat) > 2:
        pat = pat[1:]
    elif m < 0.1:
        pat = pat + rng.choice(['x', '.c', '/'])
    elif m < 0.13:
        pat = pat[:-1] if len(pat) > 1 else pat
    # spelling
    s = rng.random()
    if allow_real and whole and s < 0.18:
        pat = './' + pat
    elif allow_real and whole and s < 0.34:
        pat = absroot + '/' + pat
    elif allow_real and whole and s < 0.38:
        pat = './' + pat.replace('/', '/./', 1)
    elif allow_above and whole and s < 0.44:
        up = absroot.strip('/').split('/')
        pat = '/'.join(up[-rng.randint(1, min(2, len(up))):]) + '/' + pat
    elif s < 0.5:
        pat = pat.replace('/', '//', 1)
    if is_dir and rng.random() < 0.5 and not pat.endswith('/'):
        pat += '/'
    elif not is_dir and rng.random() < 0.05 and not pat.endswith('/'):
        pat += '/'        # trailing separator on a file name: must not match the regular file
    return pat
