"""scopegen — "scope-heavy" C / C++ programs for C08 (name resolution).

Programs are valid by construction (a scope stack decides which names may be declared and used) and
use a deliberately tiny pool of identifiers so that shadowing is the rule: globals, parameters and
locals of nested blocks, for/if/while-init variables, struct members named like variables,
enumerators, forward-declared and redefined functions; C++ adds namespaces with `using`, classes
with members used unqualified in inline and out-of-class methods, static members, overload sets
that differ in arity / parameter type, default arguments and lambdas with captures.
No #include, no templates, everything is int / double / simple records.  What each use refers to is
NOT decided here: the reference compiler (clang JSON AST) says so.
"""

NAMES = ['a', 'b', 'c', 'i', 'n', 'x', 'y', 'v']
RECS = ['p', 'q']


class Scope:
    def __init__(self, parent=None, kind='block'):
        self.parent = parent
        self.kind = kind
        self.syms = {}       # name -> kind: 'int' | 'dbl' | 'rec' | 'ptr' | 'fn' | 'arr'

    def lookup(self, name):
        s = self
        while s is not None:
            if name in s.syms:
                return s.syms[name]
            s = s.parent
        return None

    def visible(self, kind):
        out = []
        seen = set()
        s = self
        while s is not None:
            for n, k in s.syms.items():
                if n not in seen:
                    seen.add(n)
                    if k == kind:
                        out.append(n)
            s = s.parent
        return sorted(out)


class Gen:
    def __init__(self, rng, lang='c', excl=()):
        self.rng = rng
        self.cxx = lang == 'c++'
        self.lang = lang
        self.excl = set(excl)
        self.lines = []
        self.ind = 0
        self.glob = Scope(None, 'global')
        self.funcs = []          # (name, nparams) callable so far (global, non-overloaded)
        self.members = ['x', 'y', 'a', 'n']
        self.cls_members = None  # inside a method: member names usable unqualified
        self.ovl = False

    # ------------------------------------------------------------------ output
    def out(self, s):
        self.lines.append('  ' * self.ind + s)

    def pick(self, seq):
        return seq[self.rng.randrange(len(seq))]

    def chance(self, p):
        return self.rng.random() < p

    # ------------------------------------------------------------------ expressions
    def expr(self, sc, d=2):
        r = self.rng.random()
        ints = sorted(sc.visible('int') + sc.visible('cint'))
        if self.cls_members:
            ints = sorted(set(ints) | set(m for m in self.cls_members if sc.lookup(m) in (None, 'int', 'member')))
        if d <= 0 or r < 0.35:
            if ints and self.chance(0.8):
                return self.pick(ints)
            return str(self.rng.randint(0, 9))
        if r < 0.6:
            return '%s %s %s' % (self.expr(sc, d - 1), self.pick(['+', '-', '*', '<', '==', '&']), self.expr(sc, d - 1))
        if r < 0.72:
            recs = sc.visible('rec')
            ptrs = sc.visible('ptr')
            if recs and (not ptrs or self.chance(0.6)):
                return '%s.%s' % (self.pick(recs), self.pick(self.members))
            if ptrs:
                return '%s->%s' % (self.pick(ptrs), self.pick(self.members))
        if r < 0.86:
            c = self.call(sc, d - 1)
            if c:
                return c
        if r < 0.92:
            arrs = sc.visible('arr')
            if arrs:
                return '%s[%s]' % (self.pick(arrs), self.expr(sc, 0))
        if r < 0.96:
            return '(%s)' % self.expr(sc, d - 1)
        if ints:
            return self.pick(ints)
        return '1'

    def call(self, sc, d):
        cands = [f for f in self.funcs if sc.lookup(f[0]) == 'fn']
        if self.cxx and self.ovl and self.chance(0.35) and sc.lookup('ov') == 'fn' and 'overload' not in self.excl:
            return self.ovl_call(sc, d)
        if not cands:
            return None
        f = self.pick(cands)
        n = f[1]
        if f[2] and self.chance(0.4):      # default argument
            n -= 1
        return '%s(%s)' % (f[0], ', '.join(self.expr(sc, d) for _ in range(n)))

    def ovl_call(self, sc, d):
        r = self.rng.random()
        dbls = sc.visible('dbl')
        if r < 0.3:
            return 'ov(%s)' % self.expr(sc, d)
        if r < 0.5:
            return 'ov(%s, %s)' % (self.expr(sc, d), self.expr(sc, d))
        if r < 0.7:
            return 'ov(%s)' % (self.pick(dbls) if dbls and self.chance(0.6) else self.pick(['1.5', '2.0', '0.5f']))
        if r < 0.8:
            return "ov('%s')" % self.pick('abc')
        if r < 0.9:
            recs = sc.visible('rec')
            if recs:
                return 'ov(%s)' % self.pick(recs)
        return 'ov()'

    # ------------------------------------------------------------------ statements
    def fresh(self, sc, pool=NAMES):
        cands = [n for n in pool if n not in sc.syms]
        if sc.kind == 'body' and sc.parent is not None and sc.parent.kind in ('params', 'forinit'):
            cands = [n for n in cands if n not in sc.parent.syms]
        if self.cls_members and 'member-shadow' in self.excl:
            cands = [n for n in cands if n not in self.cls_members]
        return self.pick(cands) if cands else None

    def block(self, sc, depth, n=None):
        n = n if n is not None else self.rng.randint(1, 4)
        for _ in range(n):
            self.stmt(sc, depth)

    def stmt(self, sc, depth):
        r = self.rng.random()
        if r < 0.28:
            nm = self.fresh(sc)
            if nm:
                if self.chance(0.08) and sc.lookup(nm) == 'int' and 'self-init' not in self.excl:
                    init = nm + ' + 1'      # `int x = x + 1;` — the initialiser names the NEW x
                else:
                    sc.syms[nm] = 'hidden'
                    init = self.expr(sc)
                self.out('int %s = %s;' % (nm, init))
                sc.syms[nm] = 'int'
                return
        if r < 0.45:
            ints = sc.visible('int')
            if self.cls_members:
                ints = sorted(set(ints) | set(m for m in self.cls_members if sc.lookup(m) in (None, 'int', 'member')))
            if ints:
                self.out('%s %s %s;' % (self.pick(ints), self.pick(['=', '+=', '-=']), self.expr(sc)))
                return
        if r < 0.55 and depth > 0:
            self.out('{')
            self.ind += 1
            self.block(Scope(sc, 'block'), depth - 1)
            self.ind -= 1
            self.out('}')
            return
        if r < 0.68 and depth > 0:
            if self.cxx and self.chance(0.35) and 'if-init' not in self.excl:
                isc = Scope(sc, 'forinit')
                nm = self.fresh(isc)
                isc.syms[nm] = 'hidden'
                init = self.expr(isc, 1)
                isc.syms[nm] = 'int'
                self.out('if (int %s = %s; %s > %s) {' % (nm, init, nm, self.expr(isc, 1)))
            elif self.cxx and self.chance(0.2) and 'if-init' not in self.excl:
                isc = Scope(sc, 'forinit')
                nm = self.fresh(isc)
                isc.syms[nm] = 'hidden'
                init = self.expr(isc, 1)
                isc.syms[nm] = 'int'
                self.out('if (int %s = %s) {' % (nm, init))
            else:
                isc = sc
                self.out('if (%s) {' % self.expr(sc))
            self.ind += 1
            self.block(Scope(isc, 'body'), depth - 1)
            self.ind -= 1
            if self.chance(0.5):
                self.out('} else {')
                self.ind += 1
                self.block(Scope(isc, 'body'), depth - 1)
                self.ind -= 1
            self.out('}')
            return
        if r < 0.82 and depth > 0:
            fsc = Scope(sc, 'forinit')
            nm = self.fresh(fsc)
            fsc.syms[nm] = 'hidden'
            init = self.expr(fsc, 1)
            fsc.syms[nm] = 'int'
            self.out('for (int %s = %s; %s < %s; %s++) {' % (nm, init, nm, self.expr(fsc, 1), nm))
            self.ind += 1
            self.block(Scope(fsc, 'body'), depth - 1)
            self.ind -= 1
            self.out('}')
            return
        if r < 0.88 and depth > 0:
            self.out('while (%s) {' % self.expr(sc))
            self.ind += 1
            body = Scope(sc, 'block')
            self.block(body, depth - 1)
            self.out('break;')
            self.ind -= 1
            self.out('}')
            return
        if r < 0.93:
            nm = self.fresh(sc, RECS)
            if nm and 'rec' in [self.glob.syms.get('P')]:
                pass
            if nm:
                sc.syms[nm] = 'hidden'
                if self.chance(0.6):
                    self.out('%sP %s = { %s, %s, 0, 0 };' % ('' if self.cxx else 'struct ', nm, self.expr(sc, 1), self.expr(sc, 1)))
                    sc.syms[nm] = 'rec'
                else:
                    recs = sc.visible('rec')
                    if recs:
                        self.out('%sP *%s = &%s;' % ('' if self.cxx else 'struct ', nm, self.pick(recs)))
                        sc.syms[nm] = 'ptr'
                    else:
                        del sc.syms[nm]
                return
        if r < 0.97 and self.cxx and depth > 0 and 'lambda' not in self.excl:
            ints = sc.visible('int')
            locs = [n for n in ints if self._is_local(sc, n)]
            if locs:
                nm = self.fresh(sc, ['f', 'g', 'h', 'k'])
                if nm:
                    caps = sorted(set(self.pick(locs) for _ in range(self.rng.randint(1, 2))))
                    byref = {c: self.chance(0.5) for c in caps}
                    capl = ', '.join(('&' if byref[c] else '') + c for c in caps)
                    # the lambda body sees globals, its parameter and the captures; every other name of the
                    # enclosing function scopes is hidden (using it would need a capture)
                    lsc = Scope(self.glob, 'params')
                    e = sc
                    while e is not None and e.kind != 'global':
                        for k in e.syms:
                            lsc.syms.setdefault(k, 'hidden')
                        e = e.parent
                    if self.cls_members:
                        for k in self.cls_members:
                            lsc.syms.setdefault(k, 'hidden')
                    pn = self.pick([n for n in NAMES if n not in caps])
                    for c in caps:
                        lsc.syms[c] = 'int' if byref[c] else 'cint'
                    lsc.syms[pn] = 'int'
                    self.out('auto %s = [%s](int %s) {' % (nm, capl, pn))
                    self.ind += 1
                    saved = self.cls_members
                    self.cls_members = None
                    b = Scope(lsc, 'body')
                    self.block(b, 0, self.rng.randint(1, 2))
                    self.out('return %s;' % self.expr(b, 1))
                    self.cls_members = saved
                    self.ind -= 1
                    self.out('};')
                    self.out('%s = %s(%s);' % (self.pick(locs), nm, self.expr(sc, 1)))
                    sc.syms[nm] = 'lambda'
                    return
        c = self.call(sc, 1)
        if c:
            self.out(c + ';')
        else:
            self.out(';')

    def _is_local(self, sc, name):
        s = sc
        while s is not None and s.kind != 'global':
            if name in s.syms:
                return s.syms[name] == 'int'
            s = s.parent
        return False

    # ------------------------------------------------------------------ top level
    def function(self, name, params, parent, ret_expr=True, header=None, dflt=False):
        psc = Scope(parent, 'params')
        for p in params:
            psc.syms[p] = 'int'
        plist = ', '.join('int ' + p for p in params)
        if dflt and params:
            # default argument lives on the (earlier) declaration only
            pass
        self.out((header or ('int %s(%s)' % (name, plist))) + ' {')
        self.ind += 1
        body = Scope(psc, 'body')
        self.block(body, 3, self.rng.randint(3, 7))
        self.out('return %s;' % self.expr(body))
        self.ind -= 1
        self.out('}')

    def program(self):
        rng = self.rng
        S = '' if self.cxx else 'struct '
        self.out('struct P { int x; int y; int a; int n; };')
        self.glob.syms['P'] = 'type'
        self.out('enum K { K0, K1, K2 };')
        # globals named like the locals
        for nm in rng.sample(NAMES, rng.randint(2, 4)):
            self.out('%sint %s = %d;' % ('static ' if self.chance(0.3) else '', nm, rng.randint(0, 9)))
            self.glob.syms[nm] = 'int'
        if self.chance(0.7):
            nm = self.pick(RECS)
            self.out('%sP %s;' % (S, nm))
            self.glob.syms[nm] = 'rec'
        if self.chance(0.5):
            self.out('int t[8];')
            self.glob.syms['t'] = 'arr'
        # forward declarations (definitions follow later)
        nfun = rng.randint(3, 5)
        sigs = []
        for k in range(nfun):
            params = rng.sample(NAMES, rng.randint(0, 3))
            sigs.append(('f%d' % k, params))
        fwd = [s for s in sigs if self.chance(0.5)]
        for name, params in fwd:
            alt = [self.pick(NAMES) for _ in params]     # parameter names of a declaration may differ
            names = []
            for a in alt:
                while a in names:
                    a = self.pick(NAMES)
                names.append(a)
            dflt = self.cxx and params and self.chance(0.4) and 'default-arg' not in self.excl
            pl = ', '.join('int ' + p for p in names)
            if dflt:
                pl += ' = %d' % rng.randint(0, 5)
            self.out('int %s(%s);' % (name, pl))
            self.glob.syms[name] = 'fn'
            self.funcs.append((name, len(params), dflt))
        if self.cxx:
            self.cxx_part1()
        for name, params in sigs:
            self.function(name, params, self.glob)
            if self.glob.syms.get(name) != 'fn':
                self.glob.syms[name] = 'fn'
                self.funcs.append((name, len(params), False))
        if self.cxx:
            self.cxx_part2()
        return '\n'.join(self.lines) + '\n'

    # ------------------------------------------------------------------ C++ parts
    def cxx_part1(self):
        rng = self.rng
        # overload set
        if 'overload' not in self.excl:
            self.out('int ov() { return 0; }')
            self.out('int ov(int a) { return a; }')
            self.out('int ov(double a) { return 1; }')
            self.out('int ov(int a, int b) { return a + b; }')
            self.out('int ov(P a) { return a.x; }')
            self.glob.syms['ov'] = 'fn'
            self.ovl = True
        # namespaces
        if 'namespace' not in self.excl:
            self.out('namespace A {')
            self.ind += 1
            asc = Scope(self.glob, 'global')
            for nm in rng.sample(NAMES, 2):
                self.out('int %s = 1;' % nm)
                asc.syms[nm] = 'int'
            self.function('fa', rng.sample(NAMES, 1), asc)
            self.out('namespace M {')
            self.ind += 1
            msc = Scope(asc, 'global')
            nm = self.pick(NAMES)
            self.out('int %s = 2;' % nm)
            msc.syms[nm] = 'int'
            self.function('fm', rng.sample(NAMES, 2), msc)
            self.ind -= 1
            self.out('}')
            self.ind -= 1
            self.out('}')
            self.out('namespace B {')
            self.ind += 1
            bsc = Scope(self.glob, 'global')
            nm = self.pick(NAMES)
            self.out('int %s = 3;' % nm)
            bsc.syms[nm] = 'int'
            a_names = sorted(asc.syms)
            self.out('int fb(int %s) { return %s + A::%s + A::M::%s + A::fa(%s) + A::M::fm(1, %s); }' % (
                nm if self.chance(0.5) else 'z', nm, self.pick(a_names), sorted(msc.syms)[0], nm, nm))
            self.ind -= 1
            self.out('}')
            self.out('using A::fa;')
            self.glob.syms['fa'] = 'fn'
            self.funcs.append(('fa', 1, False))
        # class with members named like everything else
        self.out('struct C {')
        self.ind += 1
        pool = NAMES
        if 'member-vs-global' in self.excl:
            # finding: in an out-of-class method definition an unqualified member name is bound to a global
            # variable of the same name
            pool = [n for n in NAMES if n not in self.glob.syms]
        mem = rng.sample(pool, min(3, len(pool)))
        for m in mem:
            self.out('int %s;' % m)
        self.out('static int s;')
        csc = Scope(self.glob, 'class')
        for m in mem:
            csc.syms[m] = 'member'
        csc.syms['s'] = 'member'
        self.cls_members = mem + ['s']
        self.mem = mem
        # inline method with a parameter shadowing a member (unless excluded)
        pn = self.pick(NAMES)
        psc = Scope(csc, 'params')
        psc.syms[pn] = 'int'
        self.out('int m1(int %s) {' % pn)
        self.ind += 1
        body = Scope(psc, 'body')
        self.block(body, 2, rng.randint(2, 5))
        other = [m for m in mem if m != pn]
        self.out('return %s + this->%s + %s;' % (pn, self.pick(mem), self.pick(other) if other else '0'))
        self.ind -= 1
        self.out('}')
        self.out('int m2(int %s);' % self.pick(NAMES))
        self.out('static int sm(int %s) { return %s + s; }' % (pn, pn))
        self.ind -= 1
        self.out('};')
        self.out('int C::s = 0;')
        self.cls_members = None
        self.csc = csc

    def cxx_part2(self):
        rng = self.rng
        # out-of-class method definition: unqualified members
        pn = self.pick(NAMES)
        psc = Scope(self.csc, 'params')
        psc.syms[pn] = 'int'
        self.cls_members = self.mem + ['s']
        self.out('int C::m2(int %s) {' % pn)
        self.ind += 1
        body = Scope(psc, 'body')
        self.block(body, 2, rng.randint(2, 5))
        self.out('return %s + m1(%s) + sm(%s) + C::s;' % (self.expr(body, 1), pn, self.expr(body, 0)))
        self.ind -= 1
        self.out('}')
        self.cls_members = None
        # user
        self.out('int use(C &o, C *po) {')
        self.ind += 1
        sc = Scope(Scope(self.glob, 'params'), 'body')
        self.block(sc, 2, rng.randint(2, 4))
        self.out('return o.m1(%s) + po->m2(%s) + C::sm(%s) + o.%s + po->%s + C::s;' % (
            self.expr(sc, 1), self.expr(sc, 1), self.expr(sc, 0), self.pick(self.mem), self.pick(self.mem)))
        self.ind -= 1
        self.out('}')
        if 'namespace' not in self.excl:
            self.out('int un() {')
            self.ind += 1
            self.out('using namespace B;')
            self.out('return fb(1) + fa(2) + A::M::fm(3, 4);')
            self.ind -= 1
            self.out('}')


def gen(rng, lang='c', excl=()):
    g = Gen(rng, lang, excl)
    return g.program()
