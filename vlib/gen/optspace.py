"""Option space and option-sensitive file set for C19.

FILES is a fixed mixed C/C++ project in which *each option under test changes the findings* (otherwise
a stale cache would be invisible).  DIMS lists the option dimensions; a state is a dict dim -> value,
`render(state)` gives the command-line arguments.  The violation key of a dimension is
`hash-omits:<option>` (DESIGN.md appendix A).
"""

FILES = {
    # --platform: long is 32 bit on unix32/win64/win32A, 64 bit on unix64
    's_plat.c': 'unsigned long f_plat(unsigned long x) {\n    return x << 40;\n}\n',
    # --std (C): alloca is only flagged from C99 on (warning)
    's_std.c': '#include <stdlib.h>\nvoid f_std(int n) {\n    char *p = alloca(n);\n    p[0] = 0;\n}\n',
    # --std (C++): missingOverride needs C++11 (style)
    's_stdcpp.cpp': ('class SB {\npublic:\n    virtual ~SB() {}\n    virtual int vf(int a) { return a; }\n};\n'
                     'class SD : public SB {\npublic:\n    int vf(int a) { return a + 1; }\n};\n'),
    # --inconclusive: suspiciousSemicolon is inconclusive-only (warning)
    's_inc.c': 'int g_inc;\nvoid f_inc(int x) {\n    if (x == 3);\n    {\n        g_inc = x;\n    }\n}\n',
    # -U: the FOO configuration is dropped
    's_undef.c': 'void f_undef(void) {\n#ifdef FOO\n    int *p = 0;\n    *p = 1;\n#endif\n}\n',
    # -D: value selects the branch
    's_def.c': ('int g_def;\nvoid f_def(void) {\n#if BAR == 2\n    int *p = 0;\n    *p = 1;\n#elif BAR == 1\n'
                '    int z = 0;\n    g_def = 1 / z;\n#endif\n}\n'),
    # --language: C++-only check on a .c file / disappears on a .cpp file analysed as C
    's_lang.c': 'struct SL { int a; };\nstruct SL *f_lang(char *p) {\n    return (struct SL*)p;\n}\n',
    's_lang2.cpp': 'struct SL2 { int a; };\nint *f_lang2(struct SL2 *p) {\n    return (int*)p;\n}\n',
    # --library: my_open() returns a resource only with the project's library configuration
    's_lib.c': ('int my_open(const char *n);\nvoid my_close(int fd);\nvoid f_lib(const char *n) {\n'
                '    int fd = my_open(n);\n    if (fd < 0)\n        return;\n}\n'),
    'mylib.cfg': ('<?xml version="1.0"?>\n<def>\n  <resource>\n    <alloc init="true">my_open</alloc>\n'
                  '    <dealloc>my_close</dealloc>\n  </resource>\n</def>\n'),
    # -I: header with a finding found only through the include path
    'inc/opt.h': 'static inline int f_hdr(void) {\n    int z = 0;\n    return 10 / z;\n}\n',
    's_I.c': '#include "opt.h"\nint f_I(void) { return f_hdr(); }\n',
    # --max-configs / --force: one finding per configuration
    's_cfgs.c': ('void f_cfgs(void) {\n#ifdef C1\n    int a1[2]; a1[2] = 0;\n#endif\n#ifdef C2\n    int a2[2]; a2[3] = 0;\n'
                 '#endif\n#ifdef C3\n    int a3[2]; a3[4] = 0;\n#endif\n}\n'),
    # --force: more configurations than the default --max-configs=12, one finding in each
    's_force.c': ('void f_force(void) {\n' + ''.join(
        '#ifdef F%02d\n    int b%d[2]; b%d[%d] = 0;\n#endif\n' % (i, i, i, i + 2) for i in range(1, 15)) + '}\n'),
    # --enable=unusedFunction
    's_unused.c': 'int f_unused_fn(int x) { return x + 1; }\n',
    # severities + --enable=missingInclude
    's_sev.c': ('#include <string.h>\n#include "nonexistent_local.h"\nint g_sev[4];\n'
                'void f_sev_warn(char *dst) {\n    memset(dst, 0, sizeof(dst));\n}\n'
                'void f_sev_style(int v) {\n    int x = v + 1;\n    x = 0;\n}\n'
                'void f_sev_port(int *p) {\n    int x = p;\n    g_sev[0] = x;\n}\n'),
    's_perf.cpp': '#include <string>\nint f_perf(std::string s) {\n    return (int)s.size();\n}\n',
    # --check-level: normalCheckLevelMaxBranches only at the normal level (information)
    's_lvl.c': ('int f_lvl(int a, int b, int c, int d, int e) {\n    int x = 0;\n    if (a) { x++; }\n    if (b) { x++; }\n'
                '    if (c) { x++; }\n    if (d) { x++; }\n    if (e) { x++; }\n    if (a > b) { x++; }\n    return x;\n}\n'),
    # suppressions: command line and inline
    's_suppr.c': ('void f_suppr(void) {\n    int a[2];\n    a[2] = 0; // cppcheck-suppress arrayIndexOutOfBounds\n'
                  '    a[3] = 0;\n}\n'),
}

SOURCES = sorted(f for f in FILES if f.endswith(('.c', '.cpp')))

SEVERITIES = ['warning', 'style', 'performance', 'portability', 'information']

# dim -> (option name used in the key, list of values)
DIMS = {}
for _s in SEVERITIES:
    DIMS['--enable=' + _s] = [False, True]
DIMS.update({
    '--enable=unusedFunction': [False, True],
    '--enable=missingInclude': [False, True],
    '--inconclusive': [False, True],
    '-D': [None, 'BAR=1', 'BAR=2'],
    '-U': [None, 'FOO'],
    '-I': [None, 'inc'],
    '--std': [None, 'c89', 'c11', 'c++03', 'c++17'],
    '--language': [None, 'c', 'c++'],
    '--platform': [None, 'unix32', 'unix64', 'win64'],
    '--library': [None, 'mylib.cfg'],
    '--suppress': [None, 'shiftTooManyBits', 'arrayIndexOutOfBounds:s_suppr.c', 'zerodiv:inc/opt.h'],
    '--inline-suppr': [False, True],
    '--max-configs': [None, '12', '1', '2', '20'],   # '12' = the built-in default given explicitly
    '--check-level': [None, 'exhaustive'],
    '--force': [False, True],
})

# state in which every dimension is observable (all severities on, nothing narrowing the configurations)
BASE = {d: vals[0] for d, vals in DIMS.items()}
for _s in SEVERITIES:
    BASE['--enable=' + _s] = True
BASE['--inconclusive'] = True
BASE['-I'] = 'inc'


# per-dimension adjustments of the base state for the sweep (--enable=style implies warning, performance and
# portability, so those three are only observable with style off)
SWEEP_BASE = {
    '--enable=warning': {'--enable=style': False},
    '--enable=performance': {'--enable=style': False},
    '--enable=portability': {'--enable=style': False},
}


def key(dim):
    return 'hash-omits:' + dim


def render(state):
    args = []
    en = [s for s in SEVERITIES if state.get('--enable=' + s)]
    for chk in ('unusedFunction', 'missingInclude'):
        if state.get('--enable=' + chk):
            en.append(chk)
    if en:
        args.append('--enable=' + ','.join(en))
    for flag in ('--inconclusive', '--inline-suppr', '--force'):
        if state.get(flag):
            args.append(flag)
    if state.get('-D'):
        args.append('-D' + state['-D'])
    if state.get('-U'):
        args.append('-U' + state['-U'])
    if state.get('-I'):
        args.append('-I' + state['-I'])
    for opt in ('--std', '--language', '--platform', '--library', '--suppress', '--max-configs', '--check-level'):
        if state.get(opt):
            args.append('%s=%s' % (opt, state[opt]))
    return args


def random_state(rng):
    st = {}
    for d, vals in DIMS.items():
        st[d] = rng.choice(vals)
    # keep most severities on: otherwise most option changes are invisible
    for s in SEVERITIES:
        if rng.random() < 0.7:
            st['--enable=' + s] = True
    if rng.random() < 0.6:
        st['-D'] = None           # -D restricts every file to one configuration
    return st


def step(rng, state):
    """change exactly one dimension -> (dim, new_state)"""
    d = rng.choice(sorted(DIMS))
    new = dict(state)
    new[d] = rng.choice([v for v in DIMS[d] if v != state[d]])
    return d, new


def write(root):
    import os
    for rel, text in FILES.items():
        p = os.path.join(root, rel)
        os.makedirs(os.path.dirname(p), exist_ok=True)
        with open(p, 'w') as f:
            f.write(text)
