"""Mutators and corpora for robustness workloads (C13, C14 accepted mutants, C30a byte mutants).

* token-level, grammar-aware mutation of C/C++ text (swap / delete / duplicate / replace tokens,
  bracket unbalancing, keyword and operator injection, splice from a second input, literal extremes)
* byte-level mutation (bit flips, range delete/duplicate/insert, truncation, special bytes)
* corpus loader: shipped fuzz reproducers, test/cfg slices, samples, progen programs

All randomness comes from the rng passed in.
"""
import os
import re

from .. import build

MAX_INPUT = 8192

KEYWORDS = '''alignas alignof and asm auto bool break case catch char char16_t char32_t class const
const_cast constexpr continue decltype default delete do double dynamic_cast else enum explicit export
extern false float for friend goto if inline int long mutable namespace new noexcept not nullptr
operator or private protected public register reinterpret_cast return short signed sizeof static
static_assert static_cast struct switch template this thread_local throw true try typedef typeid
typename union unsigned using virtual void volatile wchar_t while _Bool _Complex _Generic _Noreturn
_Static_assert _Atomic restrict __attribute__ __declspec __asm__ final override requires concept
co_await co_return co_yield consteval constinit std vector string size_t NULL'''.split()

OPERATORS = ['+', '-', '*', '/', '%', '++', '--', '==', '!=', '<', '>', '<=', '>=', '<=>', '&&', '||', '!',
             '&', '|', '^', '~', '<<', '>>', '=', '+=', '-=', '*=', '/=', '%=', '&=', '|=', '^=', '<<=',
             '>>=', '->', '.', '->*', '.*', '::', '?', ':', ',', ';', '...', '#', '##', '[[', ']]']
BRACKETS = ['(', ')', '[', ']', '{', '}', '<', '>']
LITERALS = ['0', '1', '-1', '0x7fffffff', '0xffffffffffffffff', '2147483648', '18446744073709551616',
            '1e999', '0.', '.0f', "'\\0'", "'ab'", '""', '"%s%n"', 'L"x"', 'u8"\\u00e9"', 'R"(x)"', '0b101',
            "1'000", '0x', '08', '1ull', '1.0e', "'", '"']
SNIPPETS = ['template<class T>', 'template<>', 'operator()', 'operator[]', 'operator<', '[](){}', '[&]',
            'for(;;)', 'do{}while(0);', 'if constexpr', 'struct{}', 'enum class', 'using x=', 'typedef',
            'sizeof...', 'decltype(auto)', '__attribute__((', 'case 1:', 'default:', 'goto', 'extern "C"',
            '#define', '#if', '#else', '#endif', '#include', '#pragma', '// cppcheck-suppress', '/*', '*/',
            '\\\n', '::*', 'a?b:c', 'new(', 'delete[]', 'throw()', 'noexcept(', '= default;', '= delete;',
            '->decltype(', '<:', ':>', '<%', '%>', '??=', '??/', 'alignas(', 'static_assert(', '_Generic(',
            '__VA_ARGS__', '__VA_OPT__']

_TOK_RE = re.compile(
    r'''(/\*.*?\*/|//[^\n]*'''                       # comments
    r'''|"(?:\\.|[^"\\\n])*"|'(?:\\.|[^'\\\n])*\''''  # string / char literals
    r'''|[A-Za-z_$][A-Za-z0-9_$]*'''                 # names
    r'''|\.?[0-9](?:[eEpP][+-]|[A-Za-z0-9_.'])*'''    # pp-numbers
    r'''|<<=|>>=|<=>|->\*|\.\.\.|##|::|->|\+\+|--|<<|>>|<=|>=|==|!=|&&|\|\||[-+*/%&|^]=|\.\*'''
    r'''|\s+|.)''', re.S)


def lex(text):
    """text -> list of token strings (whitespace and comments are tokens too; ''.join == text)"""
    return _TOK_RE.findall(text)


def _sig(toks):
    return [i for i, t in enumerate(toks) if not t.isspace()]


def mutate_tokens(rng, text, other=None, nmut=None):
    """Apply 1..4 token-level mutations. text, other: str. -> (str, [kinds])"""
    toks = lex(text)
    kinds = []
    names = [t for t in toks if re.match(r'[A-Za-z_]\w*$', t)] or ['x']
    for _ in range(nmut or rng.choice([1, 1, 1, 2, 2, 3, 4])):
        sig = _sig(toks)
        if not sig:
            toks = [rng.choice(SNIPPETS)]
            kinds.append('seed')
            continue
        k = rng.choice(['swap', 'delete', 'dup', 'replace-kw', 'replace-op', 'replace-lit', 'replace-name',
                        'insert-bracket', 'delete-bracket', 'insert-snippet', 'insert-kw', 'splice',
                        'delete-range', 'dup-range', 'swap-bracket', 'join'])
        i = rng.choice(sig)
        if k == 'swap':
            j = rng.choice(sig)
            toks[i], toks[j] = toks[j], toks[i]
        elif k == 'delete':
            del toks[i]
        elif k == 'dup':
            toks.insert(i, toks[i])
        elif k == 'replace-kw':
            toks[i] = rng.choice(KEYWORDS)
        elif k == 'replace-op':
            toks[i] = rng.choice(OPERATORS)
        elif k == 'replace-lit':
            toks[i] = rng.choice(LITERALS)
        elif k == 'replace-name':
            toks[i] = rng.choice(names)
        elif k == 'insert-bracket':
            toks.insert(i, rng.choice(BRACKETS))
        elif k == 'delete-bracket':
            br = [j for j in sig if toks[j] in BRACKETS]
            if br:
                del toks[rng.choice(br)]
        elif k == 'swap-bracket':
            br = [j for j in sig if toks[j] in BRACKETS]
            if br:
                toks[rng.choice(br)] = rng.choice(BRACKETS)
        elif k == 'insert-snippet':
            toks.insert(i, ' ' + rng.choice(SNIPPETS) + ' ')
        elif k == 'insert-kw':
            toks.insert(i, ' ' + rng.choice(KEYWORDS) + ' ')
        elif k == 'splice' and other:
            ot = lex(other)
            if ot:
                a = rng.randrange(len(ot))
                b = min(len(ot), a + rng.randint(1, 30))
                toks[i:i] = ot[a:b]
        elif k == 'delete-range':
            j = min(len(toks), i + rng.randint(1, 12))
            del toks[i:j]
        elif k == 'dup-range':
            j = min(len(toks), i + rng.randint(1, 12))
            toks[i:i] = toks[i:j] * rng.choice([1, 1, 2, 8])
        elif k == 'join':
            # remove the whitespace between two tokens
            ws = [j for j, t in enumerate(toks) if t.isspace()]
            if ws:
                del toks[rng.choice(ws)]
        kinds.append(k)
    return ''.join(toks), kinds


BINOPS = ['+', '-', '*', '/', '%', '==', '!=', '<', '>', '<=', '>=', '&&', '||', '&', '|', '^', '<<', '>>']
ASSIGNOPS = ['=', '+=', '-=', '*=', '/=', '%=', '&=', '|=', '^=', '<<=', '>>=']
TYPEWORDS = ['int', 'char', 'long', 'short', 'unsigned', 'signed', 'float', 'double', 'bool', 'void', 'size_t', 'auto']
NUMS = ['0', '1', '2', '-1', '255', '256', '65535', '0x7fffffff', '0x80000000', '0xffffffff', '4294967296', '1u',
        '9223372036854775807', '18446744073709551615u', '0.0', '1e308', '1.5f', '31', '32', '63', '64', '100000']
_KW = set(KEYWORDS)


def mutate_gentle(rng, text, nmut=None):
    """Mutations that usually keep the text syntactically valid (so that the checkers, not only the
    front end, see the mutant): identifier/literal/operator/type substitution, statement
    duplication/deletion, parenthesising. -> (str, [kinds])"""
    toks = lex(text)
    kinds = []
    for _ in range(nmut or rng.choice([1, 1, 2, 2, 3, 5])):
        names = [i for i, t in enumerate(toks) if re.match(r'[A-Za-z_]\w*$', t) and t not in _KW]
        nums = [i for i, t in enumerate(toks) if re.match(r'\.?[0-9]', t)]
        bins = [i for i, t in enumerate(toks) if t in BINOPS and i > 0]
        asg = [i for i, t in enumerate(toks) if t in ASSIGNOPS]
        typ = [i for i, t in enumerate(toks) if t in TYPEWORDS]
        k = rng.choice(['name', 'name', 'num', 'num', 'binop', 'binop', 'assignop', 'type', 'stmt-dup', 'stmt-del',
                        'paren', 'neg'])
        if k == 'name' and len(names) > 1:
            toks[rng.choice(names)] = toks[rng.choice(names)]
        elif k == 'num' and nums:
            toks[rng.choice(nums)] = rng.choice(NUMS)
        elif k == 'binop' and bins:
            toks[rng.choice(bins)] = rng.choice(BINOPS)
        elif k == 'assignop' and asg:
            toks[rng.choice(asg)] = rng.choice(ASSIGNOPS)
        elif k == 'type' and typ:
            toks[rng.choice(typ)] = rng.choice(TYPEWORDS)
        elif k in ('stmt-dup', 'stmt-del'):
            lines = ''.join(toks).split('\n')
            cand = [i for i, l in enumerate(lines) if l.rstrip().endswith(';') and not l.lstrip().startswith(('#', 'for'))]
            if cand:
                i = rng.choice(cand)
                if k == 'stmt-dup':
                    lines.insert(i, lines[i])
                else:
                    del lines[i]
                toks = lex('\n'.join(lines))
        elif k == 'paren' and (names or nums):
            i = rng.choice(names + nums)
            toks[i] = '(' + toks[i] + ')'
        elif k == 'neg' and (names or nums):
            i = rng.choice(names + nums)
            toks[i] = rng.choice(['-', '~', '!', '+']) + toks[i]
        else:
            continue
        kinds.append(k)
    return ''.join(toks), kinds


SPECIAL_BYTES = [b'\x00', b'\xff', b'\xfe\xff', b'\xef\xbb\xbf', b'\r', b'\r\n', b'\\\n', b'\x1a', b'\x7f',
                 b'\xc3\xa9', b'\xc0\x80', b'\x0c', b'\x0b', b'??/', b'\\', b'\n#', b'"', b"'", b'/*', b'*/',
                 b'<', b'>', b'{', b'}', b'(', b')', b';']


def mutate_bytes(rng, data, nmut=None):
    """Apply 1..4 byte-level mutations to bytes. -> (bytes, [kinds])"""
    b = bytearray(data)
    kinds = []
    for _ in range(nmut or rng.choice([1, 1, 2, 2, 3, 4])):
        if not b:
            b = bytearray(rng.choice(SPECIAL_BYTES) * rng.randint(1, 4))
            kinds.append('seed')
            continue
        k = rng.choice(['flip', 'set', 'delete', 'dup', 'insert-special', 'insert-random', 'truncate',
                        'swap-ranges', 'repeat'])
        i = rng.randrange(len(b))
        if k == 'flip':
            b[i] ^= 1 << rng.randrange(8)
        elif k == 'set':
            b[i] = rng.randrange(256)
        elif k == 'delete':
            del b[i:i + rng.randint(1, 16)]
        elif k == 'dup':
            j = i + rng.randint(1, 32)
            b[i:i] = b[i:j]
        elif k == 'insert-special':
            b[i:i] = rng.choice(SPECIAL_BYTES)
        elif k == 'insert-random':
            b[i:i] = bytes(rng.randrange(256) for _ in range(rng.randint(1, 8)))
        elif k == 'truncate':
            del b[i:]
        elif k == 'swap-ranges':
            j = rng.randrange(len(b))
            n = rng.randint(1, 16)
            x, y = bytes(b[i:i + n]), bytes(b[j:j + n])
            if i + n <= j or j + n <= i:
                if i < j:
                    b[j:j + n] = x
                    b[i:i + n] = y
                else:
                    b[i:i + n] = y
                    b[j:j + n] = x
        elif k == 'repeat':
            j = i + rng.randint(1, 6)
            b[i:i] = bytes(b[i:j]) * rng.choice([4, 16, 64])
        kinds.append(k)
    return bytes(b[:MAX_INPUT]), kinds


# ------------------------------------------------------------------------------------ corpora
class Seed:
    __slots__ = ('name', 'data', 'lang', 'origin')

    def __init__(self, name, data, lang, origin):
        self.name = name
        self.data = data
        self.lang = lang        # 'c' | 'c++'
        self.origin = origin    # fuzz-crash | fuzz-crash_c | fuzz-timeout | cfg | samples | progen


def _read(p):
    with open(p, 'rb') as f:
        return f.read()


def shipped_fuzz():
    """all reproducers the repository ships, with the language its own fuzz_test.py uses"""
    out = []
    base = os.path.join(build.REPO, 'test', 'cli')
    for d, lang in (('fuzz-crash', 'c++'), ('fuzz-crash_c', 'c'), ('fuzz-timeout', 'c++')):
        p = os.path.join(base, d)
        if os.path.isdir(p):
            for f in sorted(os.listdir(p)):
                out.append(Seed('%s/%s' % (d, f), _read(os.path.join(p, f)), lang, d))
    return out


def sample_files():
    out = []
    base = os.path.join(build.REPO, 'samples')
    for root, _dirs, files in sorted(os.walk(base)):
        for f in sorted(files):
            if f.endswith(('.c', '.cpp')):
                out.append(Seed('samples/%s/%s' % (os.path.basename(root), f), _read(os.path.join(root, f)),
                                'c' if f.endswith('.c') else 'c++', 'samples'))
    return out


def cfg_test_files():
    base = os.path.join(build.REPO, 'test', 'cfg')
    return [os.path.join(base, f) for f in sorted(os.listdir(base)) if f.endswith(('.c', '.cpp'))]


def cfg_slice(rng, path, maxbytes=3000):
    """A slice of a test/cfg file: its #include/#define prologue plus 1-3 consecutive top-level
    chunks (cut after lines that are exactly '}')."""
    text = _read(path).decode('utf-8', 'replace')
    lines = text.split('\n')
    pro = [l for l in lines[:120] if l.startswith('#include') or l.startswith('#define')][:12]
    chunks, cur = [], []
    for l in lines:
        cur.append(l)
        if l.rstrip() in ('}', '};'):
            chunks.append(cur)
            cur = []
    if not chunks:
        chunks = [lines[:60]]
    i = rng.randrange(len(chunks))
    body = []
    for c in chunks[i:i + rng.randint(1, 3)]:
        body += c
    # drop a leading prologue inside the first chunk (license header, includes)
    body = [l for l in body if not l.startswith('#include')]
    s = '\n'.join(pro + body) + '\n'
    s = s[:maxbytes]
    lang = 'c' if path.endswith('.c') else 'c++'
    return Seed('test/cfg/%s[%d]' % (os.path.basename(path), i), s.encode('utf-8', 'replace'), lang, 'cfg')


def progen_seed(rng, size=0.6):
    from . import progen
    lang = rng.choice(['c', 'cpp'])
    p = progen.gen(rng, lang, size=size, profile='full')
    return Seed('progen', p.plain.encode(), 'c' if lang == 'c' else 'c++', 'progen')
