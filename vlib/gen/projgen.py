"""Seeded generator of small multi-file C/C++ projects with seeded findings of many kinds.

A project is a dict relpath -> text plus the list of source files. Snippets are functions with
unique names; each snippet names the finding ids it is *aimed* at (used only for evidence — the
relation oracles never rely on it).
"""
import random

# (name, lang, text-template using {n} for a unique suffix, aimed ids)
SNIPPETS = [
    ('nullptr', 'any', 'void np_{n}(void) {{\n    int *p = 0;\n    *p = {k};\n}}\n', ['nullPointer']),
    ('zerodiv', 'any', 'int zd_{n}(int x) {{\n    int z = 0;\n    return x / z;\n}}\n', ['zerodiv']),
    ('oob', 'any', 'void ob_{n}(void) {{\n    int a[{k4}];\n    a[{k4}] = 0;\n}}\n', ['arrayIndexOutOfBounds']),
    ('oobneg', 'any', 'int on_{n}(void) {{\n    int a[4] = {{0}};\n    int i = -1;\n    return a[i];\n}}\n', ['negativeIndex']),
    ('uninit', 'any', 'int un_{n}(void) {{\n    int x;\n    return x + {k};\n}}\n', ['uninitvar']),
    ('leak', 'any', 'void lk_{n}(void) {{\n    char *p = (char*)malloc({k4});\n    if (!p)\n        return;\n    p[0] = 0;\n}}\n', ['memleak']),
    ('fleak', 'any', 'void fl_{n}(const char *name) {{\n    FILE *f = fopen(name, "r");\n    if (!f)\n        return;\n    (void)fgetc(f);\n}}\n', ['resourceLeak']),
    ('dfree', 'any', 'void df_{n}(void) {{\n    char *p = (char*)malloc(8);\n    free(p);\n    free(p);\n}}\n', ['doubleFree']),
    ('shift', 'any', 'unsigned sh_{n}(unsigned x) {{\n    return x << 40;\n}}\n', ['shiftTooManyBits']),
    ('unread', 'any', 'void ur_{n}(int v) {{\n    int x = v + {k};\n    x = 0;\n}}\n', ['unreadVariable']),
    ('unusedvar', 'any', 'void uv_{n}(void) {{\n    int unused_{n};\n}}\n', ['unusedVariable']),
    ('knowncond', 'any', 'int kc_{n}(void) {{\n    int x = {k};\n    if (x == {k})\n        return 1;\n    return 0;\n}}\n', ['knownConditionTrueFalse']),
    ('dupbranch', 'any', 'int db_{n}(int x) {{\n    int r;\n    if (x > {k})\n        r = 1;\n    else\n        r = 1;\n    return r;\n}}\n', ['duplicateBranch']),
    ('redundantcheck', 'any', 'void rc_{n}(int *p) {{\n    *p = {k};\n    if (p)\n        *p = 0;\n}}\n', ['nullPointerRedundantCheck']),
    ('selfassign', 'any', 'void sa_{n}(int x) {{\n    x = x;\n}}\n', ['selfAssignment']),
    ('addr2int', 'c', 'int ai_{n}(int *p) {{\n    int x = p;\n    return x;\n}}\n', ['AssignmentAddressToInteger']),
    ('constparam', 'any', 'int cp_{n}(int *p) {{\n    return p[0] + {k};\n}}\n', ['constParameterPointer']),
    ('varscope', 'any', 'int vs_{n}(int c) {{\n    int t = 0;\n    if (c) {{\n        t = c * {k};\n        return t;\n    }}\n    return 0;\n}}\n', ['variableScope']),
    ('oppcond', 'any', 'int oc_{n}(int x) {{\n    if (x > {k}) {{\n        if (x < {k})\n            return 1;\n    }}\n    return 0;\n}}\n', ['oppositeInnerCondition']),
    ('sizeofptr', 'any', 'void sp_{n}(char *dst) {{\n    memset(dst, 0, sizeof(dst));\n}}\n', ['pointerSize']),
    ('bufaccess', 'any', 'void ba_{n}(void) {{\n    char buf[4];\n    memset(buf, 0, {k8});\n}}\n', ['bufferAccessOutOfBounds']),
    ('clean1', 'any', 'int ok_{n}(int a, int b) {{\n    int s = a + b;\n    if (s > {k})\n        s -= {k};\n    return s;\n}}\n', []),
    ('clean2', 'any', 'unsigned ok2_{n}(unsigned a) {{\n    unsigned r = 0;\n    for (unsigned i = 0; i < {k4}u; i++)\n        r += a ^ i;\n    return r;\n}}\n', []),
    ('passbyvalue', 'cpp', 'int pv_{n}(std::string s) {{\n    return (int)s.size() + {k};\n}}\n', ['passedByValue']),
    ('postfix', 'cpp', 'int pf_{n}(const std::vector<int> &v) {{\n    int s = 0;\n    for (std::vector<int>::const_iterator it = v.begin(); it != v.end(); it++)\n        s += *it;\n    return s;\n}}\n', ['postfixOperator']),
    ('ctoroninit', 'cpp', 'class K_{n} {{\npublic:\n    K_{n}() {{ a = {k}; }}\n    int a;\n    int b;\n}};\n', ['uninitMemberVar']),
    ('stloob', 'cpp', 'int so_{n}(void) {{\n    std::vector<int> v;\n    return v[{k4}];\n}}\n', ['containerOutOfBounds']),
    ('cstyle', 'cpp', 'int *cs_{n}(void *p) {{\n    return (int*)p;\n}}\n', ['cstyleCast']),
    ('noexplicit', 'cpp', 'class E_{n} {{\npublic:\n    E_{n}(int v) : m(v) {{}}\n    int get() const {{ return m; }}\nprivate:\n    int m;\n}};\n', ['noExplicitConstructor']),
    ('inconclusive_member', 'cpp', 'class M_{n} {{\npublic:\n    M_{n}() : x(0) {{}}\n    int calc(int a) {{ return a * {k}; }}\n    int x;\n}};\n', ['functionStatic', 'functionConst']),
]

# snippets safe to put into a shared header (as static inline) -> findings in headers
HEADER_SNIPPETS = ['nullptr', 'zerodiv', 'oob', 'uninit', 'knowncond', 'unread', 'clean1']

CTU_KINDS = ['ctunull', 'ctuuninit', 'ctuarray', 'unused', 'odr']

C_PRELUDE = '#include <stdio.h>\n#include <stdlib.h>\n#include <string.h>\n'
CPP_PRELUDE = '#include <cstdio>\n#include <cstdlib>\n#include <cstring>\n#include <string>\n#include <vector>\n'


class Project:
    def __init__(self):
        self.files = {}      # relpath -> text
        self.sources = []    # relpaths handed to cppcheck
        self.aimed = []      # ids aimed at
        self.lang = 'c'

    def write(self, root):
        import os
        for rel, text in self.files.items():
            p = os.path.join(root, rel)
            os.makedirs(os.path.dirname(p), exist_ok=True)
            with open(p, 'w') as f:
                f.write(text)

    def digest(self):
        from ..core import sha1
        return sha1(*[k + '\0' + v for k, v in sorted(self.files.items())])


def _fmt(tpl, n, rng):
    return tpl.format(n=n, k=rng.randint(1, 99), k4=rng.choice([2, 3, 4, 5, 8, 10]),
                      k8=rng.choice([8, 9, 16, 32]))


def gen(rng, nfiles=None, lang=None, headers=True, ctu=True, nsnip=(2, 7), subdirs=False,
        snippet_filter=None, modehdr=False):
    """Generate a project. lang: 'c', 'cpp' or None (random per project)."""
    p = Project()
    lang = lang or rng.choice(['c', 'cpp'])
    p.lang = lang
    ext = '.c' if lang == 'c' else '.cpp'
    nf = nfiles if isinstance(nfiles, int) else rng.randint(*(nfiles or (2, 6)))
    pool = [s for s in SNIPPETS if s[1] in ('any', lang) and (not snippet_filter or snippet_filter(s))]
    uid = [0]

    def nextid():
        uid[0] += 1
        return '%d' % uid[0]

    hdrs = []
    if headers:
        for h in range(rng.randint(1, 2)):
            hname = 'inc/h%d.h' % h if subdirs else 'h%d.h' % h
            guard = 'H%d_H' % h
            body = '#ifndef %s\n#define %s\n' % (guard, guard)
            body += '#define HMAC%d(x) ((x) + %d)\n' % (h, rng.randint(1, 9))
            body += 'struct S%d { int a; int b; };\n' % h
            for _ in range(rng.randint(0, 2)):
                sn = rng.choice([s for s in pool if s[0] in HEADER_SNIPPETS])
                txt = _fmt(sn[2], 'h%d_%s' % (h, nextid()), rng)
                body += 'static inline ' + txt
                p.aimed += sn[3]
            if modehdr:
                # a finding that exists only for some including files: the includer sets HMODE<h> before the #include
                body += ('static inline int hmode%d(int sel) {\n    int v;\n#if HMODE%d == 1\n    v = 0;\n#endif\n'
                         '    return v + sel;\n}\n' % (h, h))
                p.aimed += ['uninitvar']
            body += '#endif\n'
            p.files[hname] = body
            hdrs.append(hname)

    names = []
    for i in range(nf):
        d = ''
        if subdirs and rng.random() < 0.5:
            d = rng.choice(['src/', 'src/a/', 'lib/'])
        names.append('%sf%d%s' % (d, i, ext))
    ctu_plan = []
    if ctu and nf >= 2:
        for _ in range(rng.randint(1, 3)):
            kind = rng.choice(CTU_KINDS)
            a, b = rng.sample(range(nf), 2)
            ctu_plan.append((kind, a, b, nextid()))

    if ctu_plan:
        protos = '#ifndef CTU_H\n#define CTU_H\n'
        for kind, a, b, n in ctu_plan:
            protos += {'ctunull': 'void cn_%s(int *p);\n', 'ctuuninit': 'int cu_%s(const int *p);\n',
                       'ctuarray': 'void ca_%s(int *p);\n', 'unused': 'int uf_used_%s(int x);\n',
                       'odr': '/* odr %s */\n'}[kind] % n
        protos += '#endif\n'
        cname = 'inc/ctu.h' if subdirs else 'ctu.h'
        p.files[cname] = protos
    for i, name in enumerate(names):
        t = C_PRELUDE if lang == 'c' else CPP_PRELUDE
        depth = name.count('/')
        if ctu_plan:
            t += '#include "%s%s"\n' % ('../' * depth, cname)
        for hi, h in enumerate(hdrs):
            if rng.random() < 0.8:
                if modehdr:
                    t += '#define HMODE%d %d\n' % (hi, rng.choice([1, 1, 2]))
                t += '#include "%s%s"\n' % ('../' * depth, h)
        t += '\n'
        if rng.random() < 0.3:
            t += '#define LOCALMAC %d\n' % (i + 1)
        for _ in range(rng.randint(*nsnip)):
            sn = rng.choice(pool)
            t += _fmt(sn[2], 'f%d_%s' % (i, nextid()), rng) + '\n'
            p.aimed += sn[3]
        for kind, a, b, n in ctu_plan:
            if kind == 'ctunull':
                if i == a:
                    t += 'void cn_%s(int *p) {\n    *p = 1;\n}\n\n' % n
                if i == b:
                    t += 'void cncall_%s(void) {\n    int *q = 0;\n    cn_%s(q);\n}\n\n' % (n, n)
            elif kind == 'ctuuninit':
                if i == a:
                    t += 'int cu_%s(const int *p) {\n    return *p + 1;\n}\n\n' % n
                if i == b:
                    t += 'int cucall_%s(void) {\n    int x;\n    return cu_%s(&x);\n}\n\n' % (n, n)
            elif kind == 'ctuarray':
                if i == a:
                    t += 'void ca_%s(int *p) {\n    p[10] = 0;\n}\n\n' % n
                if i == b:
                    t += 'void cacall_%s(void) {\n    int arr[5];\n    ca_%s(arr);\n}\n\n' % (n, n)
            elif kind == 'unused':
                if i == a:
                    t += 'int uf_used_%s(int x) {\n    return x + 1;\n}\nint uf_unused_%s(int x) {\n    return x + 2;\n}\n\n' % (n, n)
                if i == b:
                    t += 'int ufcall_%s(void) {\n    return uf_used_%s(3);\n}\n\n' % (n, n)
            elif kind == 'odr' and lang == 'cpp':
                if i == a:
                    t += 'struct Odr_%s {\n    int a;\n    int geta() const { return a; }\n};\n\n' % n
                if i == b:
                    t += 'struct Odr_%s {\n    long a;\n    long b;\n    long geta() const { return a + b; }\n};\n\n' % n
        if i == 0:
            t += 'int main(void) {\n    return 0;\n}\n'
        p.files[name] = t
        p.sources.append(name)
    for kind, a, b, n in ctu_plan:
        p.aimed.append({'ctunull': 'ctunullpointer', 'ctuuninit': 'ctuuninitvar',
                        'ctuarray': 'ctuArrayIndex', 'unused': 'unusedFunction',
                        'odr': 'ctuOneDefinitionRuleViolation'}[kind])
    return p
