"""xmlgen — cppcheck XML (version 2) result files with the source trees they refer to (for C36).

`gen(rng, ...)` -> Report: errors (dicts as an XML reader sees them), files to create, XML text.
Everything generated is well-formed XML 1.0 (characters that XML cannot carry are never used).
"""
from xml.sax.saxutils import escape

IDS = ['nullPointer', 'arrayIndexOutOfBounds', 'uninitvar', 'unusedFunction', 'missingIncludeSystem',
       'misra-c2012-10.4', 'premium-cert-exp34-c', 'clang-tidy-bugprone-foo', 'syntaxError', 'internalError',
       'unmatchedSuppression', 'knownConditionTrueFalse', 'a_b-c.d', 'X1', 'unreadVariable', 'memleak',
       'ctuuninitvar', 'y2038-unsafe-call', 'threadsafety-threadsafety', 'checkersReport']
SEVERITIES = ['error', 'warning', 'style', 'performance', 'portability', 'information']
UNKNOWN_SEVERITIES = ['critical', 'none', 'debug', 'note', 'Error', 'internal']
PLAIN_WORDS = ['Null', 'pointer', 'dereference:', 'p', "Array 'a[2]'", 'accessed', 'at', 'index', '2,', 'which', 'is',
               'out', 'of', 'bounds.', 'Variable', "'x'", 'value', '"quoted"', 'ünï', '中文', 'Ω', '\U0001f600',
               '100%', '%s', 'a/b', 'x=y', 'f(1,2)', '[tag]', '{brace}', 'semi;colon', '#1', '$sym', '~', '|', '\\',
               '\\n', 'tab\there', '  two  spaces']
# words with characters that are special in HTML
HTML_WORDS = ['<script>alert(1)</script>', '<b>', '</td>', '&', '&amp;', '&lt;', 'a<b', 'x>y', 'a&&b', '<!--', '-->',
              'std::vector<int>', '&#60;', '<img src=x onerror=alert(1)>', ']]>', '<', '>', '</span>', '&nbsp;', '<br/>']


def attr(s):
    """XML attribute value literal preserving tab / newline / CR"""
    s = escape(s, {'"': '&quot;', '\n': '&#10;', '\t': '&#9;', '\r': '&#13;'})
    return '"' + s + '"'


def has_html_special(s):
    return any(c in s for c in '<>&')


def text(rng, html=True, nmax=9):
    ws = []
    for _ in range(rng.randint(1, nmax)):
        if html and rng.random() < 0.3:
            ws.append(rng.choice(HTML_WORDS))
        else:
            ws.append(rng.choice(PLAIN_WORDS))
    return ' '.join(ws)


SRC_LINES = ['int f%d(int x) {', '    int a[2];', '    a[2] = x; // comment <tag> & "q"', '    return x ? 1 : 0;', '}', '',
             '#include <stdio.h>', 'static const char *s = "str\\n";', '/* block', '   comment */',
             'template <class T> struct S { T v; };', '\tint tabbed = 0;', 'int ünï = 0; // 中文']


class Report:
    def __init__(self):
        self.errors = []        # dicts: id severity msg verbose cwe inconclusive locations[(file,line,info)] file0
        self.files = {}         # relative path -> ('text', str) | ('binary', bytes) | ('dir', None) | ('dangling', None)
        self.nlines = {}        # readable text file -> number of lines
        self.kinds = {}         # every referenced file -> text|missing|binary|dir|dangling|empty|crlf|nonl
        self.xml = ''

    def readable(self, f):
        return f in self.files and self.files[f][0] == 'text'


def _file_pool(rng, rep, n):
    pool = []
    names = ['a.c', 'src/b.cpp', 'inc/h.h', 'deep/er/dir/x.cc', 'noext', 'sp ace.c', 'unié.c', 'q\'uote.c', 'semi;.c',
             'plus+.c', 'pct%41.c', 'hash#.c', 'script.py', 'w.txt']
    rng.shuffle(names)
    for name in names[:n]:
        kind = rng.choices(['text', 'missing', 'binary', 'dir', 'dangling', 'empty', 'crlf', 'nonl'],
                           [10, 3, 1.5, 0.7, 0.7, 0.7, 1, 1])[0]
        if kind == 'text':
            nl = rng.randint(3, 40)
            rep.files[name] = ('text', ''.join(rng.choice(SRC_LINES).replace('%d', str(i)) + '\n' for i in range(nl)))
            rep.nlines[name] = nl
        elif kind == 'crlf':
            nl = rng.randint(3, 12)
            rep.files[name] = ('text', ''.join(rng.choice(SRC_LINES).replace('%d', str(i)) + '\r\n' for i in range(nl)))
            rep.nlines[name] = nl
        elif kind == 'nonl':
            nl = rng.randint(2, 9)
            rep.files[name] = ('text', '\n'.join(rng.choice(SRC_LINES[:5]).replace('%d', str(i)) for i in range(nl)))
            rep.nlines[name] = nl
        elif kind == 'empty':
            rep.files[name] = ('text', '')
            rep.nlines[name] = 0
        elif kind == 'binary':
            rep.files[name] = ('binary', bytes(rng.randint(0, 255) for _ in range(rng.randint(20, 400))) + b'\xff\xfe\x00')
        elif kind == 'dir':
            rep.files[name] = ('dir', None)
        elif kind == 'dangling':
            rep.files[name] = ('dangling', None)
        rep.kinds[name] = kind
        pool.append(name)
    return pool


def gen(rng, nmax=300, html_in_annotations=False, html_in_ids=False, html_in_files=False, html_in_severity=False,
        multiline_verbose_in_annotations=False):
    """html_in_* = False are generator exclusions named by known findings of C36 (known/C36.txt)."""
    rep = Report()
    n = rng.choice([0, 1, 2, rng.randint(3, 12), rng.randint(3, 40), rng.randint(0, nmax)])
    pool = _file_pool(rng, rep, rng.randint(1, 8))
    if html_in_files:
        pool += ['amp&.c', 'lt<.c']
    for i in range(n):
        e = {'id': rng.choice(IDS), 'severity': rng.choice(SEVERITIES) if rng.random() < 0.85 else rng.choice(UNKNOWN_SEVERITIES)}
        if html_in_ids and rng.random() < 0.05:
            e['id'] = rng.choice(['a&b', 'x<y', '<i>id</i>'])
        if html_in_severity and rng.random() < 0.05:
            e['severity'] = rng.choice(['st&yle', '<b>error</b>'])
        nloc = rng.choices([0, 1, 2, 3], [1, 8, 2, 1])[0]
        locs = []
        annotated = False
        for j in range(nloc):
            f = rng.choice(pool)
            if rep.readable(f) and rep.nlines[f] > 0:
                line = rng.choice([rng.randint(1, rep.nlines[f])] * 6 + [0, rep.nlines[f] + rng.randint(2, 100)])
            elif rep.readable(f):
                # empty source: the report shows one (empty) line; 'line 1' of it is left out as ambiguous
                line = rng.choice([0, rng.randint(3, 50)])
            else:
                line = rng.choice([0, 1, rng.randint(1, 500)])
            info = '' if rng.random() < 0.6 else 'note %s' % text(rng, html=False, nmax=4)
            locs.append((f, line, info))
        if locs:
            pf = locs[0][0]
            for (f, line, info) in locs:
                if f == pf and rep.readable(f) and 1 <= line <= rep.nlines[f]:
                    annotated = True
        html_ok = html_in_annotations or not annotated
        msg = text(rng, html=html_ok)
        if rng.random() < 0.1:
            msg += ' #%d' % i
        e['msg'] = msg
        r = rng.random()
        if r < 0.5:
            e['verbose'] = msg
        elif r < 0.9:
            ml = multiline_verbose_in_annotations or not annotated
            e['verbose'] = msg + ' ' + text(rng, html=html_ok) + (rng.choice(['', '\\012second line']) if ml else '')
        # else no verbose attribute
        if rng.random() < 0.3:
            e['cwe'] = str(rng.choice([398, 476, 561, 788, 119]))
        if rng.random() < 0.1:
            e['inconclusive'] = 'true'
        if locs and rng.random() < 0.7:
            e['file0'] = locs[-1][0]
        e['locations'] = locs
        if rng.random() < 0.2:
            e['symbols'] = [rng.choice(['p', 'a', 'x<y>', 'f'])]
        rep.errors.append(e)
        if rng.random() < 0.04:
            rep.errors.append(dict(e))          # exact duplicate element
    out = ['<?xml version="1.0" encoding="UTF-8"?>', '<results version="2">', '    <cppcheck version="2.21 dev"/>',
           '    <errors>']
    for e in rep.errors:
        a = ' id=%s severity=%s msg=%s' % (attr(e['id']), attr(e['severity']), attr(e['msg']))
        if 'verbose' in e:
            a += ' verbose=%s' % attr(e['verbose'])
        if 'cwe' in e:
            a += ' cwe=%s' % attr(e['cwe'])
        if 'inconclusive' in e:
            a += ' inconclusive="true"'
        if 'file0' in e:
            a += ' file0=%s' % attr(e['file0'])
        if not e['locations'] and 'symbols' not in e:
            out.append('        <error%s/>' % a)
            continue
        out.append('        <error%s>' % a)
        for (f, line, info) in e['locations']:
            out.append('            <location file=%s line="%d" column="%d"%s/>' % (
                attr(f), line, rng.randint(0, 80), (' info=%s' % attr(info)) if info else ''))
        for s in e.get('symbols', []):
            out.append('            <symbol>%s</symbol>' % escape(s))
        out.append('        </error>')
    out += ['    </errors>', '</results>', '']
    rep.xml = '\n'.join(out)
    return rep
