"""litgen — literal spellings and integer constant expressions (C10).

Built on exprgen's Node/Printer (same unit layout: exprgen's prelude, one function whose parameters
are variables of every type, one statement per line, every node knows the position of its token).

Statements are `ll1 = <integer constant expression>;` and `ld1 = <floating literal / simple floating
constant expression>;`.  Leaves: integer literals in all bases with every suffix combination (and
digit separators in C++), character literals with all prefixes, simple / octal / hex / universal
escapes and multi-character constants, true/false, enumerators, sizeof(type), sizeof applied to
variables, arrays, struct objects, members and non-constant expressions.  Operators: + - * / % << >>
& | ^ ~ ! unary-, comparisons, && ||, ?:, casts (C casts, C++ static_cast and functional casts).
Nothing guarantees that an expression is free of overflow / division by zero: the reference compiler
rejects such an expression as non-constant and the case is dropped.
"""
from .exprgen import (Node, Printer, emit, Unit, Gen, BINPREC, P_UNARY, P_COND, P_ASSIGN, P_POST, ARRAYS)

SUFFIXES = ['', '', '', 'u', 'U', 'l', 'L', 'ul', 'uL', 'Ul', 'UL', 'lu', 'lU', 'Lu', 'LU', 'll', 'LL', 'ull', 'uLL',
            'Ull', 'ULL', 'llu', 'LLu', 'llU', 'LLU']
EDGES = [0, 1, 2, 7, 8, 9, 10, 15, 16, 63, 64, 100, 127, 128, 129, 255, 256, 257, 1000, 32767, 32768, 32769, 65535,
         65536, 65537, 100000, 2147483647, 2147483648, 2147483649, 4294967295, 4294967296, 4294967297,
         9223372036854775807, 9223372036854775808, 18446744073709551615]

SIMPLE_ESC = ['\\n', '\\t', '\\\\', "\\'", '\\"', '\\?', '\\a', '\\b', '\\f', '\\r', '\\v', '\\0']
PLAIN_CH = list('abcxyzABCZ0189 !#%&()*+,-./:;<=>[]^_{|}~@$`')


class LitGen:
    def __init__(self, rng, lang='c', excl=()):
        self.rng = rng
        self.lang = lang
        self.cxx = lang == 'c++'
        self.excl = set(excl)

    def pick(self, seq):
        return seq[self.rng.randrange(len(seq))]

    def chance(self, p):
        return self.rng.random() < p

    # ------------------------------------------------------------------ literals
    def int_value(self):
        r = self.rng.random()
        if r < 0.35:
            return self.rng.randint(0, 300)
        if r < 0.75:
            v = self.pick(EDGES) + self.rng.randint(-2, 2) * (1 if self.chance(0.3) else 0)
            return min(max(v, 0), 18446744073709551615)
        bits = self.pick([8, 15, 16, 17, 31, 32, 33, 48, 63, 64])
        return self.rng.getrandbits(bits)

    def int_literal(self, window=False):
        v = self.int_value()
        suf = self.pick(SUFFIXES)
        base = self.pick(['dec', 'dec', 'hex', 'hex', 'oct', 'bin' if self.cxx else 'hex'])
        if window:
            # the type of an unsuffixed / l-suffixed literal depends on its base exactly when the value fits the
            # unsigned but not the signed type of some rank: pick the value from such a window, in every base
            bits = self.pick([16, 32, 32, 64, 64])
            v = (1 << (bits - 1)) | self.rng.getrandbits(bits - 1) if self.chance(0.6) else (1 << bits) - 1 - self.rng.randint(0, 2)
            suf = self.pick(['', '', '', 'l', 'L', 'll'])
            base = self.pick(['dec', 'hex', 'oct', 'bin' if self.cxx else 'hex', 'bin' if self.cxx else 'oct'])
        if 'octal' in self.excl and base == 'oct':
            base = 'dec'
        if base == 'dec':
            body = str(v)
            if v > 9223372036854775807 and 'u' not in suf.lower():
                suf = 'u' + suf if self.chance(0.5) else suf + 'U'
                if suf.lower().count('u') > 1:
                    suf = 'u'
        elif base == 'hex':
            body = ('0x' if self.chance(0.7) else '0X') + (('%x' if self.chance(0.5) else '%X') % v)
        elif base == 'oct':
            body = '0' + ('%o' % v) if v else '0'
        else:
            body = ('0b' if self.chance(0.7) else '0B') + bin(v)[2:]
        if self.cxx and 'digit-sep' not in self.excl and self.chance(0.2) and len(body) > 4:
            # digit separators (C++14): between digits only
            pre = 2 if base in ('hex', 'bin') else (1 if base == 'oct' else 0)
            digs = body[pre:]
            out = digs[0]
            for ch in digs[1:]:
                if self.chance(0.3):
                    out += "'"
                out += ch
            body = body[:pre] + out
        return Node('leaf', txt=body + suf, cat='I', flags=('lit', 'int', base))

    def char_body(self, wide):
        r = self.rng.random()
        if r < 0.35:
            return self.pick(PLAIN_CH)
        if r < 0.55:
            return self.pick(SIMPLE_ESC)
        if r < 0.72:
            n = self.pick([1, 2, 3])
            v = self.rng.randint(0, 0o377 if n == 3 else (0o77 if n == 2 else 7))
            return '\\' + ('%o' % v).rjust(n, '0')[-n:]
        if r < 0.9:
            if wide == 'L' or wide == 'U':
                v = self.pick([0x41, 0x7f, 0x80, 0xff, 0x100, 0x7fff, 0x8000, 0xffff])
            elif wide == 'u':
                v = self.pick([0x41, 0x7f, 0x80, 0xff, 0x100, 0x7fff, 0x8000, 0xffff])
            else:
                v = self.pick([0x0, 0x1, 0x41, 0x7f, 0x80, 0xa0, 0xfe, 0xff])
            return '\\x' + ('%x' if self.chance(0.5) else '%X') % v
        if wide:
            return self.pick(['\\u00e9', '\\u20ac', '\\u0041']) if wide != 'U' or self.chance(0.5) else \
                self.pick(['\\U0001F600', '\\U000000e9'])
        return self.pick(PLAIN_CH)

    def char_literal(self):
        r = self.rng.random()
        if r < 0.55:
            pre = ''
        elif r < 0.75:
            pre = 'L'
        elif r < 0.85:
            pre = 'u'
        elif r < 0.95:
            pre = 'U'
        else:
            pre = 'u8' if self.cxx else ''
        if pre and 'char-prefix' in self.excl:
            pre = ''
        if pre == '' and self.chance(0.15) and 'multichar' not in self.excl:
            n = self.pick([2, 2, 3, 4])
            body = ''.join(self.pick(PLAIN_CH + ['\\n', '\\0', '\\x41', '\\101']) for _ in range(n))
            return Node('leaf', txt="'" + body + "'", cat='I', flags=('lit', 'chr', 'multi'))
        body = self.char_body(pre if pre != 'u8' else '')
        if 'char-highbit' in self.excl and pre == '':
            m = None
            if body.startswith('\\x'):
                m = int(body[2:], 16)
            elif body.startswith('\\') and body[1:].isdigit():
                m = int(body[1:], 8)
            if m is not None and m >= 0x80:
                body = 'a'
        if pre == 'u8' and body.startswith('\\x') and int(body[2:], 16) > 0x7f:
            body = 'a'
        if pre == 'u8' and body.startswith('\\') and body[1:].isdigit() and int(body[1:], 8) > 0x7f:
            # u8 character literals are char in C++17 (the reference's -std) and char8_t from C++20 (cppcheck's default)
            body = 'a'
        return Node('leaf', txt=pre + "'" + body + "'", cat='I', flags=('lit', 'chr') + ((pre,) if pre else ()))

    def float_literal(self):
        r = self.rng.random()
        ip = str(self.rng.randint(0, 9999)) if self.chance(0.8) else ''
        fp = str(self.rng.randint(0, 99999)).rjust(self.pick([1, 2, 5]), '0') if (not ip or self.chance(0.8)) else ''
        if r < 0.5:
            body = (ip or '0') + '.' + fp if (ip and self.chance(0.7)) else ip + '.' + fp
            if body == '.':
                body = '0.5'
        elif r < 0.85:
            mant = (ip or '1') + ('.' + fp if self.chance(0.6) else '')
            body = mant + self.pick(['e', 'E']) + self.pick(['', '+', '-']) + str(self.rng.randint(0, 20))
        else:
            body = (ip or '0') + '.'
        suf = self.pick(['', '', '', 'f', 'F', 'l', 'L'])
        return Node('leaf', txt=body + suf, cat='F', flags=('lit', 'flt'))

    # ------------------------------------------------------------------ leaves / trees
    def sizeof_leaf(self):
        r = self.rng.random()
        S = 'S' if self.cxx else 'struct S'
        if r < 0.4:
            ts = ['char', 'signed char', 'unsigned char', 'short', 'unsigned short', 'int', 'unsigned', 'long',
                  'unsigned long', 'long long', 'unsigned long long', 'float', 'double', 'long double', 'int *',
                  'char *', S + ' *', 'void *', 'double *', 'int * *', S, 'E' if self.cxx else 'enum E',
                  'bool' if self.cxx else '_Bool']
            if self.cxx:
                ts.append('wchar_t')
            if 'sizeof-struct' in self.excl:
                ts = [t for t in ts if t not in (S, S + ' *')]
            ts += ['P' if self.cxx else 'struct P'] * 2
            return Node('szt', extra=self.pick(ts), prec=P_UNARY, cat='I')
        names = ['b1', 'c1', 'sc1', 'uc1', 's1', 'us1', 'i1', 'u1', 'l1', 'ul1', 'll1', 'ull1', 'e1', 'f1', 'd1', 'ld1',
                 'pi1', 'pc1', 'ps1', 'ppi1', 'ai1', 'ac1', 'aus1', 'ad1']
        if 'sizeof-struct' not in self.excl:
            names += ['st1', 'as1']
        if r < 0.75:
            x = Node('leaf', txt=self.pick(names), cat='I', flags=('var',))
        else:
            forms = ['*pi1', '*pc1', 'ai1[0]', 'ac1[1]', 'st1.m', 'st1.uc', 'st1.d', 'st1.arr', 'ps1->lg', 'ps1->next',
                     'i1 + l1', 'c1 + c1', 'uc1 + 1', 'f1 + d1', 'i1 + 1u', 'l1 + 1ul', 's1 + us1', 'pi1 + 1', '*ppi1']
            if 'sizeof-struct' not in self.excl:
                forms += ['*ps1', 'as1[0]']
            return Node('sze', ch=[Node('leaf', txt=self.pick(forms), cat='I', flags=('raw',))], prec=P_UNARY, cat='I',
                        flags=('paren',))
        return Node('sze', ch=[x], prec=P_UNARY, cat='I', flags=('paren',) if self.chance(0.7) else ())

    def leaf(self):
        r = self.rng.random()
        if r < 0.12:
            # type-revealing context: the literal's type (not only its value) decides the result of ~ and of a
            # comparison against a negative int
            x = self.int_literal(window=True)
            if 'compare' in self.excl or self.chance(0.55):
                return Node('pre', op='~', ch=[x], prec=P_UNARY, cat='I')
            m1 = Node('pre', op='~', ch=[Node('leaf', txt='0', cat='I', flags=('lit', 'int', 'dec'))], prec=P_UNARY, cat='I')
            op = self.pick(['<', '>', '<=', '>='])
            return Node('bin', op=op, ch=[m1, x] if self.chance(0.5) else [x, m1], prec=BINPREC[op], cat='I')
        if r < 0.5:
            return self.int_literal()
        if r < 0.68:
            return self.char_literal()
        if r < 0.76:
            return Node('leaf', txt=self.pick(['EM', 'E0', 'E1', 'E2']), cat='I', flags=('enumerator',))
        if r < 0.80 and self.cxx:
            return Node('leaf', txt=self.pick(['true', 'false']), cat='I', flags=('lit', 'bool'))
        if 'sizeof' in self.excl:
            return self.int_literal()
        return self.sizeof_leaf()

    def small(self):
        return Node('leaf', txt=str(self.rng.randint(0, 20)), cat='I', flags=('lit', 'int', 'dec'))

    def int_type(self):
        ts = ['char', 'signed char', 'unsigned char', 'short', 'unsigned short', 'int', 'unsigned int', 'unsigned',
              'long', 'unsigned long', 'long long', 'unsigned long long']
        if 'cast-bool' not in self.excl:
            ts.append('bool' if self.cxx else '_Bool')
        return self.pick(ts)

    def ice(self, d):
        if d <= 0:
            return self.leaf()
        r = self.rng.random()
        sub = lambda: self.ice(self.rng.randint(0, d - 1))
        if r < 0.30:
            op = self.pick(['+', '-', '*', '+', '-'])
            return self.bin(op, sub(), sub())
        if r < 0.38:
            op = self.pick(['/', '%'])
            return self.bin(op, sub(), self.nonzero())
        if r < 0.46:
            return self.bin(self.pick(['<<', '>>']), sub(), self.small())
        if r < 0.56:
            return self.bin(self.pick(['&', '|', '^']), sub(), sub())
        if r < 0.66:
            if 'compare' in self.excl:
                return self.leaf()
            return self.bin(self.pick(['<', '<=', '>', '>=', '==', '!=']), sub(), sub())
        if r < 0.71:
            if 'compare' in self.excl:
                return self.leaf()
            return self.bin('&&' if 'oror' in self.excl else self.pick(['&&', '||']), sub(), sub())
        if r < 0.80:
            x = sub()
            op = self.pick(['-', '~', '!'])
            if op == '!' and 'compare' in self.excl:
                op = '~'
            if op == '-':
                # neg-literal / sign-fold normalisations: negate through parentheses-free forms only when safe
                if x.k == 'leaf' and (x.txt[:1].isdigit()):
                    op = '~'
                elif x.k == 'pre' and x.op == '-':
                    op = '~'
            if op == '!' and x.k == 'cast' and '*' not in x.extra:
                x = x.ch[0]
            return Node('pre', op=op, ch=[x], prec=P_UNARY, cat='I')
        if r < 0.86:
            if 'cond' in self.excl:
                return self.leaf()
            return Node('cond', ch=[sub(), sub(), sub()], prec=P_COND, cat='I')
        t = self.int_type()
        x = sub()
        if self.cxx and self.chance(0.4):
            if self.chance(0.5) and ' ' not in t:
                if x.k == 'bin' and x.op == ',':
                    x = x.ch[1]
                return Node('fcast', op=t, ch=[x], cat='I')
            return Node('ncast', op='static_cast', txt=t, ch=[x], cat='I')
        return Node('cast', extra=t, ch=[x], prec=P_UNARY, cat='I')

    def nonzero(self):
        for _ in range(20):
            n = self.int_literal()
            if any(c in '123456789' for c in n.txt.split("'")[0] if True) and not n.txt.startswith(('0x0', '00')):
                if n.txt.rstrip('uUlL') not in ('0', '0x0', '0X0', '0b0', '0B0', '00'):
                    return n
        return Node('leaf', txt='3', cat='I', flags=('lit', 'int', 'dec'))

    def bin(self, op, a, b):
        if op in ('+', '-'):
            # sign-fold normalisation: the right operand never starts with unary minus
            if b.k == 'pre' and b.op == '-':
                b = Node('pre', op='~', ch=b.ch, prec=P_UNARY, cat='I')
        if self.cxx and a.k == 'leaf' and b.k == 'leaf' and a.txt[:1].isdigit() and b.txt[:1].isdigit():
            # angle-fold normalisation: no `num op num` in C++ — wrap the right literal into a cast
            b = Node('cast', extra='int', ch=[b], prec=P_UNARY, cat='I') if self.chance(0.5) else \
                Node('pre', op='~', ch=[b], prec=P_UNARY, cat='I')
        return Node('bin', op=op, ch=[a, b], prec=BINPREC[op], cat='I')

    def fce(self, d):
        r = self.rng.random()
        if d <= 0 or r < 0.6:
            return self.float_literal()
        if r < 0.75:
            x = self.float_literal()
            t = self.pick(['float', 'double', 'long double'])
            return Node('cast', extra=t, ch=[self.int_literal() if self.chance(0.5) else x], prec=P_UNARY, cat='F')
        op = self.pick(['+', '-', '*', '/'])
        a, b = self.float_literal(), (self.float_literal() if self.chance(0.6) else self.nonzero())
        if op == '/' and b.txt.rstrip('fFlL').strip('0.') == '':
            b = Node('leaf', txt='2.0', cat='F', flags=('lit', 'flt'))
        if self.cxx and op:
            b = Node('cast', extra='double', ch=[b], prec=P_UNARY, cat='F')
        return Node('bin', op=op, ch=[a, b], prec=BINPREC[op], cat='F')

    def statement(self):
        r = self.rng.random()
        if r < 0.8:
            e = self.ice(self.pick([0, 0, 1, 1, 2, 2, 3, 4]))
            if 0.72 < r:
                # `~literal` as the whole initialiser or as the operand of a widening cast: the result shows the width
                # and signedness the analyzer gave the literal
                e = Node('pre', op='~', ch=[self.int_literal(window=True)], prec=P_UNARY, cat='I')
                if self.chance(0.3):
                    e = Node('cast', extra=self.pick(['long long', 'unsigned long long']), ch=[e], prec=P_UNARY, cat='I')
            if r < 0.1 and e.k not in ('bin',):
                # integer cast of a floating literal
                e = Node('cast', extra=self.pick(['int', 'long long', 'unsigned']), ch=[self.float_literal()],
                         prec=P_UNARY, cat='I')
            lhs = Node('leaf', txt='ll1', cat='I', flags=('var',))
            if e.k == 'leaf' and e.txt[:1].isalpha() and "'" not in e.txt:
                pass
            return Node('assign', op='=', ch=[lhs, e], prec=P_ASSIGN, cat='I')
        e = self.fce(self.pick([0, 0, 0, 1]))
        return Node('assign', op='=', ch=[Node('leaf', txt='ld1', cat='F', flags=('var',)), e], prec=P_ASSIGN, cat='F')


def gen_unit(rng, lang='c', nstmts=50, excl=()):
    lg = LitGen(rng, lang, excl)
    g = Gen(rng, lang)
    u = Unit(lang)
    for l in g.prelude().rstrip('\n').split('\n'):
        u.lines.append(l)
    head, decls = g.func_header('t1')
    u.lines.append(head)
    u.lines.append(decls)
    for _ in range(nstmts):
        st = lg.statement()
        line = len(u.lines) + 1
        p = Printer(line, 3)
        emit(p, st, 0, False, g.cxx)
        u.lines.append('  ' + p.text() + ';')
        u.stmts[line] = st
    u.tail_line = len(u.lines) + 1      # probes are inserted before this line
    u.lines.append('  return 0;')
    u.lines.append('}')
    u.gen = g
    return u
