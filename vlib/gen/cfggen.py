"""Library configuration (.cfg) generators for C30.

(a) loading workload
    random_cfg(rng)                 a generated configuration using most element kinds of cfg/cppcheck-cfg.rng,
                                    with plausible and implausible attribute values
    subset_of_shipped(rng, path)    a small <def> made of randomly chosen top-level elements of a shipped cfg
    structure_mutant(rng, xml)      XML-structure mutation (delete/duplicate/move/rename element, drop/alter/add
                                    attribute, alter text, deepen nesting)
(b) semantics workload
    semantic_case(rng)              cfg declaring functions whose arguments carry <valid>, <not-null/>,
                                    <not-bool/>, plus a C caller passing constants inside/on/outside each boundary
                                    and the expectation per call (model: models/validrange.py)
"""
import copy
import xml.etree.ElementTree as ET
from fractions import Fraction

from ..models import validrange

# ----------------------------------------------------------------------------------- (a) loading
NAMES = ['foo', 'bar', 'std::foo', 'ns::cls::m', 'a,b', 'x<int>', 'operator<', '', ' ', 'f o o', 'é', 'a::', '::a',
         'malloc', 'free', 'strcpy', 'printf', 'QString::arg', 'A' * 300]
VALUES = ['0', '1', '-1', 'any', 'variadic', 'true', 'false', 'in', 'out', 'inout', '', '2', '99', '4294967296', 'x',
          '1.5', 'arg1', 'strlen', 'argvalue', 'sizeof', 'mul', 'value', 'first', 'last', 'resize', 'push', 'pop',
          'size', 'at_index', 'item', 'buffer', 'start-iterator', 'end-iterator', 'std-like', 'c', 'c++', 'error',
          'warning', 'style', 'Obsolete', 'C99', 'malloc', 'calloc', 'int', 'void *', 'unsigned long long']
VALID_EXPRS = ['0:', ':0', '0:10', '-10:20', '0,3,5', '0,2:32', '-1.5:5.6', '!0.0', '1:', '', ':', '1:2:3', '--1', '1-2', 'a',
               '1e3:1e5', '.5', '5.', '1,,2', '0x10', '9223372036854775808', '-9223372036854775809:1', '1E400:', '!', '!a']


def _sub(parent, tag, text=None, **attrs):
    e = ET.SubElement(parent, tag)
    for k, v in attrs.items():
        if v is not None:
            e.set(k.replace('_', '-'), str(v))
    if text is not None:
        e.text = text
    return e


def random_cfg(rng):
    r = rng
    root = ET.Element('def')
    if r.random() < 0.9:
        root.set('format', r.choice(['1', '2', '2', '2', '3', '0', '', 'x']))

    def val():
        return r.choice(VALUES)

    for _ in range(r.randint(1, 10)):
        k = r.choice(['function', 'function', 'function', 'memory', 'resource', 'container', 'podtype', 'define',
                      'smart-pointer', 'type-checks', 'markup', 'platformtype', 'reflection', 'entrypoint', 'bogus'])
        if k == 'function':
            f = _sub(root, 'function', name=r.choice(NAMES))
            for _ in range(r.randint(0, 6)):
                c = r.choice(['noreturn', 'pure', 'const', 'leak-ignore', 'use-retval', 'returnValue', 'formatstr', 'warn',
                              'arg', 'arg', 'arg', 'ignorefunction', 'not-overlapping-data', 'container', 'bogus'])
                if c == 'noreturn':
                    _sub(f, c, text=r.choice(['true', 'false', 'maybe', '']))
                elif c == 'returnValue':
                    _sub(f, c, text=r.choice([None, 'arg1', 'arg1+arg2', 'strlen(arg1)', '(', 'arg9', '0']),
                         type=r.choice([None, 'int', 'void *', 'std::string']), container=r.choice([None, '1', 'x']),
                         unknownValues=r.choice([None, 'all', '0:1']))
                elif c == 'formatstr':
                    _sub(f, c, scan=r.choice([None, 'true', 'false', 'x']), secure=r.choice([None, 'true', 'x']))
                elif c == 'warn':
                    _sub(f, c, text=r.choice([None, 'Use bar instead']), severity=val(), cstd=r.choice([None, 'c99', 'x']),
                         cppstd=r.choice([None, 'c++11']), alternatives=r.choice([None, 'a,b']), reason=r.choice([None, 'Obsolete', 'x']))
                elif c == 'not-overlapping-data':
                    _sub(f, c, ptr1_arg=val(), ptr2_arg=val(), size_arg=r.choice([None, '3']), strlen_arg=r.choice([None, '2']))
                elif c == 'container':
                    _sub(f, c, action=val(), yields=val())
                elif c == 'arg':
                    a = _sub(f, 'arg', nr=r.choice(['1', '2', '3', 'any', 'variadic', '0', '-1', 'x', '', '99999999999']),
                             default=r.choice([None, '0', '""', 'x']), direction=r.choice([None, 'in', 'out', 'inout', 'x']),
                             indirect=r.choice([None, '0', '1', '2', '-1', 'x']))
                    for _ in range(r.randint(0, 4)):
                        ac = r.choice(['not-null', 'not-bool', 'not-uninit', 'strz', 'formatstr', 'valid', 'minsize', 'iterator', 'bogus'])
                        if ac == 'valid':
                            _sub(a, ac, text=r.choice(VALID_EXPRS))
                        elif ac == 'minsize':
                            _sub(a, ac, type=val(), arg=r.choice([None, '1', '2', '12', 'x']), arg2=r.choice([None, '3', 'x']),
                                 value=r.choice([None, '4', '0', '-1', 'x']), baseType=r.choice([None, 'int']))
                        elif ac == 'not-uninit':
                            _sub(a, ac, indirect=r.choice([None, '1', '2', '3', 'x']))
                        elif ac == 'iterator':
                            _sub(a, ac, type=val(), container=r.choice([None, '1', 'x']))
                        else:
                            _sub(a, ac)
                else:
                    _sub(f, c, text=r.choice([None, 'x']))
        elif k in ('memory', 'resource'):
            m = _sub(root, k)
            for _ in range(r.randint(0, 4)):
                c = r.choice(['alloc', 'dealloc', 'realloc', 'use', 'bogus'])
                _sub(m, c, text=r.choice(NAMES), init=r.choice([None, 'true', 'false', 'x']), arg=r.choice([None, '1', '2', 'x', '-1']),
                     buffer_size=r.choice([None, 'malloc', 'calloc', 'strdup', 'malloc:1', 'calloc:1,2', 'x:']),
                     realloc_arg=r.choice([None, '1', 'x']))
        elif k == 'container':
            c = _sub(root, 'container', id=r.choice(['c1', 'stdVector', '', 'c1']), startPattern=r.choice([None, 'std :: vector <', '%', '']),
                     endPattern=r.choice([None, '> !!::', '']), inherits=r.choice([None, 'c1', 'nonexistent', 'stdVector']),
                     opLessAllowed=r.choice([None, 'true', 'x']), itEndPattern=r.choice([None, ':: iterator']),
                     hasInitializerListConstructor=r.choice([None, 'true']), view=r.choice([None, 'true']))
            for _ in range(r.randint(0, 4)):
                cc = r.choice(['type', 'size', 'access', 'other', 'rangeItemRecordType', 'bogus'])
                e = _sub(c, cc, templateParameter=r.choice([None, '0', '1', 'x']), string=r.choice([None, 'std-like']),
                         associative=r.choice([None, 'std-like']), unstable=r.choice([None, 'erase insert', 'x']),
                         indexOperator=r.choice([None, 'array-like']))
                for _ in range(r.randint(0, 3)):
                    _sub(e, r.choice(['function', 'member', 'bogus']), name=r.choice(NAMES), action=r.choice([None] + VALUES),
                         yields=r.choice([None] + VALUES), returnType=r.choice([None, 'int']), templateParameter=r.choice([None, '0', 'x']))
        elif k == 'podtype':
            _sub(root, k, name=r.choice(NAMES), stdtype=r.choice([None, 'int', 'bool', 'x']), size=r.choice([None, '1', '4', '0', 'x', '-1']),
                 sign=r.choice([None, 's', 'u', 'x', '']))
        elif k == 'define':
            _sub(root, k, name=r.choice(NAMES), value=r.choice(['0', '((void*)0)', '', '(']))
        elif k == 'smart-pointer':
            s = _sub(root, k, class_name=r.choice(NAMES))
            if r.random() < 0.3:
                _sub(s, r.choice(['unique', 'bogus']))
        elif k == 'type-checks':
            t = _sub(root, k)
            for _ in range(r.randint(0, 2)):
                u = _sub(t, r.choice(['unusedvar', 'operatorEqVarError', 'checkFiniteLifetime', 'bogus']))
                for _ in range(r.randint(0, 3)):
                    _sub(u, r.choice(['check', 'suppress', 'bogus']), text=r.choice(NAMES))
        elif k == 'markup':
            m = _sub(root, k, ext=r.choice(['.qml', '', 'x']), aftercode=r.choice([None, 'true']), reporterrors=r.choice([None, 'false']))
            kw = _sub(m, 'keywords')
            for _ in range(r.randint(0, 3)):
                _sub(kw, 'keyword', name=r.choice(NAMES))
            if r.random() < 0.5:
                cb = _sub(m, 'codeblocks')
                _sub(cb, 'block', name=r.choice(NAMES))
                _sub(cb, 'structure', offset=r.choice(['3', 'x', '-1']), start='{', end='}')
            if r.random() < 0.5:
                ex = _sub(m, r.choice(['exported', 'imported']))
                e2 = _sub(ex, r.choice(['exporter', 'importer']), text=r.choice([None, 'x']), prefix=r.choice([None, 'p']))
                _sub(e2, r.choice(['prefix', 'suffix', 'bogus']), text='READ')
        elif k == 'platformtype':
            p = _sub(root, k, name=r.choice(NAMES), value=r.choice([None, 'int', 'unsigned long', '']))
            for _ in range(r.randint(0, 4)):
                c = r.choice(['unsigned', 'long', 'pointer', 'const_ptr', 'ptr_ptr', 'platform', 'bogus'])
                _sub(p, c, type=r.choice([None, 'win32A', 'unix64', 'x'])) if c == 'platform' else _sub(p, c)
        elif k == 'reflection':
            rf = _sub(root, k)
            for _ in range(r.randint(0, 3)):
                _sub(rf, r.choice(['call', 'bogus']), text=r.choice(NAMES), arg=r.choice([None, '1', '2', 'x', '0']))
        elif k == 'entrypoint':
            _sub(root, k, name=r.choice(NAMES))
        else:
            _sub(root, 'bogus' + str(r.randint(0, 3)), text=r.choice([None, 'x']))
    return b'<?xml version="1.0"?>\n' + ET.tostring(root, encoding='utf-8')


def subset_of_shipped(rng, path, maxn=30):
    """small <def> with up to maxn randomly chosen top-level elements of a shipped cfg -> Element"""
    root = ET.parse(path).getroot()
    kids = list(root)
    new = ET.Element(root.tag, dict(root.attrib))
    if kids:
        n = rng.randint(1, min(maxn, len(kids)))
        # a contiguous run plus a few scattered ones: neighbours often belong together
        a = rng.randrange(len(kids))
        chosen = kids[a:a + n // 2 + 1] + [rng.choice(kids) for _ in range(n // 2)]
        for k in chosen:
            new.append(copy.deepcopy(k))
    return new


def structure_mutant(rng, root, nmut=None):
    """in-place XML-structure mutation of an Element tree -> list of mutation kinds"""
    kinds = []
    for _ in range(nmut or rng.choice([1, 1, 2, 3, 5])):
        elems = list(root.iter())
        parents = {c: p for p in elems for c in p}
        e = rng.choice(elems)
        k = rng.choice(['del-elem', 'dup-elem', 'move-elem', 'rename-elem', 'del-attr', 'set-attr', 'add-attr', 'set-text',
                        'clear-children', 'wrap', 'swap-attr-values', 'empty-text'])
        if k == 'del-elem' and e in parents:
            parents[e].remove(e)
        elif k == 'dup-elem' and e in parents:
            parents[e].insert(rng.randint(0, len(parents[e])), copy.deepcopy(e))
        elif k == 'move-elem' and e in parents:
            tgt = rng.choice(elems)
            if tgt is not e and e not in list(tgt.iter()) and tgt not in list(e.iter()):
                parents[e].remove(e)
                tgt.append(e)
        elif k == 'rename-elem':
            e.tag = rng.choice([x.tag for x in elems] + ['bogus', 'arg', 'function', 'valid', 'container'])
        elif k == 'del-attr' and e.attrib:
            del e.attrib[rng.choice(sorted(e.attrib))]
        elif k == 'set-attr' and e.attrib:
            e.set(rng.choice(sorted(e.attrib)), rng.choice(VALUES + NAMES))
        elif k == 'add-attr':
            pool = sorted({a for x in elems for a in x.attrib}) or ['name']
            e.set(rng.choice(pool), rng.choice(VALUES))
        elif k == 'set-text':
            e.text = rng.choice(VALID_EXPRS + NAMES + VALUES)
        elif k == 'empty-text':
            e.text = None
        elif k == 'clear-children':
            for c in list(e):
                e.remove(c)
        elif k == 'wrap' and e in parents:
            p = parents[e]
            i = list(p).index(e)
            p.remove(e)
            w = ET.Element(rng.choice(['function', 'arg', 'def', 'container', 'memory']), {'name': 'w', 'nr': '1'})
            w.append(e)
            p.insert(i, w)
        elif k == 'swap-attr-values' and len(e.attrib) > 1:
            a, b = rng.sample(sorted(e.attrib), 2)
            va, vb = e.get(a), e.get(b)
            e.set(a, vb)
            e.set(b, va)
        else:
            continue
        kinds.append(k)
    return kinds


# Generator exclusions, each named after a listed finding of C30 (known/C30.txt). The loader aborts on these
# shapes, which would otherwise end almost every generated case at the same few known defects and keep the
# rest of the loader unexplored. They narrow the *workload*; the witnesses under known/C30/ keep replaying them.
_INT_ATTRS = {'nr', 'indirect', 'templateParameter', 'size', 'offset', 'container', 'arg', 'arg2'}
_TEXT_ELEMS = {'alloc': 'x_alloc', 'dealloc': 'x_free', 'realloc': 'x_realloc', 'use': 'x_use', 'call': 'x_call',
               'prefix': 'P', 'suffix': 'S', 'importer': 'imp', 'noreturn': 'false', 'check': 'T', 'suppress': 'T',
               'exporter': None}


def sanitize(root, avoid=('strtoint', 'null-text', 'direction-index')):
    """in-place; returns the set of exclusions that actually changed something"""
    import re
    hit = set()
    for e in root.iter():
        if 'strtoint' in avoid:
            for a in list(e.attrib):
                if a in _INT_ATTRS:
                    v = e.get(a)
                    if a == 'nr' and v in ('any', 'variadic'):
                        continue
                    if a == 'container' and e.tag != 'returnValue' and e.tag != 'iterator':
                        continue
                    if a in ('arg', 'arg2') and e.tag not in ('call',):
                        continue
                    if not re.match(r'^\d{1,8}$', v or ''):
                        e.set(a, '1')
                        hit.add('strtoint')
        if 'direction-index' in avoid and e.tag == 'arg' and 'indirect' in e.attrib:
            if e.get('indirect') not in ('0', '1', '2'):
                e.set('indirect', '1')
                hit.add('direction-index')
        if 'null-text' in avoid and e.tag in _TEXT_ELEMS and not (e.text or '').strip() and _TEXT_ELEMS[e.tag]:
            e.text = _TEXT_ELEMS[e.tag]
            hit.add('null-text')
        if 'null-text' in avoid and e.tag in ('memory', 'resource'):
            for c in e:         # every child's text is split into names before its tag is looked at
                if not (c.text or '').strip():
                    c.text = 'x_name'
                    hit.add('null-text')
    return hit


def to_bytes(root):
    return b'<?xml version="1.0"?>\n' + ET.tostring(root, encoding='utf-8')


# ----------------------------------------------------------------------------------- (b) semantics
def _fmt(x, force_float=False):
    """Fraction -> literal text usable both in <valid> and in C"""
    x = Fraction(x)
    if x.denominator == 1 and not force_float:
        return str(x.numerator)
    s = ('%.6f' % float(x)).rstrip('0')
    if s.endswith('.'):
        s += '0'
    return s


def gen_valid(rng):
    """-> (expression text, is_float_expression)"""
    isf = rng.random() < 0.3
    nitems = rng.choice([1, 1, 1, 2, 2, 3])

    def n():
        if isf:
            return Fraction(rng.randint(-2000, 2000), rng.choice([1, 2, 4, 10]))
        r = rng.random()
        if r < 0.7:
            return Fraction(rng.randint(-300, 1100))
        if r < 0.9:
            return Fraction(rng.choice([-2147483648, 2147483647, 4294967295, 65535, -32768, 255, 1 << 40, -(1 << 40)]))
        return Fraction(rng.choice([0, 1, -1]))

    items = []
    for _ in range(nitems):
        k = rng.choice(['single', 'range', 'range', 'le', 'ge'])
        a, b = sorted([n(), n()])
        ff = isf and rng.random() < 0.8
        if k == 'single':
            items.append(_fmt(a, ff))
        elif k == 'range':
            items.append('%s:%s' % (_fmt(a, ff), _fmt(b, ff)))
        elif k == 'le':
            items.append(':%s' % _fmt(b, ff))
        else:
            items.append('%s:' % _fmt(a, ff))
    expr = ','.join(items)
    if '.' in expr:
        # exclusion for finding C30 valid-int-spelled-single-on-float-path: on the float path cppcheck only
        # matches single-value items that are spelled as floats, so spell them that way
        items = [(_fmt(Fraction(i), True) if (':' not in i and '.' not in i) else i) for i in items]
        expr = ','.join(items)
    return expr, ('.' in expr)


class Call:
    __slots__ = ('line', 'func', 'argnr', 'argtext', 'kind', 'detail', 'expect', 'value')


def semantic_case(rng, ncalls=20):
    """-> (cfg text, C source text, [Call]) — one call per line, each in its own function"""
    funcs = []      # (name, [argspec]) argspec: ('valid', expr) | ('not-null',) | ('not-bool',) | ('plain',)
    root = ET.Element('def', {'format': '2'})
    for k in range(rng.randint(2, 5)):
        name = 'vfn%d' % k
        f = ET.SubElement(root, 'function', {'name': name})
        ET.SubElement(f, 'noreturn').text = 'false'
        specs = []
        for a in range(rng.randint(1, 3)):
            arg = ET.SubElement(f, 'arg', {'nr': str(a + 1)})
            if rng.random() < 0.5:
                arg.set('direction', 'in')
            kind = rng.choice(['valid', 'valid', 'valid', 'not-null', 'not-bool', 'plain'])
            if kind == 'valid':
                expr, isf = gen_valid(rng)
                ET.SubElement(arg, 'valid').text = expr
                specs.append(('valid', expr))
            elif kind == 'plain':
                specs.append(('plain',))
            else:
                ET.SubElement(arg, kind)
                specs.append((kind,))
        funcs.append((name, specs))
    cfg = '<?xml version="1.0"?>\n' + ET.tostring(root, encoding='unicode') + '\n'

    lines = ['#define NULL ((void*)0)', 'static int gbuf[4];', '']
    calls = []

    def benign(spec):
        if spec[0] == 'valid':
            # a value the model admits, if one is easy to find
            for b in validrange.boundaries(spec[1]):
                if validrange.is_valid(spec[1], b):
                    return _fmt(b)
            return None
        if spec[0] == 'not-null':
            return 'gbuf'
        return '7'

    targets = [(fn, i) for fn, specs in funcs for i, s in enumerate(specs) if s[0] != 'plain']
    if not targets:
        targets = [(funcs[0][0], 0)]
    fmap = dict(funcs)
    for c in range(ncalls):
        fn, i = rng.choice(targets)
        specs = fmap[fn]
        spec = specs[i]
        others_ok = True
        args = []
        for j, s in enumerate(specs):
            if j == i:
                args.append(None)
            else:
                b = benign(s)
                if b is None:
                    others_ok = False
                    b = '7'
                args.append(b)
        if not others_ok:
            continue
        call = Call()
        call.func, call.argnr, call.kind = fn, i + 1, spec[0]
        call.value = None
        if spec[0] == 'valid':
            expr = spec[1]
            bs = validrange.boundaries(expr)
            b = rng.choice(bs)
            isf = '.' in expr
            r = rng.random()
            if isf and r < 0.5:
                v = b + rng.choice([Fraction(-1, 2), Fraction(1, 2), Fraction(-1, 4), Fraction(1, 1000), 0, 0, 1, -1])
                txt = _fmt(v, True)
                v = Fraction(txt)
            else:
                v = Fraction((b.numerator // b.denominator) + rng.choice([-1, 0, 0, 1, 1 if b.denominator > 1 else 0,
                                                                           rng.randint(-50, 50), rng.choice([-100000, 100000])]))
                txt = _fmt(v)
                st = rng.random()
                if st < 0.12 and v >= 0:
                    txt = hex(int(v))
                elif st < 0.2 and abs(v) < 2 ** 31:
                    txt = txt + 'L'
                elif st < 0.28 and v >= 0:
                    txt = '(%d+%d)' % (int(v) - 1, 1)
            call.argtext = txt
            call.detail = expr
            call.value = v
            call.expect = set() if validrange.is_valid(expr, v) else {'invalidFunctionArg'}
        elif spec[0] == 'not-null':
            txt = rng.choice(['NULL', '0', 'gbuf', '&gbuf[1]', '(void*)0', 'gbuf + 1'])
            call.argtext = txt
            call.detail = 'not-null'
            call.expect = {'nullPointer'} if txt in ('NULL', '0', '(void*)0') else set()
        else:
            txt = rng.choice(['true', 'false', '1', '0', '5', 'gbuf[0] > 2', '(gbuf[1] == 1)', '!gbuf[2]', 'gbuf[0]', '2 + 3'])
            call.argtext = txt
            call.detail = 'not-bool'
            call.expect = {'invalidFunctionArgBool'} if txt in ('true', 'false', 'gbuf[0] > 2', '(gbuf[1] == 1)', '!gbuf[2]') else set()
        args[i] = call.argtext
        lines.append('void caller%d(void) { %s(%s); }' % (c, fn, ', '.join(args)))
        call.line = len(lines)
        calls.append(call)
    return cfg, '\n'.join(lines) + '\n', calls
