"""cppcheck runner that survives the binary being relinked by a concurrent build (EACCES/ETXTBSY)."""
import time

from ..run import cppcheck as _cppcheck


def cppcheck(*a, **kw):
    for attempt in range(6):
        try:
            return _cppcheck(*a, **kw)
        except (PermissionError, OSError):
            if attempt == 5:
                raise
            time.sleep(2 + 3 * attempt)
