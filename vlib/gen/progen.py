"""progen — seeded generator of well-formed, (mostly) UB-free-by-construction C/C++ programs.

Every program is rendered twice from one AST:
  * plain text        — what cppcheck analyses; with a probe table id -> (line, column, token string)
                         of the token cppcheck uses as AST root of the probed expression;
  * instrumented text — what is executed; probed rvalue expressions e become VP(id, e).
Both texts have identical line structure (one statement per line), so line numbers agree.

UB is avoided by construction where cheap (divisor |1, masked shift amounts, index % N, bounded
loops, everything initialised) and by *runtime validation* otherwise: executions are run under
ASan+UBSan and an execution that trips a sanitizer is discarded whole by the probe runtime.
"""

INT_TYPES = [
    # name, bits, signed
    ('signed char', 8, True), ('unsigned char', 8, False), ('short', 16, True),
    ('unsigned short', 16, False), ('int', 32, True), ('unsigned int', 32, False),
    ('long', 64, True), ('unsigned long', 64, False), ('long long', 64, True),
    ('unsigned long long', 64, False), ('char', 8, True),
]
TYPE_INFO = {n: (b, s) for n, b, s in INT_TYPES}
COMMON_TYPES = ['int', 'int', 'int', 'unsigned int', 'unsigned char', 'signed char', 'short',
                'unsigned short', 'long', 'unsigned long', 'long long', 'char']

ARITH = ['+', '-', '*', '/', '%', '&', '|', '^', '<<', '>>']
CMP = ['<', '<=', '>', '>=', '==', '!=']
LOGIC = ['&&', '||']

RANK = {'signed char': 0, 'unsigned char': 0, 'char': 0, 'short': 1, 'unsigned short': 1, 'int': 2,
        'unsigned int': 2, 'long': 3, 'unsigned long': 3, 'long long': 4, 'unsigned long long': 4}
SIGNED_OF = {2: 'int', 3: 'long', 4: 'long long'}
UNSIGNED_OF = {2: 'unsigned int', 3: 'unsigned long', 4: 'unsigned long long'}

# Generator exclusions of the calibrated profile. Each one exists because of a listed finding
# (known/C01.txt) whose witness is replayed on every run; none hides an unexplained alarm.
EXCLUSIONS = {
    'unsigned-wrap': 'arithmetic (+ - * / % unary- ++ -- op=) with an unsigned result type: operands are masked and '
                     'converted to long long first [finding unsigned-wrap]',
    'narrowing': 'conversions (init, assignment, cast, argument, return) to a type that cannot represent every value '
                 'of the source type, unless the source is a constant expression [finding narrowing-keeps-range]',
    'mixed-sign-compare': 'comparisons and ?: arms of different signedness are converted to long long first '
                          '[finding unsigned-wrap]',
    'mod-div-range': 'divisors are ((e & 255) | 1), i.e. positive and small [finding div-range; mod-negative-divisor repaired in 6571449]',
    'bitnot-nonconst': '~ only on constant expressions [finding bitnot-range]',
    'not-var': '! is never applied to a bare variable [finding not-var-known]',
    'plain-char': 'plain char is not used as a type [finding char-not-truncated]',
    'logic-var-operand': 'operands of && || are never bare variables, and never textually identical '
                         '[findings bool-context-known-1, same-operand-logic]',
    'unsigned-literal': 'no literal of unsigned type (u suffix, hex above INT_MAX) [finding unsigned-const-as-signed]',
    'implicit-conv-const-expr': 'a constant *expression* (not a bare literal) is only converted implicitly when its value '
                                'is representable in the destination [finding operand-value-after-implicit-conversion]',
    'single-alias': 'at most one alias pointer per variable [finding two-aliases-stale-value]',
    'ternary-one-const-arm': 'the arms of ?: are both constant or both non-constant [finding ternary-partial-possible]',
    'break-cond-nonconst': 'a break is never guarded by a constant condition, and loops with a break are generated at the '
                           'top level of a function only [finding break-in-do-while-escapes-if]',
    'no-bool-operand-in-compare': 'an operand of a comparison or of an arithmetic/bitwise operator is never itself a '
                                  'comparison / logical / ! expression [findings bool-compare-negative (C03), '
                                  'bool-operand-arith]',
    'alias-write-only': 'values are never read back through an alias pointer [finding alias-deref-stale-range]',
    'return-only-in-top-level-if': 'an early return is only generated as the last statement of an if/else block at function '
                                   'level, never nested deeper or inside a loop/switch; nothing follows a return '
                                   '[finding nested-return-escapes-outer-if (C03)]',
    'neg-const-to-unsigned-cast': 'a negative constant is never cast to an unsigned type [finding compare-casts-negative-const]',
    'switch-nonconst': 'the controlling expression of a switch is never a constant [finding switch-constant-no-match]',
    'narrow-unsigned-vs-signed': 'a narrow unsigned operand meeting a signed operand is widened with an explicit (int) cast '
                                 '[finding operand-value-after-implicit-conversion]',
    'early-return-var-retest': 'a variable tested by the condition of an early return is not read again later in the function '
                               '[finding early-return-boundary-assumed (C03)]',
    'nested-same-var-condition-is-pure': 'below a condition that tests a variable already tested by an enclosing condition, '
                                         'nothing outside the block is written (declarations, nested ifs and a return only) '
                                         '[finding early-return-boundary-assumed: cppcheck evaluates the inner condition with '
                                         'the boundary value the outer condition allows]',
    'alias-self-read': 'the value stored through an alias pointer never reads the aliased variable [finding alias-ternary]',
}


def bits(t):
    return TYPE_INFO[t][0]


def is_signed(t):
    return TYPE_INFO[t][1]


def promote(t):
    return 'int' if RANK[t] < 2 else t


def uac(a, b):
    a, b = promote(a), promote(b)
    if a == b:
        return a
    sa, sb = is_signed(a), is_signed(b)
    if sa == sb:
        return a if RANK[a] >= RANK[b] else b
    u, s_ = (b, a) if sa else (a, b)
    if RANK[u] >= RANK[s_]:
        return u
    if bits(s_) > bits(u):
        return s_
    return UNSIGNED_OF[RANK[s_]]


def representable(src, dst):
    """every value of type src is a value of type dst"""
    if is_signed(src) == is_signed(dst):
        return bits(dst) >= bits(src)
    if is_signed(dst):
        return bits(dst) > bits(src)
    return False


def wrap(v, t):
    """value v converted to type t (two's complement); -> (value, overflowed_signed)"""
    b = bits(t)
    if is_signed(t):
        lo, hi = -(1 << (b - 1)), (1 << (b - 1)) - 1
        if lo <= v <= hi:
            return v, False
        v &= (1 << b) - 1
        if v > hi:
            v -= 1 << b
        return v, True
    return v & ((1 << b) - 1), False


def eval_bin(op, a, b, ta, tb, tres):
    """constant folding with C semantics; None = undefined/overflow (do not generate)"""
    if op in ('&&', '||'):
        return int(bool(a) and bool(b)) if op == '&&' else int(bool(a) or bool(b))
    if op in ('<<', '>>'):
        a, _ = wrap(a, tres)
        if b < 0 or b >= bits(tres):
            return None
        if op == '>>':
            return a >> b
        if a < 0:
            return None
        r, ov = wrap(a << b, tres)
        return None if ov and is_signed(tres) else r
    ct = uac(ta, tb)
    a, _ = wrap(a, ct)
    b, _ = wrap(b, ct)
    if op in CMP:
        return int({'<': a < b, '<=': a <= b, '>': a > b, '>=': a >= b, '==': a == b, '!=': a != b}[op])
    if op in ('/', '%'):
        if b == 0:
            return None
        q = abs(a) // abs(b)
        if (a < 0) != (b < 0):
            q = -q
        r = q if op == '/' else a - q * b
    else:
        r = {'+': a + b, '-': a - b, '*': a * b, '&': a & b, '|': a | b, '^': a ^ b}[op]
    r2, ov = wrap(r, ct)
    if ov and is_signed(ct):
        return None
    return r2


def lit_type(v, suffix, hexa):
    sfx = suffix.lower()
    if 'u' in sfx:
        if 'll' in sfx or sfx.count('l') == 1:
            return 'unsigned long long' if 'll' in sfx else 'unsigned long'
        return 'unsigned int' if v <= 4294967295 else 'unsigned long'
    if 'll' in sfx:
        return 'long long'
    if 'l' in sfx:
        return 'long'
    if v <= 2147483647:
        return 'int'
    if hexa and v <= 4294967295:
        return 'unsigned int'
    return 'long'


class N:
    """expression node"""
    __slots__ = ('k', 'a', 'b', 'c', 'pid', 't', 'const', 'v')

    def __init__(self, k, a=None, b=None, c=None, pid=None, t='int', const=False, v=None):
        self.k, self.a, self.b, self.c, self.pid = k, a, b, c, pid
        self.v = v            # value of a constant expression (python int) or None
        self.t = t            # static C type of the expression (after lvalue conversion)
        self.const = const    # subtree contains no variable (integer constant expression)


class Writer:
    def __init__(self, inst):
        self.inst = inst
        self.lines = []
        self.cur = ''
        self.probes = {}   # pid -> (line, col, tokstr, kind)
        self.parents = {}  # pid -> pid of the nearest enclosing probed expression
        self.stack = []

    def w(self, s):
        self.cur += s

    def mark(self, pid, tok, kind):
        if not self.inst and pid is not None:
            self.probes[pid] = (len(self.lines) + 1, len(self.cur) + 1, tok, kind)

    def nl(self):
        self.lines.append(self.cur)
        self.cur = ''

    def line(self, s):
        assert not self.cur
        self.lines.append(s)

    def text(self):
        return '\n'.join(self.lines) + '\n'


def rx(w, n):
    """render expression node n"""
    if n.pid is not None:
        if w.stack:
            w.parents[n.pid] = w.stack[-1]
        w.stack.append(n.pid)
        try:
            _rx(w, n)
        finally:
            w.stack.pop()
    else:
        _rx(w, n)


def _rx(w, n):
    probe = w.inst and n.pid is not None
    if probe:
        w.w('VP(%d, ' % n.pid)
    k = n.k
    if k == 'lit':
        w.w(n.a)
    elif k == 'var':
        w.mark(n.pid, n.a, k)
        w.w(n.a)
    elif k == 'bin':
        w.w('(')
        rx(w, n.b)
        w.w(' ')
        w.mark(n.pid, n.a, k)
        w.w(n.a + ' ')
        rx(w, n.c)
        w.w(')')
    elif k == 'un':
        w.w('(')
        w.mark(n.pid, n.a, k)
        w.w(n.a)
        rx(w, n.b)
        w.w(')')
    elif k == 'cast':
        w.mark(n.pid, '(', k)
        w.w('(%s)' % n.a)
        # operand always parenthesised or primary
        if n.b.k in ('var', 'lit'):
            w.w('(')
            rx(w, n.b)
            w.w(')')
        else:
            rx(w, n.b)
    elif k == 'cond':
        w.w('(')
        rx(w, n.a)
        w.w(' ')
        w.mark(n.pid, '?', k)
        w.w('? ')
        rx(w, n.b)
        w.w(' : ')
        rx(w, n.c)
        w.w(')')
    elif k == 'idx':
        w.w(n.a)
        w.mark(n.pid, '[', k)
        w.w('[')
        rx(w, n.b)
        w.w(']')
    elif k == 'mem':
        w.w(n.a)
        w.mark(n.pid, '.', k)
        w.w('.' + n.b)
    elif k == 'pmem':
        w.w(n.a)
        w.mark(n.pid, '.', k)   # cppcheck rewrites -> to . (originalName "->")
        w.w('->' + n.b)
    elif k == 'deref':
        w.w('(')
        w.mark(n.pid, '*', k)
        w.w('*' + n.a + ')')
    elif k == 'call':
        w.w(n.a)
        w.mark(n.pid, '(', k)
        w.w('(')
        for i, x in enumerate(n.b):
            if i:
                w.w(', ')
            if isinstance(x, str):
                w.w(x)
            else:
                rx(w, x)
        w.w(')')
    else:
        raise ValueError(k)
    if probe:
        w.w(')')


def node_vars(n):
    """names of the variables read by expression node n"""
    out = set()
    if n is None or isinstance(n, str):
        return out
    if n.k == 'var':
        out.add(n.a)
    elif n.k in ('idx', 'mem', 'pmem', 'deref'):
        out.add(n.a)
        if n.k == 'idx':
            out |= node_vars(n.b)
    elif n.k == 'call':
        for x in n.b:
            out |= node_vars(x)
    else:
        for x in (n.a, n.b, n.c):
            if isinstance(x, N):
                out |= node_vars(x)
    return out


def render_plain(n):
    w = Writer(False)
    rx(w, n)
    return w.cur


class Gen:
    def __init__(self, rng, lang='c', bias='value', size=1.0, profile='calibrated'):
        self.rng = rng
        self.lang = lang
        self.bias = bias      # 'value' (C01), 'cond' (C03), 'safe' (C04)
        self.size = size
        self.cal = profile == 'calibrated'
        self.types = [t for t in COMMON_TYPES if not (self.cal and t == 'char')]
        self.npid = 0
        self.nvar = 0
        self.consts = set([0, 1, -1, 2, 7, 100, 255, 256, 127, 128, -128, 65535, 65536, 32767,
                           2147483647, -2147483648, 4294967295])
        self.helpers = []     # (name, kind, param types, ret type)
        self.globals = []     # (name, type)
        self.feature_count = {}
        self.recent = []      # (var, type, constant) of recent var-vs-constant conditions
        self.tainted = set()  # variables tested by the condition of an early return (calibrated profile)

    def feat(self, f):
        self.feature_count[f] = self.feature_count.get(f, 0) + 1

    def pid(self):
        self.npid += 1
        return self.npid

    def newvar(self, prefix='v'):
        self.nvar += 1
        return '%s%d' % (prefix, self.nvar)

    # ------------------------------------------------------------ typed node constructors
    def mk_lit(self, v, suffix='', hexa=False):
        self.consts.add(v)
        if v < 0:
            t = 'int' if -v <= 2147483647 else 'long'
            return N('lit', '(%d)' % v, t=t, const=True, v=v)
        t = lit_type(v, suffix, hexa)
        txt = ('0x%x' % v if hexa else '%d' % v) + suffix
        return N('lit', txt, t=t, const=True, v=v)

    def mk_bin(self, op, a, b):
        if op in CMP or op in LOGIC:
            t = 'int'
        elif op in ('<<', '>>'):
            t = promote(a.t)
        else:
            t = uac(a.t, b.t)
        if self.cal and op not in LOGIC and op not in ('<<', '>>'):
            # exclusion narrow-unsigned-vs-signed [finding operand-value-after-implicit-conversion]: a narrow unsigned
            # operand that meets a signed one is widened explicitly (value-preserving), so that no implicit
            # conversion between operand types of different signedness is left to cppcheck
            if not is_signed(a.t) and bits(a.t) < 32 and is_signed(b.t) and not a.const:
                a = self.mk_cast('int', a)
            elif not is_signed(b.t) and bits(b.t) < 32 and is_signed(a.t) and not b.const:
                b = self.mk_cast('int', b)
            t = 'int' if (op in CMP) else uac(a.t, b.t)
        if self.cal and op in LOGIC:
            # exclusion logic-var-operand
            a, b = self.truth(a), self.truth(b)
            if render_plain(a) == render_plain(b):
                b = self.mk_bin('!=', self.smalllit(0, 3), self.mk_lit(2))
        v = None
        if a.const and b.const:
            v = eval_bin(op, a.v, b.v, a.t, b.t, t) if a.v is not None and b.v is not None else None
            if v is None:
                # constant expression with overflow / undefined result: never generated
                return self.smalllit(0, 9)
        return N('bin', op, a, b, pid=self.pid(), t=t, const=a.const and b.const, v=v)

    def mk_un(self, op, a):
        t = 'int' if op == '!' else promote(a.t)
        v = None
        if a.const:
            if a.v is None:
                return self.smalllit(0, 9)
            x, _ = wrap(a.v, promote(a.t))
            if op == '!':
                v = int(not x)
            elif op == '~':
                v, _ = wrap(~x, t)
            else:
                v, ov = wrap(-x, t)
                if ov and is_signed(t):
                    return self.smalllit(0, 9)
        return N('un', op, a, pid=self.pid(), t=t, const=a.const, v=v)

    def mk_cast(self, typ, a):
        v = None
        if a.const:
            if a.v is None:
                return self.smalllit(0, 9)
            if self.cal and a.v < 0 and not is_signed(typ):
                # exclusion neg-const-to-unsigned-cast [finding compare-casts-negative-const]
                a = self.mk_lit(-a.v)
            v, _ = wrap(a.v, typ)
        return N('cast', typ, a, pid=self.pid(), t=typ, const=a.const, v=v)

    def truth(self, n):
        """calibrated profile (exclusion logic-var-operand): an operand used as a truth value is always a
        comparison / logical expression, never a plain value"""
        if not self.cal:
            return n
        if n.k == 'bin' and (n.a in CMP or n.a in LOGIC):
            return n
        if n.k == 'un' and n.a == '!':
            return n
        return self.mk_bin('!=', n, self.mk_lit(0))

    def nonbool(self, n, env, avoid=None):
        """calibrated profile (exclusion no-bool-operand-in-compare): an operand of a comparison is never
        itself a comparison / logical expression"""
        if not self.cal:
            return n
        if (n.k == 'bin' and (n.a in CMP or n.a in LOGIC)) or (n.k == 'un' and n.a == '!'):
            return self.leaf(env, avoid)
        return n

    def signed_val(self, n):
        """calibrated profile: make the operand's type a signed type of >= 32 bits without changing
        its value (mask + widen when the promoted type is unsigned)"""
        if not self.cal:
            return n
        t = promote(n.t)
        if is_signed(t):
            return n
        if n.const:
            # constant: value-preserving widening only when it fits
            if t == 'unsigned int':
                return self.mk_cast('long long', n)
            return self.mk_cast('long long', self.mk_bin('&', n, self.mk_lit(0xffffff)))
        if t == 'unsigned int':
            return self.mk_cast('long long', n)
        return self.mk_cast('long long', self.mk_bin('&', n, self.mk_lit(0xffffff)))

    def fit(self, n, dst):
        """calibrated profile: coerce expression n so that storing it into type dst is not a
        narrowing conversion of a non-constant; returns None when impossible"""
        if not self.cal or representable(n.t, dst) or representable(promote(n.t), dst):
            return n
        if n.const and n.v is not None:
            # a bare literal may be converted (truncation of known values stays covered); a probed constant
            # *expression* only value-preservingly [finding operand-value-after-implicit-conversion]
            if n.k == 'lit' or wrap(n.v, dst)[0] == n.v:
                return n
        return None

    # ------------------------------------------------------------ expressions
    def lit(self):
        r = self.rng
        x = r.random()
        if x < 0.55:
            v = r.randint(0, 12)
        elif x < 0.8:
            v = r.choice([16, 31, 32, 63, 64, 100, 127, 128, 200, 255, 256, 300, 1000, 4096, 32767,
                          32768, 65535, 65536, 70000])
        elif x < 0.9:
            v = -r.randint(1, 130)
        else:
            v = r.choice([2147483647, 4294967295, 2147483648, 1000000])
        if v < 0:
            return self.mk_lit(v)
        suffix = ''
        if r.random() < 0.08:
            # exclusion unsigned-literal: no literal of unsigned type in the calibrated profile
            suffix = r.choice(['L', 'LL'] if self.cal else ['u', 'L', 'U', 'LL', 'uL'])
        hexa = r.random() < 0.1 and not (self.cal and v > 2147483647)
        return self.mk_lit(v, suffix, hexa=hexa)

    def smalllit(self, lo=0, hi=9):
        return self.mk_lit(self.rng.randint(lo, hi))

    def index(self, env, n):
        r = self.rng
        if r.random() < 0.5:
            return self.smalllit(0, n - 1)
        e = self.expr(env, 1)
        if self.cal:
            # (e & 0xffff) % n on a non-negative long long: in range, no unsigned conversion involved
            e = self.mk_cast('long long', self.mk_bin('&', e, self.mk_lit(0xffff)))
            return self.mk_bin('%', e, self.mk_lit(n))
        return self.mk_bin('%', self.mk_cast('unsigned int', e), self.mk_lit(n, 'u'))

    def leaf(self, env, avoid=None):
        r = self.rng
        cands = [c for c in env.readable() if c[1] != avoid and c[3] != avoid]
        if self.cal:
            # exclusion alias-write-only: values are never read back through an alias pointer
            cands = [c for c in cands if c[0] not in ('ptr', 'sptr') and c[1] not in self.tainted]
        if cands and r.random() < 0.75:
            kind, name, extra, _tgt = r.choice(cands)
            if kind == 'scalar':
                return N('var', name, pid=self.pid(), t=extra)
            if kind == 'array':
                self.feat('array-read')
                n, et = extra
                return N('idx', name, self.index(env, n), pid=self.pid(), t=et)
            if kind == 'struct':
                self.feat('member-read')
                f = r.choice(sorted(S0_FIELDS))
                return N('mem', name, f, pid=self.pid(), t=S0_FIELDS[f])
            if kind == 'sptr':
                self.feat('ptr-member-read')
                f = r.choice(sorted(S0_FIELDS))
                return N('pmem', name, f, pid=self.pid(), t=S0_FIELDS[f])
            if kind == 'ptr':
                self.feat('deref-read')
                return N('deref', name, pid=self.pid(), t=extra)
        return self.lit()

    def expr(self, env, depth=None, avoid=None):
        r = self.rng
        if depth is None:
            depth = r.choice([1, 1, 2, 2, 3])
        if depth <= 0 or r.random() < 0.25:
            return self.leaf(env, avoid)
        x = r.random()
        if x < 0.5:
            op = r.choice(ARITH)
            a = self.nonbool(self.expr(env, depth - 1, avoid), env, avoid)
            b = self.nonbool(self.expr(env, depth - 1, avoid), env, avoid)
            if op in ('+', '-', '*'):
                if op == '*' and r.random() < 0.7:
                    b = self.smalllit(0, 9)
                a, b = self.signed_val(a), self.signed_val(b)
            elif op in ('/', '%'):
                self.feat('div')
                if self.cal:
                    a = self.signed_val(a)
                    b = self.mk_bin('|', self.mk_bin('&', self.signed_val(b), self.mk_lit(255)), self.mk_lit(1))
                else:
                    b = self.mk_bin('|', b, self.mk_lit(1))
            elif op in ('<<', '>>'):
                self.feat('shift')
                b = self.mk_bin('&', b, self.mk_lit(r.choice([3, 7, 15])))
                if op == '<<':
                    if self.cal:
                        a = self.mk_cast('long long', self.mk_bin('&', a, self.mk_lit(0xffff)))
                    else:
                        a = self.mk_cast(r.choice(['unsigned int', 'unsigned long', 'unsigned char',
                                                   'unsigned short']), a)
                elif self.cal:
                    a = self.signed_val(a)
            return self.mk_bin(op, a, b)
        if x < 0.65:
            a, b = self.expr(env, depth - 1, avoid), self.expr(env, depth - 1, avoid)
            a, b = self.nonbool(a, env, avoid), self.nonbool(b, env, avoid)
            if self.cal and is_signed(promote(a.t)) != is_signed(promote(b.t)):
                a, b = self.signed_val(a), self.signed_val(b)
            return self.mk_bin(r.choice(CMP), a, b)
        if x < 0.72:
            self.feat('logic')
            return self.mk_bin(r.choice(LOGIC), self.cond(env, depth - 1, avoid), self.cond(env, depth - 1, avoid))
        if x < 0.8:
            op = r.choice(['-', '~', '!'])
            a = self.expr(env, depth - 1, avoid)
            if self.cal:
                if op == '-':
                    a = self.signed_val(a)
                elif op == '~' and not a.const:
                    a = self.lit()
                elif op == '!':
                    a = self.truth(a)
            return self.mk_un(op, a)
        if x < 0.92:
            self.feat('cast')
            typ = r.choice(self.types)
            a = self.expr(env, depth - 1, avoid)
            if self.fit(a, typ) is None:
                # narrowing of a non-constant is excluded: cast a constant instead, or widen
                if r.random() < 0.5:
                    a = self.lit()
                else:
                    typ = 'long long' if is_signed(promote(a.t)) or bits(a.t) < 64 else a.t
            return self.mk_cast(typ, a)
        if x < 0.97 or not self.helpers:
            self.feat('ternary')
            a, b = self.expr(env, depth - 1, avoid), self.expr(env, depth - 1, avoid)
            if self.cal and a.const != b.const:
                # exclusion ternary-one-const-arm: arms are both constant or both non-constant
                if r.random() < 0.5:
                    a, b = self.lit(), self.lit()
                else:
                    x1 = self.leaf(env, avoid)
                    if x1.const:
                        a, b = self.lit(), self.lit()
                    elif a.const:
                        a = x1
                    else:
                        b = x1
            if self.cal and is_signed(promote(a.t)) != is_signed(promote(b.t)):
                a, b = self.signed_val(a), self.signed_val(b)
            return N('cond', self.cond(env, depth - 1, avoid), a, b, pid=self.pid(), t=uac(a.t, b.t),
                     const=False)
        return self.callexpr(env, avoid)

    def args_for(self, env, ptypes, avoid=None):
        out = []
        for pt in ptypes:
            e = self.fit(self.expr(env, 1, avoid), pt)
            out.append(e if e is not None else self.smalllit(0, 20))
        return out

    def callexpr(self, env, avoid=None):
        pure = [h for h in self.helpers if h[1] == 'pure']
        if not pure:
            return self.leaf(env, avoid)
        name, _k, ptypes, ret = self.rng.choice(pure)
        self.feat('call')
        return N('call', name, self.args_for(env, ptypes, avoid), pid=self.pid(), t=ret)

    def cond(self, env, depth=1, avoid=None):
        r = self.rng
        x = r.random()
        scal = [v for v in env.scalar_vars() if v[0] != avoid and v[0] not in self.tainted]
        if self.bias == 'cond' and self.recent and r.random() < 0.45:
            # related condition: same variable, neighbouring constant, any operator
            name, _t0, cv = r.choice(self.recent[-6:])
            cur = [tt for n, tt in scal if n == name]
            if cur:
                t = cur[0]      # the variable's type in *this* scope (names recur across functions)
                self.feat('related-condition')
                v = N('var', name, pid=self.pid(), t=t)
                c = self.mk_lit(cv + r.choice([-1, 0, 0, 0, 1]))
                if self.cal and is_signed(promote(v.t)) != is_signed(promote(c.t)):
                    v, c = self.signed_val(v), self.signed_val(c)
                return self.mk_bin(r.choice(CMP), v, c)
        if scal and x < 0.6:
            # comparison of a variable with a constant: the bread and butter of value flow
            name, t = r.choice(scal)
            v = N('var', name, pid=self.pid(), t=t)
            c = self.lit() if r.random() < 0.5 else self.smalllit(0, 12)
            if c.v is not None and abs(c.v) < 2000000000:
                self.recent.append((name, t, c.v))
            if self.cal and is_signed(promote(v.t)) != is_signed(promote(c.t)):
                v, c = self.signed_val(v), self.signed_val(c)
            return self.mk_bin(r.choice(CMP), v, c)
        if x < 0.8:
            a, b = self.expr(env, depth, avoid), self.expr(env, depth, avoid)
            a, b = self.nonbool(a, env, avoid), self.nonbool(b, env, avoid)
            if self.cal and is_signed(promote(a.t)) != is_signed(promote(b.t)):
                a, b = self.signed_val(a), self.signed_val(b)
            return self.mk_bin(r.choice(CMP), a, b)
        if x < 0.9 and depth > 0:
            return self.mk_bin(r.choice(LOGIC), self.cond(env, depth - 1, avoid), self.cond(env, depth - 1, avoid))
        if scal and x < 0.95:
            name, t = r.choice(scal)
            v = N('var', name, pid=self.pid(), t=t)
            if self.cal:
                # exclusion logic-var-operand: a bare variable is never used as a truth value
                return self.mk_bin('!=', v, self.mk_lit(0))
            return v
        a = self.expr(env, depth, avoid)
        return self.mk_un('!', self.truth(a))

    # ------------------------------------------------------------ statements
    def block(self, env, out, indent, nstmts, loopdepth, fn_ret, kind='other', cond=None):
        env = env.child()
        if cond is not None and self.cal:
            cv = node_vars(cond)
            # exclusion nested-same-var-condition-is-pure [finding early-return-boundary-assumed]: below a condition
            # that tests a variable already tested by an enclosing condition nothing outside the block is written
            if cv & env.cond_vars:
                env.frozen = True
            env.cond_vars |= cv
        returned = False
        for _ in range(nstmts):
            if self.stmt(env, out, indent, loopdepth, fn_ret, kind) == 'returned':
                returned = True
                if self.cal:
                    break   # nothing is generated after a return (no dead code in the calibrated profile)
        return returned

    def emit(self, out, indent, parts):
        """parts: list of str | N ; writes one line into both writers"""
        for w in out:
            w.w('    ' * indent)
            for p in parts:
                if isinstance(p, str):
                    w.w(p)
                else:
                    rx(w, p)
            w.nl()

    def decl_type_for(self, e):
        """declared type for a variable initialised with e"""
        r = self.rng
        if not self.cal or e.k == 'lit':
            return r.choice(self.types)
        if e.const and e.v is not None:
            ok = [t for t in self.types if wrap(e.v, t)[0] == e.v]
            return r.choice(ok) if ok else 'long long'
        ok = [t for t in self.types if representable(promote(e.t), t)]
        return r.choice(ok) if ok else promote(e.t)

    def ret_expr(self, env, ret, depth):
        e = self.expr(env, depth)
        if self.fit(e, ret) is None:
            e = self.signed_val(e)
            if self.fit(e, ret) is None:
                e = self.smalllit(0, 9)
        return self.mk_cast(ret, e)

    def stmt(self, env, out, indent, loopdepth, fn_ret, kind='other'):
        r = self.rng
        x = r.random()
        depth_ok = indent < 4
        scal = env.writable_scalars()
        if env.frozen:
            # only declarations of fresh variables, nested ifs and (where allowed) a return
            if x < 0.5 or not depth_ok:
                e = self.expr(env) if r.random() < 0.6 else self.lit()
                typ = self.decl_type_for(e)
                name = self.newvar()
                self.emit(out, indent, ['%s %s = ' % (typ, name), e, ';'])
                env.add('roscalar', name, typ)
                return
            if x < 0.85:
                self.feat('if')
                c = self.cond(env)
                self.emit(out, indent, ['if (', c, ') {'])
                self.block(env, out, indent + 1, r.randint(1, 2), loopdepth, fn_ret, 'if', cond=c)
                self.emit(out, indent, ['}'])
                return
            if fn_ret and indent == 2 and kind == 'if':
                self.feat('early-return')
                self.emit(out, indent, ['return ', self.ret_expr(env, fn_ret, 1), ';'])
                return 'returned'
            return
        if self.bias == 'cond' and scal and depth_ok and r.random() < 0.25:
            x = 0.5     # force an if statement
        if self.bias == 'safe' and depth_ok and r.random() < 0.3:
            self.safe_stmt(env, out, indent)
            return
        if self.bias == 'cond' and indent == 1 and scal and r.random() < 0.12:
            self.copy_compare(env, out, indent)
            return
        if x < 0.22 or not scal:
            e = self.expr(env) if r.random() < 0.6 else self.lit()
            typ = self.decl_type_for(e)
            name = self.newvar()
            self.emit(out, indent, ['%s %s = ' % (typ, name), e, ';'])
            env.add('scalar', name, typ)
            return
        if x < 0.40:
            name, vt = r.choice(scal)
            op = r.choice(['=', '=', '=', '+=', '-=', '*=', '&=', '|=', '^='])
            if op == '=':
                e = self.fit(self.expr(env), vt)
                if e is None:
                    e = self.lit()
                self.emit(out, indent, ['%s = ' % name, e, ';'])
                return
            if self.cal and vt not in ('int', 'long', 'long long'):
                cands = [v for v in scal if v[1] in ('int', 'long', 'long long')]
                if not cands:
                    return
                name, vt = r.choice(cands)
            e = self.smalllit(0, 5) if op == '*=' else self.expr(env, 1)
            if self.cal:
                e = self.signed_val(e)
                if not representable(promote(e.t), vt):
                    e = self.smalllit(0, 9)
            self.feat('compound-assign')
            self.emit(out, indent, ['%s %s ' % (name, op), e, ';'])
            return
        if x < 0.45:
            cands = [v for v in scal if not self.cal or v[1] in ('int', 'long', 'long long')]
            if cands:
                name, _vt = r.choice(cands)
                self.feat('incdec')
                s = r.choice(['%s++;', '%s--;', '++%s;', '--%s;']) % name
                self.emit(out, indent, [s])
                return
        if x < 0.60 and depth_ok:
            self.feat('if')
            c = self.cond(env)
            self.emit(out, indent, ['if (', c, ') {'])
            ret1 = self.block(env, out, indent + 1, r.randint(1, 3), loopdepth, fn_ret, 'if', cond=c)
            ret2 = False
            if r.random() < 0.45:
                self.emit(out, indent, ['} else {'])
                ret2 = self.block(env, out, indent + 1, r.randint(1, 3), loopdepth, fn_ret, 'if', cond=c)
                self.feat('else')
            self.emit(out, indent, ['}'])
            if (ret1 or ret2) and self.cal:
                # exclusion early-return-var-retest [finding early-return-boundary-assumed (C03)]: a variable tested by
                # the condition of an early return is not tested again later in the function
                self.tainted.update(node_vars(c))
            return
        if x < 0.67 and depth_ok and loopdepth < 2:
            self.feat('for')
            n = r.randint(1, 6)
            self.consts.add(n)
            inside = r.random() < 0.6
            iv = self.newvar('i')
            ityp = r.choice(['int', 'int', 'long'] if self.cal else ['int', 'int', 'unsigned int', 'unsigned char', 'long'])
            step = r.choice(['%s++' % iv, '++%s' % iv, '%s += 1' % iv, '%s += 2' % iv])
            cmpop = r.choice(['<', '<', '<=', '!='])
            if cmpop == '!=':
                step = '%s++' % iv
            if inside:
                self.emit(out, indent, ['for (%s %s = 0; %s %s %d; %s) {' % (ityp, iv, iv, cmpop, n, step)])
            else:
                self.emit(out, indent, ['%s %s;' % (ityp, iv)])
                self.emit(out, indent, ['for (%s = 0; %s %s %d; %s) {' % (iv, iv, cmpop, n, step)])
            e2 = env.child()
            e2.add('roscalar', iv, ityp)
            self.block(e2, out, indent + 1, r.randint(1, 3), loopdepth + 1, fn_ret)
            self.emit(out, indent, ['}'])
            if not inside:
                env.add('scalar', iv, ityp)
            return
        if x < 0.71 and depth_ok and loopdepth < 2:
            self.feat('while')
            n = r.randint(1, 5)
            cv = self.newvar('c')
            self.emit(out, indent, ['int %s = 0;' % cv])
            dow = r.random() < 0.3
            if dow:
                self.feat('do-while')
                self.emit(out, indent, ['do {'])
            else:
                self.emit(out, indent, ['while (%s < %d) {' % (cv, n)])
            e2 = env.child()
            e2.add('roscalar', cv, 'int')
            self.block(e2, out, indent + 1, r.randint(1, 2), loopdepth + 1, fn_ret)
            # exclusion break-only-in-top-level-loops (calibrated): a break whose condition cppcheck can
            # decide makes it treat the enclosing if/else block as escaping
            if r.random() < 0.3 and (not self.cal or indent == 1):
                self.feat('break')
                bc = self.cond(e2)
                if self.cal and bc.const:
                    # exclusion break-cond-nonconst: a break is never guarded by a constant condition
                    bc = self.mk_bin('>', N('var', cv, pid=self.pid(), t='int'), self.mk_lit(r.randint(0, 3)))
                self.emit(out, indent + 1, ['if (', bc, ') {'])
                self.emit(out, indent + 2, ['break;'])
                self.emit(out, indent + 1, ['}'])
            self.emit(out, indent + 1, ['%s++;' % cv])
            if dow:
                self.emit(out, indent, ['} while (%s < %d);' % (cv, n)])
            else:
                self.emit(out, indent, ['}'])
            env.add('scalar', cv, 'int')
            return
        if x < 0.75 and depth_ok:
            self.feat('switch')
            e = self.expr(env, 1)
            if self.cal and e.const:
                # exclusion switch-nonconst [finding switch-constant-no-match]
                sc = env.scalar_vars()
                if not sc:
                    return
                nm, tt = r.choice(sc)
                e = N('var', nm, pid=self.pid(), t=tt)
            self.emit(out, indent, ['switch (', e, ') {'])
            labels = r.sample(range(0, 9), r.randint(1, 3))
            for lb in labels:
                self.consts.add(lb)
                self.emit(out, indent, ['case %d: {' % lb])
                self.block(env, out, indent + 1, r.randint(1, 2), loopdepth, fn_ret)
                if r.random() < 0.8:
                    self.emit(out, indent + 1, ['break;'])
                else:
                    self.feat('fallthrough')
                self.emit(out, indent, ['}'])
            if r.random() < 0.6:
                self.emit(out, indent, ['default: {'])
                self.block(env, out, indent + 1, 1, loopdepth, fn_ret)
                self.emit(out, indent + 1, ['break;'])
                self.emit(out, indent, ['}'])
            self.emit(out, indent, ['}'])
            return
        # exclusion return-only-in-top-level-if (calibrated): cppcheck treats a block that merely *contains* a nested
        # return/break as escaping [findings nested-return-escapes-outer-if, break-in-do-while-escapes-if]
        if x < 0.79 and fn_ret and indent >= 2 and (not self.cal or (indent == 2 and kind == 'if')):
            self.feat('early-return')
            self.emit(out, indent, ['return ', self.ret_expr(env, fn_ret, 1), ';'])
            return 'returned'
        if x < 0.83:
            # alias write through a pointer to a scalar
            tgt = [v for v in env.vars if v[0] == 'scalar' and v[2] in ('int', 'unsigned int', 'long', 'short', 'unsigned char')]
            if self.cal:
                # exclusion single-alias: at most one alias pointer per variable
                aliased = set(v[3] for v in env.vars if v[0] == 'ptr')
                tgt = [v for v in tgt if v[1] not in aliased]
            if tgt:
                self.feat('alias-write')
                _k, name, typ, _tg = r.choice(tgt)
                pn = self.newvar('p')
                e = self.expr(env, 1, avoid=name if self.cal else None)
                e = self.fit(e, typ)
                if e is None:
                    e = self.smalllit(0, 99)
                self.emit(out, indent, ['%s *%s = &%s;' % (typ, pn, name)])
                self.emit(out, indent, ['*%s = ' % pn, e, ';'])
                env.add('ptr', pn, typ, target=name)
                return
        if x < 0.87:
            arrs = [v for v in env.vars if v[0] == 'array']
            if arrs and r.random() < 0.6:
                self.feat('array-write')
                _k, name, (n, et), _tg = r.choice(arrs)
                e = self.fit(self.expr(env, 1), et)
                if e is None:
                    e = self.smalllit(0, 20)
                self.emit(out, indent, ['%s[' % name, self.index(env, n), '] = ', e, ';'])
                return
            n = r.randint(2, 6)
            name = self.newvar('a')
            typ = r.choice(['int', 'long', 'long long'] if self.cal else ['int', 'unsigned char', 'short', 'unsigned int', 'long'])
            inits = ', '.join(str(r.randint(0, 20)) for _ in range(n))
            self.emit(out, indent, ['%s %s[%d] = {%s};' % (typ, name, n, inits)])
            env.add('array', name, (n, typ))
            self.feat('array-decl')
            return
        if x < 0.91:
            structs = [v for v in env.vars if v[0] == 'struct']
            if structs and r.random() < 0.6:
                self.feat('member-write')
                _k, name, _f, _tg = r.choice(structs)
                f = r.choice(sorted(S0_FIELDS))
                e = self.fit(self.expr(env, 1), S0_FIELDS[f])
                if e is None:
                    e = self.smalllit(0, 20)
                self.emit(out, indent, ['%s.%s = ' % (name, f), e, ';'])
                return
            name = self.newvar('s')
            self.emit(out, indent, ['struct S0 %s = {%d, %d, %d};' % (name, r.randint(0, 9), r.randint(0, 200), r.randint(-5, 5))])
            env.add('struct', name, None)
            self.feat('struct-decl')
            if r.random() < 0.4:
                pn = self.newvar('q')
                self.emit(out, indent, ['struct S0 *%s = &%s;' % (pn, name)])
                env.add('sptr', pn, None, target=name)
                if r.random() < 0.6:
                    f = r.choice(sorted(S0_FIELDS))
                    e = self.fit(self.expr(env, 1, avoid=name if self.cal else None), S0_FIELDS[f])
                    if e is None:
                        e = self.smalllit(0, 20)
                    self.emit(out, indent, ['%s->%s = ' % (pn, f), e, ';'])
                    self.feat('ptr-member-write')
            return
        if x < 0.96 and self.helpers:
            name, kind, ptypes, ret = r.choice(self.helpers)
            if kind == 'pure' and scal:
                cands = [v for v in scal if not self.cal or representable(ret, v[1])]
                if cands:
                    self.feat('call-assign')
                    self.emit(out, indent, ['%s = ' % r.choice(cands)[0],
                                            N('call', name, self.args_for(env, ptypes), pid=self.pid(), t=ret), ';'])
                    return
            if kind == 'outparam':
                tgt = [v for v in env.vars if v[0] == 'scalar' and v[2] == 'int']
                if tgt:
                    self.feat('call-outparam')
                    self.emit(out, indent, [N('call', name, ['&' + r.choice(tgt)[1]] + self.args_for(env, ptypes[1:])), ';'])
                    return
            if kind == 'setglobal':
                self.feat('call-setglobal')
                self.emit(out, indent, [N('call', name, self.args_for(env, ptypes)), ';'])
                return
        # fallback: assignment from a condition value
        if scal:
            self.emit(out, indent, ['%s = ' % r.choice(scal)[0], self.cond(env), ';'])

    def copy_compare(self, env, out, indent):
        """a copy of a variable is compared with the original inside some nesting within a loop, and one of the
        two is modified later in the loop body (exercises the same-expression / follow-variable reasoning of the
        condition checks)"""
        r = self.rng
        self.feat('copy-compare')
        cands = [v for v in env.writable_scalars() if v[1] in ('int', 'long', 'long long') and v[0] not in self.tainted]
        if not cands:
            return
        a, t = r.choice(cands)
        b = self.newvar('cp')
        cv = self.newvar('c')
        self.emit(out, indent, ['%s %s = %s;' % (t, b, a)])
        self.emit(out, indent, ['int %s = 0;' % cv])
        n = r.randint(2, 4)
        loop = r.choice(['while', 'for', 'do'])
        if loop == 'while':
            self.emit(out, indent, ['while (%s < %d) {' % (cv, n)])
        elif loop == 'for':
            self.emit(out, indent, ['for (; %s < %d; ) {' % (cv, n)])
        else:
            self.emit(out, indent, ['do {'])
        nest = r.choice(['plain', 'if', 'switch', 'block', 'if-block'])
        ind = indent + 1
        closers = []
        if nest in ('if', 'if-block'):
            self.emit(out, ind, ['if (%s >= 0) {' % cv])
            closers.append((ind, '}'))
            ind += 1
        if nest == 'switch':
            self.emit(out, ind, ['switch (%s) {' % cv])
            self.emit(out, ind, ['default: {'])
            closers.append((ind, '}'))
            closers.append((ind, '}'))
            ind += 1
        if nest in ('block', 'if-block'):
            self.emit(out, ind, ['{'])
            closers.append((ind, '}'))
            ind += 1
        op = r.choice(['==', '!=', '<=', '>=', '<', '>'])
        va = N('var', a, pid=self.pid(), t=t)
        vb = N('var', b, pid=self.pid(), t=t)
        if r.random() < 0.5:
            va, vb = vb, va
        cmpn = N('bin', op, va, vb, pid=self.pid(), t='int')
        sink = self.newvar('k')
        self.emit(out, ind, ['int %s = 0;' % sink])
        self.emit(out, ind, ['if (', cmpn, ') {'])
        self.emit(out, ind + 1, ['%s = 1;' % sink])
        self.emit(out, ind, ['}'])
        if nest == 'switch':
            self.emit(out, ind, ['break;'])
        for i_, c_ in reversed(closers):
            self.emit(out, i_, [c_])
        tgt = r.choice([a, b])
        self.emit(out, indent + 1, [r.choice(['%s = %s + 1;', '%s += 2;', '%s++;', '%s = %s - 1;']).replace('%s', tgt)])
        self.emit(out, indent + 1, ['%s++;' % cv])
        if loop == 'do':
            self.emit(out, indent, ['} while (%s < %d);' % (cv, n)])
        else:
            self.emit(out, indent, ['}'])
        env.add('scalar', b, t)
        env.add('scalar', cv, 'int')

    def safe_stmt(self, env, out, indent):
        """constructs the UB checkers look at, correct by construction (guards hold on every path)"""
        r = self.rng
        k = r.choice(['guarded-div', 'nullable-ptr', 'checked-index', 'wrapped-index', 'outparam-init', 'loop-init',
                      'memset-init', 'near-limit', 'local-address', 'ptr-walk', 'flag-extract', 'flag-extract',
                      'masked-shift-index'])
        self.feat('safe:' + k)
        c = self.cond(env)
        if k == 'guarded-div':
            d, v = self.newvar('d'), self.newvar('v')
            self.emit(out, indent, ['int %s = 0;' % d])
            self.emit(out, indent, ['if (', c, ') {'])
            self.emit(out, indent + 1, ['%s = %d;' % (d, r.randint(1, 9))])
            self.emit(out, indent, ['}'])
            self.emit(out, indent, ['long long %s = 1;' % v])
            form = r.choice(['if (%s != 0) {', 'if (%s) {', 'if (%s > 0) {', 'if (!(%s == 0)) {'])
            self.emit(out, indent, [form % d])
            e = N('bin', r.choice(['/', '%']), self.smalllit(1, 99), N('var', d, pid=self.pid(), t='int'), pid=self.pid(), t='int')
            self.emit(out, indent + 1, ['%s = ' % v, e, ';'])
            self.emit(out, indent, ['}'])
            env.add('scalar', v, 'long long')
        elif k in ('flag-extract', 'masked-shift-index'):
            # bit-field extraction through named constants: the field's lowest bit is forced on, so the extracted
            # value is never 0 and the division / index below is well defined on every path
            sh = r.randint(0, 12)
            width = r.choice([1, 1, 2])
            mask = ((1 << width) - 1) << sh
            n = self.newvar('F')
            st, w, v = self.newvar('st'), self.newvar('fw'), self.newvar('fv')
            form = r.choice(['enum', 'const'])
            if form == 'enum':
                self.emit(out, indent, ['enum { MASK%s = 0x%x, SHIFT%s = %d };' % (n, mask, n, sh)])
            else:
                self.emit(out, indent, ['const unsigned int MASK%s = 0x%xu;' % (n, mask)])
                self.emit(out, indent, ['const int SHIFT%s = %d;' % (n, sh)])
            e = self.fit(self.expr(env, 1), 'long long') or self.smalllit()
            self.emit(out, indent, ['unsigned int %s = ((unsigned int)(' % st, e, ') & 0xffffu) | 0x%xu;' % (1 << sh)])
            self.emit(out, indent, ['unsigned int %s = (%s & MASK%s) >> SHIFT%s;' % (w, st, n, n)])
            wv = N('var', w, pid=self.pid(), t='unsigned int')
            if k == 'flag-extract':
                self.emit(out, indent, ['unsigned int %s = ' % v, N('bin', '/', self.mk_lit(r.randint(10, 4096)), wv, pid=self.pid(), t='unsigned int'), ';'])
            else:
                a = self.newvar('fa')
                self.emit(out, indent, ['int %s[3] = {%d, %d, %d};' % (a, r.randint(0, 9), r.randint(0, 9), r.randint(0, 9))])
                self.emit(out, indent, ['unsigned int %s = (unsigned int)' % v,
                                        N('idx', a, N('bin', '-', wv, self.mk_lit(1), pid=self.pid(), t='unsigned int'), pid=self.pid(), t='int'), ';'])
            env.add('scalar', v, 'unsigned int')
        elif k == 'nullable-ptr':
            tv, p = self.newvar('t'), self.newvar('np')
            self.emit(out, indent, ['int %s = %d;' % (tv, r.randint(0, 9))])
            self.emit(out, indent, ['int *%s = 0;' % p])
            self.emit(out, indent, ['if (', c, ') {'])
            self.emit(out, indent + 1, ['%s = &%s;' % (p, tv)])
            self.emit(out, indent, ['}'])
            form = r.choice(['if (%s) {', 'if (%s != 0) {', 'if (!(%s == 0)) {'])
            self.emit(out, indent, [form % p])
            self.emit(out, indent + 1, ['*%s = ' % p, self.fit(self.expr(env, 1), 'int') or self.smalllit(), ';'])
            self.emit(out, indent + 1, ['%s += ' % tv, N('deref', p, pid=self.pid(), t='int'), ';'])
            self.emit(out, indent, ['}'])
            env.add('scalar', tv, 'int')
        elif k in ('checked-index', 'wrapped-index'):
            n = r.randint(2, 8)
            a, i = self.newvar('b'), self.newvar('ix')
            self.emit(out, indent, ['int %s[%d] = {%s};' % (a, n, ', '.join(str(r.randint(0, 9)) for _ in range(n)))])
            e = self.fit(self.expr(env, 1), 'long long') or self.smalllit()
            self.emit(out, indent, ['long long %s = ' % i, e, ';'])
            if k == 'checked-index':
                form = r.choice(['if (%s >= 0 && %s < %d) {' % (i, i, n), 'if (%s < %d && %s > -1) {' % (i, n, i),
                                 'if (!(%s < 0 || %s >= %d)) {' % (i, i, n)])
                self.emit(out, indent, [form])
                self.emit(out, indent + 1, ['%s[%s] = %s[%s] + 1;' % (a, i, a, i)])
                self.emit(out, indent, ['}'])
            else:
                self.emit(out, indent, ['%s[((%s %% %d) + %d) %% %d] = (int)(%s & 7);' % (a, i, n, n, n, i)])
            env.add('array', a, (n, 'int'))
        elif k == 'outparam-init':
            outp = [h for h in self.helpers if h[1] == 'outparam']
            v = self.newvar('o')
            if outp and False:
                pass
            self.emit(out, indent, ['int %s;' % v])
            self.emit(out, indent, ['int *%s_p = &%s;' % (v, v)])
            self.emit(out, indent, ['*%s_p = ' % v, self.fit(self.expr(env, 1), 'int') or self.smalllit(), ';'])
            env.add('scalar', v, 'int')
        elif k == 'loop-init':
            n = r.randint(2, 6)
            a, i = self.newvar('w'), self.newvar('i')
            self.emit(out, indent, ['int %s[%d];' % (a, n)])
            self.emit(out, indent, ['for (int %s = 0; %s < %d; %s++) {' % (i, i, n, i)])
            self.emit(out, indent + 1, ['%s[%s] = %s * %d;' % (a, i, i, r.randint(1, 5))])
            self.emit(out, indent, ['}'])
            env.add('array', a, (n, 'int'))
        elif k == 'memset-init':
            n = r.randint(2, 6)
            a = self.newvar('m')
            self.emit(out, indent, ['int %s[%d];' % (a, n)])
            self.emit(out, indent, ['memset(%s, 0, sizeof(%s));' % (a, a)])
            env.add('array', a, (n, 'int'))
        elif k == 'near-limit':
            v, w_ = self.newvar('lim'), self.newvar('wide')
            self.emit(out, indent, ['int %s = %s;' % (v, r.choice(['2147483647', '2147483646', '(-2147483647 - 1)']))])
            self.emit(out, indent, ['long long %s = (long long)%s %s %d;' % (w_, v, r.choice(['+', '-', '*']), r.randint(1, 3))])
            env.add('scalar', w_, 'long long')
        elif k == 'local-address':
            v, p = self.newvar('loc'), self.newvar('lp')
            self.emit(out, indent, ['int %s = %d;' % (v, r.randint(0, 9))])
            self.emit(out, indent, ['{'])
            self.emit(out, indent + 1, ['int *%s = &%s;' % (p, v)])
            self.emit(out, indent + 1, ['*%s += 1;' % p])
            self.emit(out, indent, ['}'])
            env.add('scalar', v, 'int')
        else:
            n = r.randint(2, 6)
            a, p = self.newvar('z'), self.newvar('zp')
            self.emit(out, indent, ['int %s[%d] = {%s};' % (a, n, ', '.join(str(r.randint(0, 9)) for _ in range(n)))])
            self.emit(out, indent, ['for (int *%s = %s; %s < %s + %d; %s++) {' % (p, a, p, a, n, p)])
            self.emit(out, indent + 1, ['*%s += 1;' % p])
            self.emit(out, indent, ['}'])
            env.add('array', a, (n, 'int'))

    # ------------------------------------------------------------ functions
    def function(self, out, name, kind, params, ret):
        """params: list of (type, name)"""
        r = self.rng
        env = Env(None)
        self.recent = []
        self.tainted = set()
        for g, t in self.globals:
            env.add('scalar', g, t)
        for t, n in params:
            if t.endswith('*'):
                continue
            env.add('scalar', n, t)
        sig = '%s %s(%s)' % (ret or 'void', name, ', '.join('%s %s' % p for p in params) or 'void')
        self.emit(out, 0, ['static ' + sig + ' {'])
        if kind == 'outparam':
            e = self.fit(self.expr(env, 1), 'int') or self.smalllit(0, 50)
            if r.random() < 0.5:
                self.emit(out, 1, ['if (', self.cond(env), ') {'])
                self.emit(out, 2, ['*p = ', e, ';'])
                self.emit(out, 1, ['}'])
            else:
                self.emit(out, 1, ['*p = ', e, ';'])
        elif kind == 'setglobal':
            g, gt = r.choice(self.globals)
            e = self.fit(self.expr(env, 1, avoid=g if self.cal else None), gt) or self.smalllit(0, 50)
            self.emit(out, 1, ['%s = ' % g, e, ';'])
        else:
            if kind == 'entry':
                # same-width signed -> unsigned copies of parameters, made before any condition on the source
                # (inside a branch that constrains the source the baseline is unsound: finding narrowing-keeps-range)
                for t, n in params:
                    if t in ('int', 'long', 'long long') and r.random() < 0.35:
                        u = self.newvar('u')
                        ut = UNSIGNED_OF[RANK[t]]
                        self.emit(out, 1, ['%s %s = %s;' % (ut, u, n)])
                        env.add('roscalar', u, ut)
                        self.feat('sign-copy')
            nst = max(2, int(r.randint(3, 9) * self.size)) if kind == 'entry' else r.randint(1, 4)
            for _ in range(nst):
                self.stmt(env, out, 1, 0, ret)
            self.emit(out, 1, ['return ', self.ret_expr(env, ret, 2), ';'])
        self.emit(out, 0, ['}'])
        self.emit(out, 0, [''])

    def program(self):
        r = self.rng
        plain, inst = Writer(False), Writer(True)
        out = (plain, inst)
        plain.line('/* generated by progen */')
        inst.line('#include "trace.h"')
        self.emit(out, 0, ['struct S0 { int a; unsigned char b; short c; };'])
        self.emit(out, 0, ['void *memset(void *, int, unsigned long);'])
        for i in range(r.randint(0, 2)):
            g = 'g%d' % i
            t = r.choice(['int', 'long', 'long long'] if self.cal else ['int', 'unsigned int', 'long'])
            self.emit(out, 0, ['static %s %s = %d;' % (t, g, r.randint(0, 9))])
            self.globals.append((g, t))
        self.emit(out, 0, [''])
        nh = r.randint(0, 3)
        for i in range(nh):
            kind = r.choice(['pure', 'pure', 'outparam', 'setglobal'])
            if kind == 'setglobal' and not self.globals:
                kind = 'pure'
            name = 'h%d' % i
            if kind == 'pure':
                np = r.randint(1, 2)
                ptypes = [r.choice(['int', 'long', 'long long'] if self.cal else ['int', 'int', 'unsigned int', 'long', 'unsigned char']) for _ in range(np)]
                ret = r.choice(['long', 'long long'] if self.cal else ['int', 'int', 'unsigned int', 'long'])
                self.function(out, name, kind, [(t, 'a%d' % k) for k, t in enumerate(ptypes)], ret)
            elif kind == 'outparam':
                ptypes = ['int *', 'int']
                ret = None
                self.function(out, name, kind, [('int *', 'p'), ('int', 'v')], None)
            else:
                ptypes = ['int']
                ret = None
                self.function(out, name, kind, [('int', 'v')], None)
            self.helpers.append((name, kind, ptypes, ret))
        entries = []
        for i in range(r.randint(1, 3)):
            np = r.randint(1, 3)
            params = [(r.choice(self.types), 'x%d' % k) for k in range(np)]
            ret = r.choice(['long', 'long long'] if self.cal else ['int', 'long', 'unsigned int', 'long long'])
            name = 'f%d' % i
            self.function(out, name, 'entry', params, ret)
            entries.append((name, params))
        # main
        self.emit(out, 0, ['long long strtoll(const char *, char **, int);'])
        self.emit(out, 0, ['int main(int argc, char **argv) {'])
        self.emit(out, 1, ['long long in[8] = {0, 0, 0, 0, 0, 0, 0, 0};'])
        self.emit(out, 1, ['int k;'])
        self.emit(out, 1, ['volatile long long sink = 0;'])
        self.emit(out, 1, ['for (k = 1; k < argc && k <= 8; k++) {'])
        self.emit(out, 2, ['in[k - 1] = strtoll(argv[k], 0, 10);'])
        self.emit(out, 1, ['}'])
        for name, params in entries:
            args = ', '.join('(%s)in[%d]' % (t, i) for i, (t, _n) in enumerate(params))
            self.emit(out, 1, ['sink += (long long)%s(%s);' % (name, args)])
        plain.line('    return (int)(sink & 0);')
        inst.line('    vp_finish(); return (int)(sink & 0);')
        self.emit(out, 0, ['}'])
        prog = Program(plain.text(), inst.text(), plain.probes, entries, sorted(self.consts), dict(self.feature_count), self.lang)
        prog.parents = plain.parents
        return prog


S0_FIELDS = {'a': 'int', 'b': 'unsigned char', 'c': 'short'}


class Env:
    def __init__(self, parent):
        self.parent = parent
        self.vars = list(parent.vars) if parent else []   # (kind, name, extra, target)
        self.cond_vars = set(parent.cond_vars) if parent else set()   # variables tested by enclosing conditions
        self.frozen = parent.frozen if parent else False               # no writes to outer state in this block

    def child(self):
        return Env(self)

    def add(self, kind, name, extra, target=None):
        self.vars.append((kind, name, extra, target))

    def readable(self):
        return [('scalar' if k == 'roscalar' else k, n, e, tg) for k, n, e, tg in self.vars]

    def scalar_vars(self):
        return [(n, e) for k, n, e, _t in self.vars if k in ('scalar', 'roscalar')]

    def writable_scalars(self):
        return [(n, e) for k, n, e, _t in self.vars if k == 'scalar']


class Program:
    def __init__(self, plain, inst, probes, entries, consts, features, lang):
        self.plain = plain
        self.inst = inst
        self.probes = probes       # pid -> (line, col, tokstr, kind)
        self.entries = entries
        self.consts = consts
        self.features = features
        self.lang = lang
        self.parents = {}

    def input_vectors(self, rng, n):
        """n input vectors (lists of 8 ints): boundary values, program constants +-1, random"""
        pool = set()
        for c in self.consts:
            pool.update([c - 1, c, c + 1])
        pool = sorted(pool)
        small = [v for v in pool if -300 <= v <= 300] or [0]
        vecs = [[0] * 8, [1] * 8, [-1] * 8]
        while len(vecs) < n:
            x = rng.random()
            if x < 0.6:
                vecs.append([rng.choice(small) for _ in range(8)])
            elif x < 0.85:
                vecs.append([rng.choice(pool) for _ in range(8)])
            else:
                vecs.append([rng.choice([rng.randint(-2**31, 2**31 - 1), rng.randint(-2**63, 2**63 - 1),
                                         rng.randint(-1000, 1000)]) for _ in range(8)])
        return vecs[:n]


def gen(rng, lang='c', bias='value', size=1.0, profile='calibrated'):
    return Gen(rng, lang, bias, size, profile).program()
