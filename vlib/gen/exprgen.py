"""exprgen — random, well-typed C / C++ expression trees printed with minimal parentheses.

Used by C07 (tree shape), C09 (expression types) and, through litgen, C10.

A generated *unit* is one translation unit without any #include: a fixed prelude (struct, enum,
function prototypes, in C++ a namespace, a class with methods and templates), and one or more
functions whose parameters are variables of every arithmetic / pointer / record type, each holding
up to `per_func` statements, ONE STATEMENT PER LINE.  For every statement the generator keeps its own
tree; each node knows the (line, column) of its representative token:

    leaf            the token itself            bin / assign / comma   the operator token
    prefix/postfix  the operator token          cast                   the '(' of the cast
    call            the '(' of the call         subscript              the '['
    member          the '.' / '->' token        conditional            the '?'
    sizeof          the 'sizeof' keyword        new / delete           the keyword

Well-typedness is by construction with a coarse category discipline (I integer, F floating,
P:<pointee> pointer, S record; lvalue-ness, modifiability, addressability); the exact type of every
node is *not* computed here — it is read from the reference compiler.

Forms that cppcheck's tokenizer rewrites in a meaning-preserving way that changes the shape of the
tree (so that the tree is not comparable node by node) are never generated; the fixed list is
NORMALISATION_EXCLUSIONS (reported in the evidence).  Exclusions that exist because of a *finding*
are passed in by the oracle through `excl` and carry the finding's name.
"""

import re

P_COMMA, P_ASSIGN, P_COND, P_LOR, P_LAND, P_BOR, P_BXOR, P_BAND, P_EQ, P_REL, P_SHIFT, P_ADD, P_MUL = range(1, 14)
P_UNARY = 15
P_POST = 16

BINPREC = {'*': P_MUL, '/': P_MUL, '%': P_MUL, '+': P_ADD, '-': P_ADD, '<<': P_SHIFT, '>>': P_SHIFT,
           '<': P_REL, '<=': P_REL, '>': P_REL, '>=': P_REL, '==': P_EQ, '!=': P_EQ, '&': P_BAND,
           '^': P_BXOR, '|': P_BOR, '&&': P_LAND, '||': P_LOR, ',': P_COMMA}
ASSIGNOPS = ['=', '+=', '-=', '*=', '/=', '%=', '<<=', '>>=', '&=', '^=', '|=']

NORMALISATION_EXCLUSIONS = [
    'unary-plus: unary + is deleted by Tokenizer::concatenateNegativeNumberAndAnyPositive',
    'neg-literal: unary - directly before a numeric literal is merged into the literal token',
    'sign-fold: binary +/- or unary - directly followed by unary - (a + -b => a - b, a - -b => a + b)',
    'stmt-multi-assign: statement `n1 = n2 = n3|num;` is split into separate assignments '
    '(Tokenizer::simplifyVariableMultipleAssign)',
    'addr-index0-c: C only, `& name [ 0 ]` after , ( = becomes `name` (simplifyPointerToStandardType)',
    'num-subscript: `num [ name ]` is rewritten to `name [ num ]` (simplifyArrayAccessSyntax)',
    'addr-arrow: `( & name ) ->` becomes `name .` (Tokenizer::combineOperators)',
    'not-cast: `! ( type )` loses its parentheses (Tokenizer::simplifyRedundantParentheses), so `!(T)(x)` is '
    'represented as the functional cast `!T(x)`',
    'angle-fold: C++ only, `num op num` lexically between a `<` and a later `>` is constant-folded '
    '(TemplateSimplifier::simplifyNumericCalculations); the generator never applies a binary operator to two '
    'numeric literals in C++',
    'comma-arg: a parenthesised comma expression as a direct call argument (the AST does not keep '
    'parentheses, so f((a,b)) and f(a,b) have the same representation)',
]


class Node:
    __slots__ = ('k', 'op', 'ch', 'txt', 'extra', 'pos', 'prec', 'ref', 'cat', 'flags', 'span')

    def __init__(self, k, op=None, ch=(), txt=None, extra=None, prec=P_POST, cat=None, flags=()):
        self.k = k
        self.op = op
        self.ch = list(ch)
        self.txt = txt
        self.extra = extra
        self.prec = prec
        self.pos = None
        self.ref = None      # filled by oracles (reference type etc.)
        self.cat = cat
        self.flags = frozenset(flags)
        self.span = None     # (col_begin, col_end) of the printed text of this node

    def walk(self):
        yield self
        for c in self.ch:
            for x in c.walk():
                yield x


# ---------------------------------------------------------------------------------------------
# printing
# ---------------------------------------------------------------------------------------------
class Printer:
    def __init__(self, line, col0=1):
        self.parts = []
        self.line = line
        self.col = col0

    def tok(self, s, sp):
        if sp and self.parts:
            self.parts.append(' ')
            self.col += 1
        pos = (self.line, self.col)
        self.parts.append(s)
        self.col += len(s)
        return pos

    def text(self):
        return ''.join(self.parts)


def first_tok(n, minprec):
    if n.prec < minprec:
        return '('
    k = n.k
    if k in ('leaf',):
        return n.txt
    if k == 'qual':
        return n.extra[0]
    if k in ('bin', 'assign', 'cond', 'post', 'idx', 'mem', 'call'):
        sub = {'bin': n.prec, 'assign': P_UNARY, 'cond': P_LOR, 'post': P_POST, 'idx': P_POST, 'mem': P_POST,
               'call': P_POST}[k]
        if k == 'bin' and n.op == ',':
            sub = P_COMMA
        return first_tok(n.ch[0], sub)
    if k == 'pre':
        return n.op
    if k == 'cast':
        return '('
    if k in ('sze', 'szt'):
        return 'sizeof'
    if k in ('fcast', 'ncast', 'new', 'delete', 'kw'):
        return n.op
    return '?'


def emit(p, n, minprec, sp=True, cxx=False):
    """print node n into Printer p; parenthesise if its precedence is below minprec"""
    if n.prec < minprec:
        p.tok('(', sp)
        c0 = p.col - 1
        _emit(p, n, False, cxx)
        p.tok(')', False)
        n.span = (c0, p.col)
        return
    c0 = p.col + (1 if sp and p.parts else 0)
    _emit(p, n, sp, cxx)
    n.span = (c0, p.col)


def _emit(p, n, sp, cxx):
    k = n.k
    if k == 'leaf':
        n.pos = p.tok(n.txt, sp)
    elif k == 'qual':           # extra = ['::','gv'] / ['N','::','nv'] …; pos of the last name
        first = True
        poss = []
        for t in n.extra:
            poss.append(p.tok(t, sp if first else False))
            first = False
        n.pos = poss[-1]
        n.txt = ''.join(n.extra)
        n.op = poss
    elif k == 'bin':
        op = n.op
        if op == ',':
            emit(p, n.ch[0], P_COMMA, sp, cxx)
            n.pos = p.tok(',', False)
            emit(p, n.ch[1], P_ASSIGN, True, cxx)
        else:
            pr = n.prec
            emit(p, n.ch[0], pr, sp, cxx)
            n.pos = p.tok(op, True)
            emit(p, n.ch[1], pr + 1, True, cxx)
    elif k == 'assign':
        emit(p, n.ch[0], P_UNARY, sp, cxx)
        n.pos = p.tok(n.op, True)
        emit(p, n.ch[1], P_ASSIGN, True, cxx)
    elif k == 'cond':
        emit(p, n.ch[0], P_LOR, sp, cxx)
        n.pos = p.tok('?', True)
        emit(p, n.ch[1], P_COMMA, True, cxx)
        p.tok(':', True)
        # C: conditional-expression; C++: assignment-expression
        emit(p, n.ch[2], P_ASSIGN if (cxx and 'cxx-cond-assign' in n.flags) else P_COND, True, cxx)
    elif k == 'pre':
        n.pos = p.tok(n.op, sp)
        ft = first_tok(n.ch[0], P_UNARY)
        clash = (n.op[0] in '+-&' and ft[:1] == n.op[0]) or n.op[-1:].isalpha()
        emit(p, n.ch[0], P_UNARY, clash, cxx)
    elif k == 'post':
        emit(p, n.ch[0], P_POST, sp, cxx)
        n.pos = p.tok(n.op, False)
    elif k == 'cast':
        n.pos = p.tok('(', sp)
        p.tok(n.extra, False)
        p.tok(')', False)
        emit(p, n.ch[0], P_UNARY, False, cxx)
    elif k == 'call':
        emit(p, n.ch[0], P_POST, sp, cxx)
        n.pos = p.tok('(', False)
        for i, a in enumerate(n.ch[1:]):
            if i:
                p.tok(',', False)
            emit(p, a, P_ASSIGN, i > 0, cxx)
        p.tok(')', False)
    elif k == 'idx':
        emit(p, n.ch[0], P_POST, sp, cxx)
        n.pos = p.tok('[', False)
        emit(p, n.ch[1], P_COMMA, False, cxx)
        p.tok(']', False)
    elif k == 'mem':
        emit(p, n.ch[0], P_POST, sp, cxx)
        n.pos = p.tok(n.op, False)
        n.extra = p.tok(n.txt, False)     # position of the member name
    elif k == 'sze':
        n.pos = p.tok('sizeof', sp)
        if 'paren' in n.flags:
            p.tok('(', False)
            emit(p, n.ch[0], P_COMMA, False, cxx)
            p.tok(')', False)
        else:
            # operand is a unary-expression that is not a cast
            c = n.ch[0]
            emit(p, c, P_POST + 1 if c.k == 'cast' else P_UNARY, True, cxx)
    elif k == 'szt':
        n.pos = p.tok('sizeof', sp)
        p.tok('(', False)
        p.tok(n.extra, False)
        p.tok(')', False)
    elif k == 'fcast':          # T(x)
        tp = p.tok(n.op, sp)
        n.pos = p.tok('(', False)
        n.extra = tp
        if n.ch:
            emit(p, n.ch[0], P_ASSIGN, False, cxx)
        p.tok(')', False)
    elif k == 'ncast':          # static_cast<T>(x)
        tp = p.tok(n.op, sp)
        p.tok('<', False)
        p.tok(n.txt, False)
        p.tok('>', False)
        n.pos = p.tok('(', False)
        n.extra = tp
        emit(p, n.ch[0], P_COMMA, False, cxx)
        p.tok(')', False)
    elif k == 'new':            # new T / new T(x) / new T[x]
        n.pos = p.tok('new', sp)
        tp = p.tok(n.txt, True)
        n.extra = (tp, None)
        if n.op == 'new(':
            bp = p.tok('(', False)
            n.extra = (tp, bp)
            if n.ch:
                emit(p, n.ch[0], P_ASSIGN, False, cxx)
            p.tok(')', False)
        elif n.op == 'new[':
            bp = p.tok('[', False)
            n.extra = (tp, bp)
            emit(p, n.ch[0], P_COMMA, False, cxx)
            p.tok(']', False)
    elif k == 'delete':
        n.pos = p.tok('delete', sp)
        if n.op == 'delete[]':
            p.tok('[', False)
            p.tok(']', False)
        emit(p, n.ch[0], P_UNARY, True, cxx)
    elif k == 'kw':             # return E / if (E)
        n.pos = p.tok(n.op, sp)
        if n.op == 'if':
            n.extra = p.tok('(', True)
            emit(p, n.ch[0], P_COMMA, False, cxx)
            p.tok(')', False)
            p.tok('{', True)
            p.tok('}', True)
        else:
            emit(p, n.ch[0], P_COMMA, True, cxx)
    elif k == 'decl':           # T name = E
        p.tok(n.extra, sp)
        nm = n.ch[0]
        nm.pos = p.tok(nm.txt, not n.extra.endswith('*'))
        n.pos = p.tok('=', True)
        emit(p, n.ch[1], P_ASSIGN, True, cxx)
    else:
        raise ValueError(k)


# ---------------------------------------------------------------------------------------------
# canonical form of the generator's own tree (cppcheck's representation conventions)
# ---------------------------------------------------------------------------------------------
def at(pos):
    return '@%d:%d' % pos


TYPE_KEYWORDS = {'int', 'char', 'short', 'long', 'float', 'double', 'bool', 'unsigned', 'signed', 'wchar_t'}


def leaftext(s):
    """numeric literals are compared by position only (cppcheck respells `.5` as `0.5`, `3.` as `3.0`);
    standard type keywords likewise (cppcheck respells `unsigned` as `int` with a flag)"""
    if s[:1].isdigit() or (s[:1] == '.' and s[1:2].isdigit()):
        return '#'
    if s in TYPE_KEYWORDS:
        return '<type>'
    return s


def canon(n):
    k = n.k
    if k == 'leaf':
        if 'tmpl' in n.flags:
            return n.txt.split('<')[0] + at(n.pos)
        return leaftext(n.txt) + at(n.pos)
    if k == 'qual':
        toks = list(zip(n.extra, n.op))
        # left-assoc chain of ::
        i = 0
        cur = None
        if toks[0][0] == '::':
            cur = '(:: %s%s)' % (toks[1][0], at(toks[1][1]))
            i = 2
        else:
            cur = toks[0][0] + at(toks[0][1])
            i = 1
        while i < len(toks):
            cur = '(:: %s %s%s)' % (cur, toks[i + 1][0], at(toks[i + 1][1]))
            i += 2
        return cur
    if k in ('bin', 'assign'):
        return '(%s %s %s)' % (n.op, canon(n.ch[0]), canon(n.ch[1]))
    if k == 'decl':
        return '(= %s %s)' % (canon(n.ch[0]), canon(n.ch[1]))
    if k == 'cond':
        return '(? %s %s %s)' % tuple(canon(c) for c in n.ch)
    if k == 'pre':
        return '(pre%s %s)' % (n.op, canon(n.ch[0]))
    if k == 'post':
        return '(post%s %s)' % (n.op, canon(n.ch[0]))
    if k == 'cast':
        return '(cast %s)' % canon(n.ch[0])
    if k == 'call':
        return '(call %s)' % ' '.join(canon(c) for c in n.ch)
    if k == 'idx':
        return '([ %s %s)' % (canon(n.ch[0]), canon(n.ch[1]))
    if k == 'mem':
        return '(%s %s %s%s)' % (n.op, canon(n.ch[0]), n.txt, at(n.extra))
    if k == 'sze':
        return '(sizeof %s)' % canon(n.ch[0])
    if k == 'szt':
        return 'sizeoft' + at(n.pos)
    if k == 'fcast':
        return '(call %s%s%s)' % (leaftext(n.op), at(n.extra), ''.join(' ' + canon(c) for c in n.ch))
    if k == 'ncast':
        return '(call %s%s %s)' % (n.op, at(n.extra), canon(n.ch[0]))
    if k == 'new':
        t = leaftext(n.txt) + at(n.extra[0])
        if n.op == 'new':
            return '(new %s)' % t
        if n.op == 'new(':
            return '(new (call %s%s))' % (t, ''.join(' ' + canon(c) for c in n.ch))
        return '(new ([ %s %s))' % (t, canon(n.ch[0]))
    if k == 'delete':
        return '(delete %s)' % canon(n.ch[0])
    if k == 'kw':
        if n.op == 'if':
            return '(call if%s %s)' % (at(n.pos), canon(n.ch[0]))
        return '(%s %s)' % (n.op, canon(n.ch[0]))
    raise ValueError(k)


# ---------------------------------------------------------------------------------------------
# environment
# ---------------------------------------------------------------------------------------------
# pointee key -> (C spelling, C++ spelling, category of the dereferenced lvalue, flags of it)
POINTEES = {
    'int': ('int', 'int', 'I', ()),
    'char': ('char', 'char', 'I', ('narrow',)),
    'uchar': ('unsigned char', 'unsigned char', 'I', ('narrow',)),
    'ushort': ('unsigned short', 'unsigned short', 'I', ('narrow',)),
    'long': ('long', 'long', 'I', ()),
    'uint': ('unsigned int', 'unsigned int', 'I', ()),
    'double': ('double', 'double', 'F', ()),
    'S': ('struct S', 'S', 'S', ()),
    'pint': ('int *', 'int *', 'P:int', ()),
}

# (name, C type, C++ type or None=same, category, flags)
#   flags: const (not modifiable), narrow (rank below int), array, bf (bit-field), wide
VARS = [
    ('b1', '_Bool', 'bool', 'I', ('const', 'narrow', 'bool')), ('b2', '_Bool', 'bool', 'I', ('const', 'narrow', 'bool')),
    ('c1', 'char', None, 'I', ('narrow',)), ('c2', 'char', None, 'I', ('narrow',)),
    ('sc1', 'signed char', None, 'I', ('narrow',)), ('uc1', 'unsigned char', None, 'I', ('narrow',)),
    ('uc2', 'unsigned char', None, 'I', ('narrow',)),
    ('s1', 'short', None, 'I', ('narrow',)), ('us1', 'unsigned short', None, 'I', ('narrow',)),
    ('us2', 'unsigned short', None, 'I', ('narrow',)),
    ('i1', 'int', None, 'I', ()), ('i2', 'int', None, 'I', ()), ('i3', 'int', None, 'I', ()),
    ('u1', 'unsigned int', None, 'I', ()), ('u2', 'unsigned', None, 'I', ()),
    ('l1', 'long', None, 'I', ()), ('ul1', 'unsigned long', None, 'I', ()),
    ('ll1', 'long long', None, 'I', ()), ('ull1', 'unsigned long long', None, 'I', ()),
    ('e1', 'enum E', 'E', 'I', ('const', 'enum')),
    ('f1', 'float', None, 'F', ()), ('d1', 'double', None, 'F', ()), ('d2', 'double', None, 'F', ()),
    ('ld1', 'long double', None, 'F', ()),
    ('pi1', 'int *', None, 'P:int', ()), ('pi2', 'int *', None, 'P:int', ()),
    ('pc1', 'char *', None, 'P:char', ()), ('puc1', 'unsigned char *', None, 'P:uchar', ()),
    ('pus1', 'unsigned short *', None, 'P:ushort', ()), ('pl1', 'long *', None, 'P:long', ()),
    ('pu1', 'unsigned int *', None, 'P:uint', ()),
    ('pd1', 'double *', None, 'P:double', ()), ('ps1', 'struct S *', 'S *', 'P:S', ()),
    ('ps2', 'struct S *', 'S *', 'P:S', ()), ('ppi1', 'int * *', None, 'P:pint', ()),
    ('st1', 'struct S', 'S', 'S', ()), ('st2', 'struct S', 'S', 'S', ()),
]
# local arrays (declared in the function body): name, decl C, decl C++, category as rvalue
ARRAYS = [
    ('ai1', 'int ai1[8]', None, 'P:int'), ('ac1', 'char ac1[8]', None, 'P:char'),
    ('aus1', 'unsigned short aus1[4]', None, 'P:ushort'),
    ('as1', 'struct S as1[4]', 'S as1[4]', 'P:S'), ('ad1', 'double ad1[4]', None, 'P:double'),
]
CXX_VARS = [
    ('w1', None, 'wchar_t', 'I', ('narrow', 'wchar')),
    ('ob1', None, 'C', 'C', ()), ('pob1', None, 'C *', 'P:C', ()),
]
# struct members: name, category, flags
MEMBERS = [
    ('m', 'I', ()), ('uc', 'I', ('narrow',)), ('sh', 'I', ('narrow',)), ('us', 'I', ('narrow',)),
    ('lg', 'I', ()), ('ul', 'I', ()), ('d', 'F', ()), ('f', 'F', ()), ('next', 'P:S', ()),
    ('pi', 'P:int', ()), ('arr', 'P:int', ('array',)), ('c', 'I', ('narrow',)),
    ('bf', 'I', ('bf', 'narrow')), ('sbf', 'I', ('bf', 'narrow')),
]
# functions: name, return category (V = void), parameter categories, return-type flags
FUNCS = [
    ('fi', 'I', ['I'], ()), ('fu', 'I', ['I', 'I'], ()), ('fl', 'I', ['I', 'I', 'F'], ()),
    ('fd', 'F', ['F'], ()), ('ff', 'F', ['F'], ()), ('fc', 'I', [], ('narrow',)),
    ('fsh', 'I', ['I'], ('narrow',)), ('fuc', 'I', ['I'], ('narrow',)), ('full', 'I', ['I'], ()),
    ('fpi', 'P:int', ['P:int', 'I'], ()), ('fst', 'S', ['I'], ()), ('fps', 'P:S', ['I'], ()),
    ('fv', 'V', ['I'], ()), ('fld', 'F', [], ()), ('fb', 'I', ['I'], ('narrow', 'bool')),
    ('fe', 'I', ['I'], ('enum',)), ('fsa', 'I', ['S'], ()), ('fpc', 'P:char', ['I'], ()),
]

PRELUDE_C = '''struct S { int m; unsigned char uc; short sh; unsigned short us; long lg; unsigned long ul; double d; float f; struct S *next; int *pi; int arr[4]; char c; unsigned bf : 3; int sbf : 5; };
enum E { EM = -1, E0, E1, E2 };
struct P { char c; int i; double d; short s; char t[3]; };
int fi(int x); unsigned fu(unsigned x, int y); long fl(long x, char y, double z); double fd(double x); float ff(float x);
char fc(void); short fsh(short x); unsigned char fuc(int x); unsigned long long full(int x); int *fpi(int *p, int n);
struct S fst(int x); struct S *fps(int x); void fv(int x); long double fld(void); _Bool fb(int x); enum E fe(int x);
int fsa(struct S s); char *fpc(int x);
void ki(long long x); void kd(long double x); void kp(const void *p); void ks(struct S s);
int gv; unsigned long gul;
'''
PRELUDE_CXX = '''struct S { int m; unsigned char uc; short sh; unsigned short us; long lg; unsigned long ul; double d; float f; S *next; int *pi; int arr[4]; char c; unsigned bf : 3; int sbf : 5; };
enum E { EM = -1, E0, E1, E2 };
struct P { char c; int i; double d; short s; char t[3]; };
int fi(int x); unsigned fu(unsigned x, int y); long fl(long x, char y, double z); double fd(double x); float ff(float x);
char fc(void); short fsh(short x); unsigned char fuc(int x); unsigned long long full(int x); int *fpi(int *p, int n);
S fst(int x); S *fps(int x); void fv(int x); long double fld(void); bool fb(int x); E fe(int x);
int fsa(S s); char *fpc(int x);
void ki(long long x); void kd(long double x); void kp(const void *p); void ks(S s);
int gv; unsigned long gul;
namespace N { int nv; long nl; int nf(int x); struct T { static int sm; static long sf(int x); int tm; }; namespace M { unsigned mv; } }
struct C { int cm; short cs; int meth(int x); long meth2(int x, int y); static int smeth(int x); C *self(); };
template<class T> T tf(T x);
template<int K> int tn(int x);
template<class A, class B> A tc(B x);
'''


class Gen:
    """One Gen produces statements for one language; all randomness comes from rng."""

    def __init__(self, rng, lang='c', excl=(), maxdepth=7, lit_rich=False):
        self.rng = rng
        self.lang = lang
        self.cxx = lang == 'c++'
        self.excl = set(excl)
        self.maxdepth = maxdepth
        self.lit_rich = lit_rich
        self.vars = [v for v in VARS]
        if self.cxx:
            self.vars += CXX_VARS
        if 'no-wchar' in self.excl:
            self.vars = [v for v in self.vars if 'wchar' not in v[4]]
            self.excl.add('wchar-literal')
        self.byc = {}
        for v in self.vars:
            self.byc.setdefault(v[3], []).append(v)
        self.ptr_keys = sorted(set(v[3][2:] for v in self.vars if v[3].startswith('P:')) - {'C'})
        self.nlocal = 0

    # ------------------------------------------------------------------ text of the unit
    def prelude(self):
        return PRELUDE_CXX if self.cxx else PRELUDE_C

    def func_header(self, name):
        ps = []
        for v in self.vars:
            ty = (v[2] if self.cxx and v[2] else v[1]) or v[2]
            ps.append('%s %s' % (ty, v[0]) if not ty.endswith('*') else '%s%s' % (ty, v[0]))
        ps.append('int (*pf)(int)')
        head = 'long long %s(%s) {' % (name, ', '.join(ps))
        decls = ' '.join((a[2] if self.cxx and a[2] else a[1]) + ';' for a in ARRAYS)
        return head, '  ' + decls

    # ------------------------------------------------------------------ helpers
    def pick(self, seq):
        return seq[self.rng.randrange(len(seq))]

    def chance(self, p):
        return self.rng.random() < p

    def sub(self, d):
        """depth for a child"""
        if d <= 1:
            return 0
        return self.rng.randint(max(0, d - 3), d - 1)

    def leafnode(self, txt, cat, flags=()):
        return Node('leaf', txt=txt, cat=cat, flags=flags)

    # ------------------------------------------------------------------ literals
    INT_LITS = ['0', '1', '2', '3', '5', '7', '10', '31', '32', '100', '255', '256', '1000',
                '32767', '32768', '65535', '65536', '2147483647', '2147483648', '4294967295', '4294967296',
                '9223372036854775807', '0x7f', '0xff', '0x7fff', '0x8000', '0xffff', '0x10000', '0x7fffffff',
                '0x80000000', '0xffffffff', '0x100000000', '0x7fffffffffffffff', '0xffffffffffffffff',
                '017', '0177777', '037777777777', '1u', '2U', '32768u', '3l', '4L', '5ul', '6UL', '7lu', '8ll',
                '9LL', '10ull', '11ULL', '12llu', '65536u', '2147483648u', '4294967296l', '0x8000u', '0xffffl']
    CHR_LITS = ["'a'", "'z'", "'0'", "'\\n'", "'\\0'", "'\\x41'", "'\\101'", "'\\\\'", "'\\''", "'\\xff'", "'\\377'"]
    WCHR_LITS = ["L'a'", "L'\\x41'", "L'\\0'"]
    FLT_LITS = ['1.5', '2.0', '0.25', '1e3', '1.5e-2', '.5', '3.', '1.5f', '2.0F', '1e2f', '3.0L', '0.5l', '1e1L']

    def lit_I(self):
        r = self.rng.random()
        if r < 0.55 and not self.lit_rich:
            return self.leafnode(self.pick(['0', '1', '2', '3', '4', '5', '7', '8', '10', '16', '100']), 'I', ('lit',))
        if r < 0.85:
            return self.leafnode(self.pick(self.INT_LITS), 'I', ('lit',))
        if r < 0.95 or 'wchar-literal' in self.excl:
            lits = self.CHR_LITS
            if 'cxx-char-escape' in self.excl:
                # finding: C++ character literal with a multi-digit octal escape is typed int
                lits = [c for c in lits if c not in ("'\\377'", "'\\101'")]
            return self.leafnode(self.pick(lits), 'I', ('lit', 'chr') + (('narrow',) if self.cxx else ()))
        return self.leafnode(self.pick(self.WCHR_LITS), 'I', ('lit', 'chr', 'wchar'))

    def lit_F(self):
        return self.leafnode(self.pick(self.FLT_LITS), 'F', ('lit',))

    # ------------------------------------------------------------------ leaves
    def leaf(self, cat):
        r = self.rng.random()
        if cat == 'I':
            if r < 0.62:
                v = self.pick(self.byc['I'])
                return self.leafnode(v[0], 'I', v[4] + ('lv', 'var'))
            if r < 0.70:
                return self.leafnode(self.pick(['E0', 'E1', 'E2', 'EM']), 'I', ('enumerator',))
            if r < 0.74 and self.cxx:
                return self.leafnode(self.pick(['true', 'false']), 'I', ('lit', 'narrow', 'bool'))
            if r < 0.77:
                return self.leafnode(self.pick(['gv', 'gul']), 'I', ('lv', 'var'))
            return self.lit_I()
        if cat == 'F':
            if r < 0.7:
                v = self.pick(self.byc['F'])
                return self.leafnode(v[0], 'F', v[4] + ('lv', 'var'))
            return self.lit_F()
        if cat == 'S':
            v = self.pick(self.byc['S'])
            return self.leafnode(v[0], 'S', ('lv', 'var'))
        if cat == 'C':
            return self.leafnode('ob1', 'C', ('lv', 'var'))
        if cat.startswith('P:'):
            key = cat[2:]
            cands = [v for v in self.byc.get(cat, [])]
            arrs = [a for a in ARRAYS if a[3] == cat]
            if arrs and r < 0.3:
                a = self.pick(arrs)
                return self.leafnode(a[0], cat, ('array', 'var'))
            if cands:
                v = self.pick(cands)
                return self.leafnode(v[0], cat, ('lv', 'var'))
            raise KeyError(key)
        raise KeyError(cat)

    def anyA(self, d):
        return self.rv('I' if self.chance(0.75) else 'F', d)

    def anyB(self, d):
        r = self.rng.random()
        if r < 0.7:
            return self.rv('I', d)
        if r < 0.85:
            return self.rv('F', d)
        return self.rv('P:' + self.pick(self.ptr_keys), d)

    def anyptr(self):
        return 'P:' + self.pick(self.ptr_keys)

    # ------------------------------------------------------------------ lvalues
    def lv(self, cat, d, addressable=False, modifiable=True, narrow_ok=True):
        """an lvalue expression of category cat"""
        for _ in range(50):
            n = self._lv(cat, d, addressable)
            if modifiable and ('const' in n.flags or 'array' in n.flags):
                continue
            if (addressable or 'bitfield' in self.excl) and 'bf' in n.flags:
                continue
            if not narrow_ok and 'narrow' in n.flags:
                continue
            return n
        # fall back to a plain variable
        for _ in range(100):
            n = self.leaf(cat)
            if 'lv' in n.flags and not (modifiable and 'const' in n.flags) and not (
                    not narrow_ok and 'narrow' in n.flags):
                return n
        return self.leafnode({'I': 'i1', 'F': 'd1', 'S': 'st1'}.get(cat, 'pi1'), cat, ('lv', 'var'))

    def _lv(self, cat, d, addressable):
        r = self.rng.random()
        if d <= 0 or r < 0.35:
            for _ in range(20):
                n = self.leaf(cat)
                if 'lv' in n.flags:
                    return n
        key = None
        for k2, v in POINTEES.items():
            if v[2] == cat:
                key = k2 if key is None or self.chance(0.4) else key
        r = self.rng.random()
        mems = [m for m in MEMBERS if m[1] == cat and 'array' not in m[2]]
        if mems and r < 0.4:
            m = self.pick(mems)
            if self.chance(0.5):
                base = self.lv('S', self.sub(d), modifiable=False)
                return Node('mem', op='.', ch=[base], txt=m[0], cat=cat, flags=m[2] + ('lv',))
            base = self.rv('P:S', self.sub(d))
            return Node('mem', op='->', ch=[base], txt=m[0], cat=cat, flags=m[2] + ('lv',))
        if key is not None:
            pflags = POINTEES[key][3] + ('lv',)
            if r < 0.7:
                return Node('idx', ch=[self.rv('P:' + key, self.sub(d)), self.rv('I', self.sub(d))], cat=cat,
                            flags=pflags)
            return Node('pre', op='*', ch=[self.rv('P:' + key, self.sub(d))], prec=P_UNARY, cat=cat, flags=pflags)
        return self.leaf(cat)

    # ------------------------------------------------------------------ rvalues
    def rv(self, cat, d):
        if d <= 0:
            return self.leaf(cat)
        if cat == 'I':
            return self._rvI(d)
        if cat == 'F':
            return self._rvF(d)
        if cat == 'S':
            return self._rvS(d)
        if cat == 'C':
            return self.leaf('C')
        return self._rvP(cat, d)

    def bin(self, op, a, b, cat, flags=()):
        if op == '^' and 'xor-incdec' in self.excl and first_tok(b, BINPREC[op] + 1) in ('++', '--', '&'):
            # finding: `^ ++x` / `^ --x` / `^ &x` is rejected as a syntax error (Tokenizer::findGarbageCode)
            op = '|'
        if op in ('+', '-') and self._starts_minus(b, BINPREC[op] + 1):
            # sign-fold normalisation: never print `a + -b` / `a - -b`
            b = self._wrap_nonminus(b)
        return Node('bin', op=op, ch=[a, b], prec=BINPREC[op], cat=cat, flags=flags)

    def _starts_minus(self, n, minprec):
        return first_tok(n, minprec) == '-'

    def _wrap_nonminus(self, n):
        # replace a leading unary minus operand by ~ (keeps category I/F semantics irrelevant: only shape matters)
        if n.k == 'pre' and n.op == '-':
            if n.cat == 'F':
                return n.ch[0]
            return Node('pre', op='~', ch=n.ch, prec=P_UNARY, cat=n.cat)
        return Node('cast', extra='int' if n.cat == 'I' else 'double', ch=[n], prec=P_UNARY, cat=n.cat)

    def neg(self, x):
        """unary minus honouring the normalisation exclusions"""
        ft = first_tok(x, P_UNARY)
        if ft == '-' or ft[:1].isdigit() or ft[:1] == '.':
            # neg-literal / sign-fold: use ~ for integers, drop for floats
            if x.cat == 'I':
                return Node('pre', op='~', ch=[x], prec=P_UNARY, cat='I')
            return x
        return Node('pre', op='-', ch=[x], prec=P_UNARY, cat=x.cat)

    def mkcall(self, f, d):
        name, rc, params, fl = f
        args = []
        for pc in params:
            a = self.rv(pc, self.sub(d)) if pc not in ('I', 'F') else self.anyA(self.sub(d))
            args.append(self.nocomma(a))
        return Node('call', ch=[self.leafnode(name, 'fn')] + args, cat=rc, flags=fl)

    def int_type(self):
        ts = ['char', 'signed char', 'unsigned char', 'short', 'unsigned short', 'int', 'unsigned int', 'unsigned',
              'long', 'unsigned long', 'long long', 'unsigned long long', 'enum E' if not self.cxx else 'E',
              '_Bool' if not self.cxx else 'bool']
        return self.pick(ts)

    @staticmethod
    def narrow_type(t):
        return t in ('char', 'signed char', 'unsigned char', 'short', 'unsigned short', '_Bool', 'bool', 'wchar_t')

    def flt_type(self):
        return self.pick(['float', 'double', 'long double'])

    def ptr_type(self, key):
        t = POINTEES[key][1 if self.cxx else 0]
        return t + ('*' if t.endswith('*') else ' *')

    def _rvI(self, d):
        rng = self.rng
        s = self.sub
        if self.cxx and self.chance(0.14):
            n = self.cxx_I(d)
            if n is not None:
                return n
        for _ in range(30):
            r = rng.random()
            if r < 0.22:
                op = self.pick(['+', '-', '*', '/', '%', '+', '-', '*'])
                return self.bin(op, self.rv('I', s(d)), self.rv('I', s(d)), 'I')
            if r < 0.32:
                op = self.pick(['&', '|', '^', '<<', '>>'])
                return self.bin(op, self.rv('I', s(d)), self.rv('I', s(d)), 'I')
            if r < 0.42:
                if 'compare' in self.excl:
                    continue
                op = self.pick(['<', '<=', '>', '>=', '==', '!='])
                if self.chance(0.8):
                    return self.bin(op, self.anyA(s(d)), self.anyA(s(d)), 'I', ('narrow', 'bool', 'cmp'))
                pc = self.anyptr()
                return self.bin(op, self.rv(pc, s(d)), self.rv(pc, s(d)), 'I', ('narrow', 'bool', 'cmp'))
            if r < 0.48:
                if 'compare' in self.excl:
                    continue
                op = self.pick(['&&', '||'])
                return self.bin(op, self.anyB(s(d)), self.anyB(s(d)), 'I', ('narrow', 'bool', 'cmp'))
            if r < 0.52:
                if 'compare' in self.excl:
                    continue
                x = self.anyB(s(d))
                if x.k == 'cast' and '*' not in x.extra:
                    x = x.ch[0]      # not-cast normalisation
                return Node('pre', op='!', ch=[x], prec=P_UNARY, cat='I', flags=('narrow', 'bool', 'cmp'))
            if r < 0.57:
                x = self.rv('I', s(d))
                if self.chance(0.5):
                    return self.neg(x)
                return Node('pre', op='~', ch=[x], prec=P_UNARY, cat='I')
            if r < 0.63:
                return self.cond('I', d)
            if r < 0.69:
                return self.assign('I', d)
            if r < 0.73:
                return self.incdec('I', d)
            if r < 0.78:
                t = self.int_type()
                if 'cast-narrow' in self.excl and self.narrow_type(t):
                    continue
                return Node('cast', extra=t, ch=[self.anyA(s(d))], prec=P_UNARY, cat='I',
                            flags=('narrow',) if self.narrow_type(t) else ())
            if r < 0.83:
                f = self.pick([f for f in FUNCS if f[1] == 'I'])
                if 'narrow' in f[3] and 'call-narrow' in self.excl:
                    continue
                return self.mkcall(f, d)
            if r < 0.90:
                n = self._lv('I', d, False)
                if n.k == 'leaf':
                    continue
                if 'bf' in n.flags:
                    # bit-fields only as operands of a binary operator
                    if 'bitfield' in self.excl:
                        continue
                    return self.bin(self.pick(['+', '-', '*', '&', '|', '<<']), n, self.rv('I', s(d)), 'I')
                return n
            if r < 0.935:
                if 'sizeof' in self.excl:
                    continue
                return self.sizeof(d)
            if r < 0.96:
                return self.comma('I', d)
            if r < 0.975:
                if 'ptrdiff' in self.excl:
                    continue
                pc = self.anyptr()
                return self.bin('-', self.rv(pc, s(d)), self.rv(pc, s(d)), 'I')
            if r < 0.985:
                if self.chance(0.5):
                    return Node('call', ch=[self.leafnode('pf', 'fn'), self._arg('I', s(d))], cat='I')
                callee = Node('pre', op='*', ch=[self.leafnode('pf', 'fn')], prec=P_UNARY)
                return Node('call', ch=[callee, self._arg('I', s(d))], cat='I')
            if r < 0.992:
                # string literal subscript / deref
                if 'strlit' in self.excl:
                    continue
                sl = self.leafnode('"abc"', 'P:char', ('lit', 'str'))
                if self.chance(0.6):
                    return Node('idx', ch=[sl, self.rv('I', s(d))], cat='I', flags=('narrow',))
                return Node('pre', op='*', ch=[sl], prec=P_UNARY, cat='I', flags=('narrow',))
            if self.cxx:
                n = self.cxx_I(d)
                if n is not None:
                    return n
        return self.leaf('I')

    def _rvF(self, d):
        s = self.sub
        for _ in range(30):
            r = self.rng.random()
            if self.cxx and r < 0.1:
                r = 0.99
            if r < 0.40:
                op = self.pick(['+', '-', '*', '/'])
                a, b = self.rv('F', s(d)), self.anyA(s(d))
                if self.chance(0.5):
                    a, b = b, a
                return self.bin(op, a, b, 'F')
            if r < 0.48:
                return self.neg(self.rv('F', s(d)))
            if r < 0.56:
                return self.cond('F', d)
            if r < 0.64:
                return self.assign('F', d)
            if r < 0.68:
                return self.incdec('F', d)
            if r < 0.76:
                return Node('cast', extra=self.flt_type(), ch=[self.anyA(s(d))], prec=P_UNARY, cat='F')
            if r < 0.84:
                return self.mkcall(self.pick([f for f in FUNCS if f[1] == 'F']), d)
            if r < 0.94:
                n = self._lv('F', d, False)
                if n.k != 'leaf':
                    return n
                continue
            if r < 0.97:
                return self.comma('F', d)
            if self.cxx:
                t = self.pick(['float', 'double'])
                if self.chance(0.5):
                    return Node('fcast', op=t, ch=[self.nocomma(self.anyA(s(d)))], cat='F')
                return Node('ncast', op='static_cast', txt=self.flt_type(), ch=[self.anyA(s(d))], cat='F')
        return self.leaf('F')

    def _rvS(self, d):
        s = self.sub
        r = self.rng.random()
        if r < 0.3:
            return self.leaf('S')
        if r < 0.45:
            return Node('pre', op='*', ch=[self.rv('P:S', s(d))], prec=P_UNARY, cat='S', flags=('lv',))
        if r < 0.6:
            return Node('idx', ch=[self.rv('P:S', s(d)), self.rv('I', s(d))], cat='S', flags=('lv',))
        if r < 0.75:
            return self.mkcall(self.pick([f for f in FUNCS if f[1] == 'S']), d)
        if r < 0.85:
            return self.cond('S', d)
        if r < 0.93:
            return self.assign('S', d)
        return self.comma('S', d)

    def _rvP(self, cat, d):
        s = self.sub
        key = cat[2:]
        for _ in range(30):
            r = self.rng.random()
            if r < 0.2:
                return self.leaf(cat)
            if r < 0.38:
                op = self.pick(['+', '-'])
                if op == '+' and self.chance(0.35):
                    return self.bin('+', self.rv('I', s(d)), self.rv(cat, s(d)), cat)
                return self.bin(op, self.rv(cat, s(d)), self.rv('I', s(d)), cat)
            if r < 0.46:
                return self.cond(cat, d)
            if r < 0.54:
                return self.assign(cat, d)
            if r < 0.60:
                return self.incdec(cat, d)
            if r < 0.68:
                return Node('cast', extra=self.ptr_type(key), ch=[self.rv(self.anyptr(), s(d))], prec=P_UNARY,
                            cat=cat)
            if r < 0.78:
                # address-of
                pcat = POINTEES[key][2]
                x = self.lv(pcat, s(d), addressable=True, modifiable=False)
                if 'array' in x.flags or 'lit' in x.flags:
                    continue
                if key in ('char', 'uchar', 'ushort', 'long', 'uint', 'int'):
                    # the lvalue must have exactly the pointee type: only deref/index of the same pointer kind
                    x = self._typed_lv(key, s(d))
                    if x is None:
                        continue
                elif key == 'double':
                    x = self._typed_lv('double', s(d))
                    if x is None:
                        continue
                if (not self.cxx and x.k == 'idx' and x.ch[0].k == 'leaf' and x.ch[1].k == 'leaf'
                        and x.ch[1].txt == '0'):
                    continue   # addr-index0-c normalisation
                return Node('pre', op='&', ch=[x], prec=P_UNARY, cat=cat)
            if r < 0.86:
                fs = [f for f in FUNCS if f[1] == cat]
                if fs:
                    return self.mkcall(self.pick(fs), d)
                continue
            if r < 0.93:
                # members / deref giving a pointer
                if cat == 'P:S':
                    m = 'next'
                elif cat == 'P:int':
                    m = self.pick(['pi', 'arr'])
                else:
                    continue
                if cat == 'P:int' and self.chance(0.3):
                    return Node('pre', op='*', ch=[self.rv('P:pint', s(d))], prec=P_UNARY, cat=cat, flags=('lv',))
                fl = ('lv',) if m != 'arr' else ('array',)
                if self.chance(0.5):
                    return Node('mem', op='.', ch=[self.rv('S', s(d))], txt=m, cat=cat, flags=fl)
                return Node('mem', op='->', ch=[self.rv('P:S', s(d))], txt=m, cat=cat, flags=fl)
            if r < 0.94:
                return self.comma(cat, d)
            if self.cxx and 'new' not in self.excl and key in ('int', 'char', 'long', 'double', 'S'):
                t = POINTEES[key][1]
                r2 = self.rng.random()
                if r2 < 0.3:
                    return Node('new', op='new', txt=t, prec=P_UNARY, cat=cat)
                if r2 < 0.65 and key != 'S':
                    return Node('new', op='new(', txt=t, ch=[self.nocomma(self.anyA(s(d)))], prec=P_UNARY, cat=cat)
                sz = self.rv('I', s(d))
                if not any('var' in x.flags for x in sz.walk()):
                    sz = self.leafnode(self.pick(['i1', 'i2', 'u1', 'uc1']), 'I', ('lv', 'var'))
                return Node('new', op='new[', txt=t, ch=[sz], prec=P_UNARY, cat=cat)
        return self.leaf(cat)

    def _typed_lv(self, key, d):
        """lvalue whose type is exactly the pointee type `key`"""
        r = self.rng.random()
        exact = {'int': ['i1', 'i2', 'i3', 'gv'], 'char': ['c1', 'c2'], 'uchar': ['uc1', 'uc2'],
                 'ushort': ['us1', 'us2'], 'long': ['l1'], 'uint': ['u1', 'u2'], 'double': ['d1', 'd2']}[key]
        mem = {'int': 'm', 'char': 'c', 'uchar': 'uc', 'ushort': 'us', 'long': 'lg', 'double': 'd'}.get(key)
        pcat = POINTEES[key][2]
        fl = POINTEES[key][3] + ('lv',)
        if r < 0.4 or d <= 0:
            return self.leafnode(self.pick(exact), pcat, fl + ('var',))
        if r < 0.6 and mem:
            if self.chance(0.5):
                return Node('mem', op='.', ch=[self.lv('S', self.sub(d), modifiable=False)], txt=mem, cat=pcat, flags=fl)
            return Node('mem', op='->', ch=[self.rv('P:S', self.sub(d))], txt=mem, cat=pcat, flags=fl)
        if r < 0.85:
            return Node('idx', ch=[self.rv('P:' + key, self.sub(d)), self.rv('I', self.sub(d))], cat=pcat, flags=fl)
        return Node('pre', op='*', ch=[self.rv('P:' + key, self.sub(d))], prec=P_UNARY, cat=pcat, flags=fl)

    # ------------------------------------------------------------------ shared productions
    def cond(self, cat, d):
        s = self.sub
        c = self.anyB(s(d))
        if cat in ('I', 'F'):
            a = self.rv(cat, s(d))
            b = self.anyA(s(d)) if cat == 'F' else self.rv('I', s(d))
            if self.chance(0.5):
                a, b = b, a
        else:
            a, b = self.rv(cat, s(d)), self.rv(cat, s(d))
        flags = ()
        if 'cond-narrow' in self.excl and cat == 'I' and ('narrow' in a.flags and 'narrow' in b.flags):
            b = self.leafnode('i2', 'I', ('lv', 'var'))
        if self.cxx and b.k == 'assign' and self.chance(0.5) and 'cxx-cond-assign' not in self.excl:
            flags = ('cxx-cond-assign',)
        return Node('cond', ch=[c, a, b], prec=P_COND, cat=cat, flags=flags)

    def assign(self, cat, d):
        s = self.sub
        if cat == 'I':
            l = self.lv('I', s(d), narrow_ok='assign-narrow' not in self.excl)
            r = self.rng.random()
            if r < 0.5:
                return Node('assign', op='=', ch=[l, self.anyA(s(d))], prec=P_ASSIGN, cat='I',
                            flags=('narrow',) if 'narrow' in l.flags else ())
            if r < 0.75:
                op = self.pick(['+=', '-=', '*=', '/='])
                return Node('assign', op=op, ch=[l, self.anyA(s(d))], prec=P_ASSIGN, cat='I',
                            flags=('narrow',) if 'narrow' in l.flags else ())
            op = self.pick(['%=', '<<=', '>>=', '&=', '^=', '|='])
            return Node('assign', op=op, ch=[l, self.rv('I', s(d))], prec=P_ASSIGN, cat='I',
                        flags=('narrow',) if 'narrow' in l.flags else ())
        if cat == 'F':
            l = self.lv('F', s(d))
            op = self.pick(['=', '=', '+=', '-=', '*=', '/='])
            return Node('assign', op=op, ch=[l, self.anyA(s(d))], prec=P_ASSIGN, cat='F')
        if cat == 'S':
            return Node('assign', op='=', ch=[self.lv('S', s(d)), self.rv('S', s(d))], prec=P_ASSIGN, cat='S')
        l = self.lv(cat, s(d))
        if self.chance(0.6):
            return Node('assign', op='=', ch=[l, self.rv(cat, s(d))], prec=P_ASSIGN, cat=cat)
        return Node('assign', op=self.pick(['+=', '-=']), ch=[l, self.rv('I', s(d))], prec=P_ASSIGN, cat=cat)

    def incdec(self, cat, d):
        l = self.lv(cat, self.sub(d), narrow_ok='incdec-narrow' not in self.excl)
        if 'bool' in l.flags or 'enum' in l.flags:
            l = self.leafnode('i1', 'I', ('lv', 'var'))
        op = self.pick(['++', '--'])
        fl = ('narrow',) if 'narrow' in l.flags else ()
        if self.chance(0.5):
            return Node('pre', op=op, ch=[l], prec=P_UNARY, cat=cat, flags=fl)
        return Node('post', op=op, ch=[l], prec=P_POST, cat=cat, flags=fl)

    def comma(self, cat, d):
        s = self.sub
        r = self.rng.random()
        if r < 0.15:
            left = self.mkcall(self.pick([f for f in FUNCS if f[1] == 'V']), d)
        elif r < 0.6:
            left = self.assign(self.pick(['I', 'I', 'F', self.anyptr()]), d)
        else:
            left = self.anyB(s(d))
        return Node('bin', op=',', ch=[left, self.rv(cat, s(d))], prec=P_COMMA, cat=cat)

    def sizeof(self, d):
        s = self.sub
        r = self.rng.random()
        if r < 0.35:
            ts = ['char', 'short', 'int', 'long', 'long long', 'unsigned', 'unsigned long', 'float', 'double',
                  'long double', 'int *', 'char *', 'struct S' if not self.cxx else 'S',
                  'enum E' if not self.cxx else 'E', 'unsigned short', 'signed char', 'double *',
                  'struct S *' if not self.cxx else 'S *']
            if self.cxx:
                ts += ['bool', 'wchar_t']
            else:
                ts += ['_Bool']
            return Node('szt', extra=self.pick(ts), prec=P_UNARY, cat='I')
        # operand: anything but a bit-field designator / void / function
        cat = self.pick(['I', 'I', 'F', 'S', self.anyptr()])
        x = self.rv(cat, s(d))
        for y in self._value_path(x):
            if 'bf' in y.flags:
                x = self.leafnode('i1', 'I', ('lv', 'var'))
                break
        paren = self.chance(0.6)
        return Node('sze', ch=[x], prec=P_UNARY, cat='I', flags=('paren',) if paren else ())

    def _value_path(self, x):
        """nodes whose lvalue could be denoted by x (through parentheses, comma, ?:, assignment in C++)"""
        yield x
        if x.k == 'bin' and x.op == ',':
            for y in self._value_path(x.ch[1]):
                yield y
        elif x.k == 'cond':
            for c in x.ch[1:]:
                for y in self._value_path(c):
                    yield y
        elif x.k == 'assign' or (x.k == 'pre' and x.op in ('++', '--')):
            for y in self._value_path(x.ch[0]):
                yield y

    # ------------------------------------------------------------------ C++ only
    def cxx_I(self, d):
        s = self.sub
        r = self.rng.random()
        if r < 0.16:
            t = self.pick(['int', 'long', 'unsigned', 'char', 'short', 'bool', 'E'])
            if 'cast-narrow' in self.excl and t in ('char', 'short', 'bool'):
                return None
            return Node('fcast', op=t, ch=[self.nocomma(self.anyA(s(d)))], cat='I',
                        flags=('narrow',) if t in ('char', 'short', 'bool') else ())
        if r < 0.30:
            t = self.int_type()
            if 'cast-narrow' in self.excl and self.narrow_type(t):
                return None
            return Node('ncast', op='static_cast', txt=t, ch=[self.anyA(s(d))], cat='I',
                        flags=('narrow',) if self.narrow_type(t) else ())
        if r < 0.45:
            q = self.pick([['::', 'gv'], ['N', '::', 'nv'], ['N', '::', 'nl'], ['N', '::', 'T', '::', 'sm'],
                           ['N', '::', 'M', '::', 'mv'], ['::', 'N', '::', 'nv']])
            return Node('qual', extra=q, cat='I', flags=('lv',))
        if r < 0.58:
            q = self.pick([(['N', '::', 'nf'], 1), (['N', '::', 'T', '::', 'sf'], 1), (['C', '::', 'smeth'], 1),
                           (['::', 'fi'], 1)])
            callee = Node('qual', extra=q[0], cat='fn')
            return Node('call', ch=[callee] + [self._arg('I', s(d)) for _ in range(q[1])], cat='I')
        if r < 0.74:
            m = self.pick([('meth', 1), ('meth2', 2)])
            if self.chance(0.5):
                callee = Node('mem', op='.', ch=[self.leafnode('ob1', 'C', ('lv',))], txt=m[0], cat='fn')
            else:
                base = self.leafnode('pob1', 'P:C', ('lv',))
                if self.chance(0.3):
                    base = Node('call', ch=[Node('mem', op='->', ch=[base], txt='self', cat='fn')], cat='P:C')
                callee = Node('mem', op='->', ch=[base], txt=m[0], cat='fn')
            return Node('call', ch=[callee] + [self._arg('I', s(d)) for _ in range(m[1])], cat='I')
        if r < 0.82:
            if self.chance(0.5):
                return Node('mem', op='.', ch=[self.leafnode('ob1', 'C', ('lv',))], txt=self.pick(['cm', 'cs']),
                            cat='I', flags=('lv',))
            return Node('mem', op='->', ch=[self.leafnode('pob1', 'P:C', ('lv',))], txt=self.pick(['cm', 'cs']),
                        cat='I', flags=('lv',))
        if 'template-call' in self.excl:
            return None
        # explicit template arguments
        t = self.pick(['tf<int>', 'tf<long>', 'tf<unsigned>', 'tn<3>', 'tn<1 + 2>', 'tc<int, long>',
                       'tn<sizeof(int)>'])
        return Node('call', ch=[self.leafnode(t, 'fn', ('tmpl',)), self._arg('I', s(d))], cat='I')

    def _arg(self, cat, d):
        return self.nocomma(self.rv(cat, d))

    @staticmethod
    def nocomma(a):
        """comma-arg normalisation exclusion: a call argument is never a comma expression"""
        while a.k == 'bin' and a.op == ',':
            a = a.ch[1]
        return a

    def avoid_findings(self, n):
        """post-pass for the finding-keyed exclusions that are purely structural"""
        n.ch = [self.avoid_findings(c) for c in n.ch]
        ex = self.excl
        if 'enum-cast-unary' in ex and n.k == 'cast' and n.extra in ('enum E', 'E'):
            if first_tok(n.ch[0], P_UNARY) in ('-', '*', '&', '+'):
                n.extra = 'int'
        if 'delete-prefix-op' in ex and n.k == 'delete':
            if first_tok(n.ch[0], P_UNARY) in ('-', '*', '&', '+', '++', '--', '!', '~'):
                n.ch = [Node('cast', extra='char *', ch=[n.ch[0]], prec=P_UNARY, cat=n.ch[0].cat)]
        if 'sizeof-unparen' in ex:
            # findings: sizeof without parentheses is mis-grouped when its operand starts with - + ++ --,
            # when the operand is `( … )` followed by a postfix operator, and when `sizeof x` is followed by
            # `* <operator>` (Tokenizer::sizeofAddParentheses)
            if n.k == 'sze' and 'paren' not in n.flags:
                c = n.ch[0]
                ft = first_tok(c, P_UNARY)
                if ft in ('-', '+', '++', '--') or (ft == '(' and c.k in ('idx', 'mem', 'post', 'call')) or '<' in ft:
                    n.flags = n.flags | {'paren'}
                elif c.k == 'pre' and first_tok(c.ch[0], P_UNARY) in ('*', '&', '-', '+', '++', '--'):
                    n.flags = n.flags | {'paren'}      # `sizeof &*p`, `sizeof !-x`: second prefix operator not consumed
            if n.k == 'bin' and n.op == '*':
                e = self.right_edge(n.ch[0], n.prec, lambda x: x.k == 'sze' and 'paren' not in x.flags)
                if e is not None:
                    e.flags = e.flags | {'paren'}
        if 'enumerator-angle-chain' in ex and self.cxx and n.k == 'bin' and n.op == '>':
            # finding: `ENUMERATOR < x > ( … )` is taken for a template call
            l = n.ch[0]
            if l.k == 'bin' and l.op == '<' and l.prec >= n.prec:
                x = l.ch[0]
                while x.k == 'bin' and x.prec >= P_REL:
                    x = x.ch[0]
                if x.k == 'leaf' and 'enumerator' in x.flags and first_tok(n.ch[1], n.prec + 1) in (
                        '(', 'static_cast', 'reinterpret_cast', 'const_cast'):
                    n.op = '>='
        if 'fcast-enum-deref' in ex and n.k == 'fcast' and n.op == 'E' and n.ch:
            # finding: `E(*p)` is taken for a declaration (valueType gets a pointer level)
            if first_tok(n.ch[0], P_ASSIGN) in ('*', '&'):
                n.op = 'int'
        if 'new-comma' in ex and n.k == 'bin' and n.op == ',':
            # finding: `… new T[n], x` loses the comma operator
            e = self.right_edge(n.ch[0], P_COMMA, lambda x: x.k == 'new')
            if e is not None:
                e.k, e.op, e.ch, e.txt, e.extra, e.prec = 'leaf', None, [], self.leaf(e.cat).txt, None, P_POST
        if n.k == 'bin' and n.op in ('*', '&', '&&', '<'):
            e = self.bare_new_at_right_edge(n.ch[0], n.prec)
            if e is not None:
                if n.op == '<':
                    if 'new-less' in ex:
                        n.op = '<='      # finding: `new T < x` loses the comparison
                else:
                    # grammar: `new T * x` would make `*` part of the new-type-id; write `new T() * x`
                    e.op = 'new('
        return n

    def bare_new_at_right_edge(self, n, minprec):
        return self.right_edge(n, minprec, lambda x: x.k == 'new' and x.op == 'new')

    def right_edge(self, n, minprec, pred):
        """the node satisfying pred whose last token is the last token of n's printed text, or None"""
        if n.prec < minprec:
            return None
        if pred(n):
            return n
        if n.k in ('bin', 'assign'):
            return self.right_edge(n.ch[1], n.prec + (1 if n.k == 'bin' and n.op != ',' else 0), pred)
        if n.k == 'cond':
            return self.right_edge(n.ch[2], P_COND, pred)
        if n.k in ('pre', 'cast', 'delete') or (n.k == 'sze' and 'paren' not in n.flags):
            return self.right_edge(n.ch[0], P_UNARY, pred)
        return None

    def avoid_normalised(self, n):
        """post-pass: rewrite the few shapes that cppcheck's tokenizer would rewrite (see
        NORMALISATION_EXCLUSIONS addr-arrow, not-cast, addr-index0-c) into the equivalent plain form"""
        n.ch = [self.avoid_normalised(c) for c in n.ch]
        if n.k == 'mem' and n.op == '->':
            b = n.ch[0]
            if b.k == 'pre' and b.op == '&' and b.ch[0].k == 'leaf':
                return Node('mem', op='.', ch=[b.ch[0]], txt=n.txt, cat=n.cat, flags=n.flags)
        if n.k == 'pre' and n.op == '!':
            x = n.ch[0]
            if x.k == 'cast' and '*' not in x.extra:
                n.ch = [x.ch[0]]
        if (self.cxx and n.k == 'bin' and n.op != ',' and all(
                c.k == 'leaf' and leaftext(c.txt) == '#' for c in n.ch)):
            n.ch[1] = self.leafnode(self.pick(['i1', 'i2', 'u1']), 'I', ('lv', 'var'))
        if (not self.cxx and n.k == 'pre' and n.op == '&' and n.ch[0].k == 'idx' and n.ch[0].ch[0].k == 'leaf'
                and n.ch[0].ch[1].k == 'leaf' and n.ch[0].ch[1].txt == '0'):
            n.ch[0].ch[1] = self.leafnode('1', 'I', ('lit',))
        return n

    # ------------------------------------------------------------------ statements
    def statement(self, depth=None):
        for _ in range(100):
            st = self.avoid_findings(self.avoid_normalised(self._statement(depth)))
            if self._is_multi_assign(st):
                continue
            if 'andassign-decl-heuristic' in self.excl or 'paren-decl-heuristic' in self.excl:
                p = Printer(1, 1)
                emit(p, st, 0, False, self.cxx)
                if 'andassign-decl-heuristic' in self.excl and andassign_split(p.text()):
                    continue
                if 'paren-decl-heuristic' in self.excl and PAREN_DECL_RE.search(p.text()):
                    continue
            return st
        return st

    @staticmethod
    def _is_multi_assign(st):
        """stmt-multi-assign: `n1 = n2 = … = name|num ;` (also as the initialiser of a declaration)"""
        if st.k == 'decl':
            x = st.ch[1]
            n = 1
        elif st.k == 'assign' and st.op == '=' and st.ch[0].k == 'leaf':
            x = st.ch[1]
            n = 1
        else:
            return False
        while x.k == 'assign' and x.op == '=' and x.ch[0].k == 'leaf':
            x = x.ch[1]
            n += 1
        return n >= 2 and x.k == 'leaf'

    def _statement(self, depth=None):
        """-> Node for one full statement (expression statement, sink call, if, return, declaration)"""
        rng = self.rng
        if depth is None:
            depth = self.pick([1, 2, 2, 3, 3, 3, 4, 4, 5, 6, 7])
            depth = min(depth, self.maxdepth)
        for _ in range(100):
            cat = self.pick(['I', 'I', 'I', 'I', 'F', 'S', self.anyptr(), self.anyptr()])
            e = self.rv(cat, depth)
            r = rng.random()
            if e.k in ('assign', 'call', 'post') or (e.k == 'pre' and e.op in ('++', '--')) or (
                    e.k == 'bin' and e.op == ','):
                if e.k == 'bin' and 'stmt-name-comma' in self.excl:
                    x = e
                    while x.k == 'bin' and x.op == ',':
                        x = x.ch[0]
                    if not (x.k in ('assign', 'call', 'post') or (x.k == 'pre' and x.op in ('++', '--'))):
                        continue   # finding: statement `name , …;` / `a * b, c;` loses the comma operator
                if r < 0.5:
                    return e
            if r < 0.45:
                # assignment to an lvalue
                l = self.lv(cat, rng.randint(0, 1))
                if l.k == 'leaf' and e.k == 'assign' and e.op == '=' and e.ch[0].k == 'leaf':
                    continue   # stmt-multi-assign normalisation
                return Node('assign', op='=', ch=[l, e], prec=P_ASSIGN, cat=cat)
            if r < 0.65:
                if e.k == 'bin' and e.op == ',':
                    continue   # comma-arg
                sink = {'I': 'ki', 'F': 'kd', 'S': 'ks'}.get(cat, 'kp')
                return Node('call', ch=[self.leafnode(sink, 'fn'), e], cat='V')
            if r < 0.78 and cat != 'S':
                return Node('kw', op='if', ch=[e], prec=0)
            if r < 0.84 and cat in ('I', 'F'):
                if ('return-name-op-cast' in self.excl and e.k == 'bin' and e.op in ('*', '&')
                        and e.ch[0].k == 'leaf' and e.ch[1].k == 'cast' and '*' not in e.ch[1].extra):
                    continue   # finding: `return name &|* (T)x` loses the cast
                return Node('kw', op='return', ch=[e], prec=0)
            if r < 0.97 and cat != 'S':
                self.nlocal += 1
                if cat == 'I':
                    ty = self.pick(['long long', 'int', 'unsigned', 'long', 'unsigned long long'])
                elif cat == 'F':
                    ty = self.pick(['double', 'float', 'long double'])
                else:
                    ty = self.ptr_type(cat[2:])
                    ty = ty[:-1].rstrip() + ' *'
                if e.k == 'assign' and e.op == '=' and e.ch[0].k == 'leaf':
                    continue   # stmt-multi-assign normalisation (also applied to `T x = a = b;`)
                name = self.leafnode('x%d' % self.nlocal, cat, ('lv',))
                return Node('decl', extra=ty, ch=[name, e], prec=0, cat=cat)
            if self.cxx and cat.startswith('P:') and cat[2:] in ('int', 'char', 'long', 'double', 'S') and (
                    'new' not in self.excl):
                return Node('delete', op=self.pick(['delete', 'delete[]']), ch=[e], prec=P_UNARY)
        return Node('assign', op='=', ch=[self.leafnode('i1', 'I'), self.leafnode('i2', 'I')], prec=P_ASSIGN)


# finding: `( name [*|&|&& name]… *|&|&& VAR (` is taken for a declaration by TokenList skipDecl(); the only
# variable that is called in generated code is the function pointer `pf`
PAREN_DECL_RE = re.compile(r'\(\s*[A-Za-z_]\w*(\s*(\*|&&|&|::)\s*[A-Za-z_]\w*)*\s*(\*|&&|&)\s*pf\(')


def andassign_split(text):
    """True if simplecpp's `void f(x&=2)` heuristic (TokenList::combineOperators) would leave a `&=` of this
    statement as two tokens: the `&=` is directly inside the parentheses of `name(`, and the tokens from the
    start of the statement up to that name are only names, `::`, `*`, `&` (at least one, starting with a name)"""
    toks = re.findall(r'[A-Za-z_]\w*|::|&=|&&|\S', text)
    for i, t in enumerate(toks):
        if t != '&=':
            continue
        lvl = 0
        j = i
        while j >= 0 and lvl >= 0:
            if toks[j] == ')':
                lvl += 1
            elif toks[j] == '(':
                lvl -= 1
            elif toks[j] in (';', '{', '}'):
                break
            j -= 1
        if lvl != -1 or j < 0:
            continue
        f = j      # j is one before the '(' after the loop's last decrement
        if not re.match(r'[A-Za-z_]', toks[f]):
            continue
        k = f
        ok = True
        while True:
            if not (re.match(r'[A-Za-z_]', toks[k]) or toks[k] in ('::', '*', '&')):
                ok = False
                break
            if k == 0:
                break
            k -= 1
        if ok and k != f and re.match(r'[A-Za-z_]', toks[k]):
            return True
    return False


class Unit:
    """a generated translation unit: text, per-line statement trees"""

    def __init__(self, lang):
        self.lang = lang
        self.lines = []
        self.stmts = {}      # line number -> Node

    def text(self):
        return '\n'.join(self.lines) + '\n'

    def ext(self):
        return '.cpp' if self.lang == 'c++' else '.c'


def gen_unit(rng, lang='c', nstmts=50, per_func=50, excl=(), maxdepth=7, lit_rich=False, depth=None):
    g = Gen(rng, lang, excl, maxdepth, lit_rich)
    u = Unit(lang)
    for l in g.prelude().rstrip('\n').split('\n'):
        u.lines.append(l)
    done = 0
    fidx = 0
    while done < nstmts:
        fidx += 1
        head, decls = g.func_header('t%d' % fidx)
        u.lines.append(head)
        u.lines.append(decls)
        for _ in range(min(per_func, nstmts - done)):
            st = g.statement(depth)
            line = len(u.lines) + 1
            p = Printer(line, 3)
            emit(p, st, 0, False, g.cxx)
            txt = '  ' + p.text()
            if st.k != 'kw' or st.op != 'if':
                txt += ';'
            u.lines.append(txt)
            u.stmts[line] = st
            done += 1
        u.lines.append('  return 0;')
        u.lines.append('}')
    u.gen = g
    return u


def stmt_text(unit, line):
    return unit.lines[line - 1].strip()


def node_text(unit, line, n):
    """printed text of the sub-expression n (inclusive of its own parentheses if it was parenthesised)"""
    if n.span is None:
        return None
    return unit.lines[line - 1][n.span[0] - 1:n.span[1] - 1]


# ---------------------------------------------------------------------------------------------
# hand-built statements (witnesses of listed findings are written with these constructors)
# ---------------------------------------------------------------------------------------------
def L(txt, cat='I', flags=()):
    fl = set(flags)
    if txt[:1].isdigit() or txt[:1] in "'.\"" or txt[:2] in ("L'", "u'", "U'"):
        fl.add('lit')
        if "'" in txt:
            fl.add('chr')
    return Node('leaf', txt=txt, cat=cat, flags=fl)


def B(op, a, b):
    return Node('bin', op=op, ch=[a, b], prec=BINPREC[op])


def A(op, l, r):
    return Node('assign', op=op, ch=[l, r], prec=P_ASSIGN)


def U(op, x):
    return Node('pre', op=op, ch=[x], prec=P_UNARY)


def PO(op, x):
    return Node('post', op=op, ch=[x], prec=P_POST)


def CAST(ty, x):
    return Node('cast', extra=ty, ch=[x], prec=P_UNARY)


def Q(c, a, b):
    return Node('cond', ch=[c, a, b], prec=P_COND)


def SZT(ty):
    return Node('szt', extra=ty, prec=P_UNARY)


def SZE(x, paren=True):
    return Node('sze', ch=[x], prec=P_UNARY, flags=('paren',) if paren else ())


def M(op, base, name):
    return Node('mem', op=op, ch=[base], txt=name)


def CALL(f, *args):
    return Node('call', ch=[L(f, 'fn')] + list(args))


def IDX(b, i):
    return Node('idx', ch=[b, i])


def unit_from(lang, stmts):
    """a unit whose single function holds the given statement trees (one per line)"""
    import random
    g = Gen(random.Random(0), lang)
    u = Unit(lang)
    for l in g.prelude().rstrip('\n').split('\n'):
        u.lines.append(l)
    head, decls = g.func_header('t1')
    u.lines.append(head)
    u.lines.append(decls)
    for st in stmts:
        line = len(u.lines) + 1
        p = Printer(line, 3)
        emit(p, st, 0, False, g.cxx)
        txt = '  ' + p.text()
        if st.k != 'kw' or st.op != 'if':
            txt += ';'
        u.lines.append(txt)
        u.stmts[line] = st
    u.tail_line = len(u.lines) + 1
    u.lines.append('  return 0;')
    u.lines.append('}')
    u.gen = g
    return u
