"""Generator of multi-file programs whose findings come from whole-program analysis (C22).

Shapes (each instance gets a unique number, so no name is defined twice — see EXCLUSION below):
  null / uninit / array-size arguments passed to a function of another file, directly or through
  call chains over up to 4 files; prototypes through a shared header or as local declarations;
  member functions (C++); unused functions, functions used only from another file, only through a
  function pointer, only from a template, only from a markup-free macro; ODR conflicts (C++);
  functions used only inside their own file (staticFunction).

EXCLUSIONS, each naming a listed C22 finding whose fixed witness is replayed on every run:
 * `witness:dupname-unusedFunction-location`: the generator never defines the same function name twice.
 * `witness:nested-call-lost-with-builddir`: with chains=False no call chain over 3+ functions is generated.
 * `witness:staticFunction-missing-with-builddir`: with samefile=False no C function is called only from
   its own file.
The check passes chains/samefile=False only while the corresponding witness still shows the defect.
"""
from .projgen import Project, SNIPPETS, C_PRELUDE, CPP_PRELUDE, _fmt

SHAPES_ANY = ['null', 'uninit', 'array', 'chain_null', 'chain_uninit', 'chain_array', 'null_local_proto',
              'null_cond', 'unused', 'used_other', 'used_fptr', 'used_samefile', 'used_macro',
              'ptrarith', 'null_struct', 'null_maybe', 'null_malloc', 'null_fopen']
SHAPES_CPP = ['odr', 'odr_same', 'member_null', 'used_template', 'member_unused', 'ns_unused']


class Builder:
    def __init__(self, rng, nfiles, lang, samefile=True):
        self.samefile = samefile or lang != 'c'
        self.rng = rng
        self.lang = lang
        self.n = nfiles
        self.body = [''] * nfiles       # code per file
        self.protos = ''                # shared header
        self.local = [''] * nfiles      # local declarations per file
        self.uid = 0
        self.shapes = []
        self.aimed = []

    def nid(self):
        self.uid += 1
        return self.uid

    def pick(self, k):
        """k distinct file indices if possible, else with repetition"""
        if self.n >= k:
            return self.rng.sample(range(self.n), k)
        return [self.rng.randrange(self.n) for _ in range(k)]

    def decl(self, files, text, shared=None):
        """make prototype `text` visible in `files`: shared header or local declarations"""
        if shared is None:
            shared = self.rng.random() < 0.6
        if shared:
            self.protos += text
        else:
            for f in set(files):
                self.local[f] += text

    # ------------------------------------------------------------ shapes
    def add(self, shape):
        n = self.nid()
        r = self.rng
        B = self.body
        self.shapes.append(shape)
        if shape in ('null', 'null_local_proto', 'null_cond'):
            a, b = self.pick(2)
            self.decl([a, b], 'void cn_%d(int *p);\n' % n, shared=False if shape == 'null_local_proto' else None)
            B[a] += 'void cn_%d(int *p) {\n    *p = %d;\n}\n\n' % (n, r.randint(1, 9))
            if shape == 'null_cond':
                B[b] += ('void cncall_%d(int c) {\n    int v = 0;\n    int *q = 0;\n    if (c == %d)\n        q = &v;\n'
                         '    cn_%d(q);\n}\n\n' % (n, r.randint(1, 9), n))
            else:
                B[b] += 'void cncall_%d(void) {\n    int *q = 0;\n    cn_%d(q);\n}\n\n' % (n, n)
            self.aimed.append('ctunullpointer')
        elif shape == 'null_maybe':
            # value 0 only possible (condition): the call summary carries warning="true"
            a, b = self.pick(2)
            self.decl([a, b], 'void cm_%d(int *p);\n' % n)
            B[a] += 'void cm_%d(int *p) {\n    *p = %d;\n}\n\n' % (n, r.randint(1, 9))
            B[b] += ('int cmcall_%d(int *q) {\n    int r = 0;\n    if (!q)\n        r = 1;\n    cm_%d(q);\n    return r;\n}\n\n'
                     % (n, n))
            self.aimed.append('ctunullpointer')
        elif shape == 'null_malloc':
            # unknown-function-return value: ctunullpointerOutOfMemory
            a, b = self.pick(2)
            self.decl([a, b], 'void co_%d(int *p);\n' % n)
            B[a] += 'void co_%d(int *p) {\n    *p = %d;\n}\n\n' % (n, r.randint(1, 9))
            B[b] += ('void cocall_%d(void) {\n    int *q = (int*)malloc(sizeof(int));\n    co_%d(q);\n    free(q);\n}\n\n'
                     % (n, n))
            self.aimed.append('ctunullpointerOutOfMemory')
        elif shape == 'null_fopen':
            # unknown-function-return value of a *resource* allocator: ctunullpointerOutOfResources
            a, b = self.pick(2)
            alloc = r.choice(['fopen("/dev/null", "r")', 'tmpfile()', 'fopen("x.txt", "w")'])
            self.decl([a, b], 'int cr_%d(FILE *fp);\n' % n)
            B[a] += 'int cr_%d(FILE *fp) {\n    return fgetc(fp) + %d;\n}\n\n' % (n, r.randint(1, 9))
            B[b] += ('int crcall_%d(void) {\n    FILE *f = %s;\n    int r = cr_%d(f);\n    fclose(f);\n    return r;\n}\n\n'
                     % (n, alloc, n))
            self.aimed.append('ctunullpointerOutOfResources')
        elif shape == 'null_struct':
            a, b = self.pick(2)
            self.protos += 'struct CS_%d { int a; int b; };\nint cs_%d(struct CS_%d *s);\n' % (n, n, n)
            B[a] += 'int cs_%d(struct CS_%d *s) {\n    return s->a + s->b;\n}\n\n' % (n, n)
            B[b] += 'int cscall_%d(void) {\n    struct CS_%d *s = 0;\n    return cs_%d(s);\n}\n\n' % (n, n, n)
            self.aimed.append('ctunullpointer')
        elif shape == 'uninit':
            a, b = self.pick(2)
            self.decl([a, b], 'int cu_%d(const int *p);\n' % n)
            B[a] += 'int cu_%d(const int *p) {\n    return *p + %d;\n}\n\n' % (n, r.randint(1, 9))
            B[b] += 'int cucall_%d(void) {\n    int x;\n    return cu_%d(&x);\n}\n\n' % (n, n)
            self.aimed.append('ctuuninitvar')
        elif shape == 'array':
            a, b = self.pick(2)
            self.decl([a, b], 'void ca_%d(int *p);\n' % n)
            k = r.choice([5, 6, 10, 20])
            B[a] += 'void ca_%d(int *p) {\n    p[%d] = 0;\n}\n\n' % (n, k)
            B[b] += 'void cacall_%d(void) {\n    int arr[%d];\n    ca_%d(arr);\n}\n\n' % (n, r.choice([2, 4, 5]), n)
            self.aimed.append('ctuArrayIndex')
        elif shape == 'ptrarith':
            a, b = self.pick(2)
            self.decl([a, b], 'int *cp_%d(int *p);\n' % n)
            B[a] += 'int *cp_%d(int *p) {\n    return p + %d;\n}\n\n' % (n, r.choice([12, 20, 100]))
            B[b] += 'int *cpcall_%d(void) {\n    static int arr[%d];\n    return cp_%d(arr);\n}\n\n' % (
                n, r.choice([2, 4, 5]), n)
            self.aimed.append('ctuPointerArith')
        elif shape in ('chain_null', 'chain_uninit', 'chain_array'):
            depth = r.randint(3, 4)
            if not self.samefile:
                depth = min(depth, self.n)      # every call crosses a file boundary
            fl = self.pick(depth)
            typ = 'const int *p' if shape == 'chain_uninit' else 'int *p'
            for lvl in range(depth - 1):
                self.decl(fl, 'int ch%d_%d(%s);\n' % (lvl, n, typ))
            sink = {'chain_null': 'return *p + 1;', 'chain_uninit': 'return *p + 2;',
                    'chain_array': 'return p[%d];' % r.choice([7, 9, 30])}[shape]
            B[fl[0]] += 'int ch0_%d(%s) {\n    %s\n}\n\n' % (n, typ, sink)
            for lvl in range(1, depth - 1):
                pre = '    int t = %d;\n    (void)t;\n' % lvl if r.random() < 0.3 else ''
                B[fl[lvl]] += 'int ch%d_%d(%s) {\n%s    return ch%d_%d(p);\n}\n\n' % (lvl, n, typ, pre, lvl - 1, n)
            top = depth - 2
            if shape == 'chain_null':
                B[fl[-1]] += 'int chcall_%d(void) {\n    int *q = 0;\n    return ch%d_%d(q);\n}\n\n' % (n, top, n)
                self.aimed.append('ctunullpointer')
            elif shape == 'chain_uninit':
                B[fl[-1]] += 'int chcall_%d(void) {\n    int x;\n    return ch%d_%d(&x);\n}\n\n' % (n, top, n)
                self.aimed.append('ctuuninitvar')
            else:
                B[fl[-1]] += 'int chcall_%d(void) {\n    int arr[3] = {0, 0, 0};\n    return ch%d_%d(arr);\n}\n\n' % (
                    n, top, n)
                self.aimed.append('ctuArrayIndex')
        elif shape == 'unused':
            a, = self.pick(1)
            B[a] += 'int uf_unused_%d(int x) {\n    return x + %d;\n}\n\n' % (n, r.randint(1, 9))
            self.aimed.append('unusedFunction')
        elif shape == 'used_other':
            a, b = self.pick(2)
            self.decl([a, b], 'int uf_other_%d(int x);\n' % n)
            B[a] += 'int uf_other_%d(int x) {\n    return x * %d;\n}\n\n' % (n, r.randint(2, 9))
            B[b] += 'int ufocall_%d(void) {\n    return uf_other_%d(3);\n}\n\n' % (n, n)
        elif shape == 'used_fptr':
            a, b = self.pick(2)
            self.decl([a, b], 'int uf_fptr_%d(int x);\n' % n)
            B[a] += 'int uf_fptr_%d(int x) {\n    return x - %d;\n}\n\n' % (n, r.randint(1, 9))
            B[b] += 'int (*g_fp_%d)(int) = uf_fptr_%d;\n\n' % (n, n)
        elif shape == 'used_macro':
            a, b = self.pick(2)
            self.decl([a, b], 'int uf_mac_%d(int x);\n' % n)
            self.protos += '#define UFMAC_%d(v) uf_mac_%d(v)\n' % (n, n)
            B[a] += 'int uf_mac_%d(int x) {\n    return x ^ %d;\n}\n\n' % (n, r.randint(1, 9))
            B[b] += 'int ufmcall_%d(void) {\n    return UFMAC_%d(4);\n}\n\n' % (n, n)
        elif shape == 'used_samefile':
            a, = self.pick(1)
            B[a] += ('int uf_same_%d(int x) {\n    return x + %d;\n}\nint ufscall_%d(void) {\n    return uf_same_%d(1);\n}\n\n'
                     % (n, r.randint(1, 9), n, n))
        elif shape in ('odr', 'odr_same'):
            a, b = self.pick(2)
            if shape == 'odr':
                B[a] += 'struct Odr_%d {\n    int a;\n    int ga%d() const { return a; }\n};\n\n' % (n, self.nid())
                B[b] += ('struct Odr_%d {\n    long a;\n    long b;\n    long gb%d() const { return a + b; }\n};\n\n'
                         % (n, self.nid()))
                self.aimed.append('ctuOneDefinitionRuleViolation')
            else:
                # identical definitions in two files: allowed, must not be reported in any mode
                for f in (a, b):
                    B[f] += 'struct Odr_%d {\n    int a;\n    int b;\n};\n\n' % n
        elif shape == 'member_null':
            a, b = self.pick(2)
            self.protos += 'struct MK_%d {\n    int v;\n    void set%d(int *p);\n};\n' % (n, n)
            B[a] += 'void MK_%d::set%d(int *p) {\n    *p = v;\n}\n\n' % (n, n)
            B[b] += 'void mkcall_%d(void) {\n    MK_%d k;\n    k.v = 1;\n    int *q = 0;\n    k.set%d(q);\n}\n\n' % (n, n, n)
            self.aimed.append('ctunullpointer')
        elif shape == 'member_unused':
            a, = self.pick(1)
            self.protos += 'class MU_%d {\npublic:\n    int used%d(int x);\n    int never%d(int x);\n};\n' % (n, n, n)
            B[a] += ('int MU_%d::used%d(int x) {\n    return x + 1;\n}\nint MU_%d::never%d(int x) {\n    return x + 2;\n}\n\n'
                     % (n, n, n, n))
            b, = self.pick(1)
            B[b] += 'int mucall_%d(void) {\n    MU_%d m;\n    return m.used%d(2);\n}\n\n' % (n, n, n)
            self.aimed.append('unusedFunction')
        elif shape == 'ns_unused':
            a, = self.pick(1)
            B[a] += 'namespace NS_%d {\nint nsf_%d(int x) {\n    return x + %d;\n}\n}\n\n' % (n, n, r.randint(1, 9))
            self.aimed.append('unusedFunction')
        elif shape == 'used_template':
            a, b = self.pick(2)
            self.decl([a, b], 'int uf_tpl_%d(int x);\n' % n)
            B[a] += 'int uf_tpl_%d(int x) {\n    return x + %d;\n}\n\n' % (n, r.randint(1, 9))
            inst = r.random() < 0.6
            B[b] += 'template <class T> int tcall_%d(T v) {\n    return uf_tpl_%d(v);\n}\n' % (n, n)
            if inst:
                B[b] += 'int tuse_%d(void) {\n    return tcall_%d<int>(1);\n}\n' % (n, n)
            B[b] += '\n'
        else:
            raise ValueError(shape)

    def noise(self, i):
        pool = [s for s in SNIPPETS if s[1] in ('any', self.lang)
                and s[0] not in ('noexplicit', 'inconclusive_member', 'ctoroninit')]
        sn = self.rng.choice(pool)
        self.body[i] += _fmt(sn[2], 'z%d_%d' % (i, self.nid()), self.rng) + '\n'

    def project(self):
        p = Project()
        p.lang = self.lang
        ext = '.c' if self.lang == 'c' else '.cpp'
        p.files['ctu.h'] = '#ifndef CTU_H\n#define CTU_H\n' + self.protos + '#endif\n'
        for i in range(self.n):
            t = C_PRELUDE if self.lang == 'c' else CPP_PRELUDE
            t += '#include "ctu.h"\n\n' + self.local[i] + '\n' + self.body[i]
            if i == 0:
                t += 'int main(void) {\n    return 0;\n}\n'
            name = 'u%d%s' % (i, ext)
            p.files[name] = t
            p.sources.append(name)
        p.aimed = list(self.aimed)
        p.shapes = list(self.shapes)
        return p


def gen(rng, nfiles=(2, 5), lang=None, nshapes=(2, 6), noise=(0, 2), chains=True, samefile=True):
    lang = lang or rng.choice(['c', 'cpp'])
    nf = nfiles if isinstance(nfiles, int) else rng.randint(*nfiles)
    b = Builder(rng, nf, lang, samefile)
    shapes = SHAPES_ANY + (SHAPES_CPP if lang == 'cpp' else [])
    if not chains:
        shapes = [s for s in shapes if not s.startswith('chain_')]
    if not b.samefile:
        shapes = [s for s in shapes if s != 'used_samefile']
    for _ in range(rng.randint(*nshapes)):
        b.add(rng.choice(shapes))
    for i in range(nf):
        for _ in range(rng.randint(*noise)):
            b.noise(i)
    return b.project()
