"""resgen — straight-line resource programs (no conditional control flow) that are correct by
construction: every resource is acquired once, used only while live, and released exactly once.
Returns (source text, list of shape names used)."""


EXCLUSIONS = {
    'newarr-written-before-delete': 'an array obtained with new[] is always written once before delete[] '
                                    '[finding delete-array-uninitdata: releasing an unwritten new[] array is reported as uninitdata]',
}


def gen(rng, lang='c'):
    shapes = []
    cpp = lang == 'cpp'
    L = []
    if cpp:
        L += ['#include <cstdio>', '#include <cstdlib>', '#include <cstring>']
    else:
        L += ['#include <stdio.h>', '#include <stdlib.h>', '#include <string.h>']
    L += ['struct Box { char *data; int n; };', '']
    L += ['static void rel(char *p) {', '    free(p);', '}', '']
    L += ['static char *mk(int n) {', '    char *r = (char*)malloc((size_t)n);', '    r[0] = 0;', '    return r;', '}', '']
    L += ['static void fill(char *p, int n) {', '    memset(p, 0, (size_t)n);', '}', '']
    nfun = rng.randint(1, 3)
    calls = []
    for fi in range(nfun):
        name = 'work%d' % fi
        calls.append(name)
        L.append('static int %s(int seed) {' % name)
        body = []
        live = []   # (var, kind) kind: malloc|new|newarr|file|box
        n = [0]

        def nv(p='p'):
            n[0] += 1
            return '%s%d_%d' % (p, fi, n[0])
        nres = rng.randint(1, 4)
        for _ in range(nres):
            k = rng.choice(['malloc', 'calloc', 'strdup', 'mk', 'file', 'box'] + (['new', 'newarr'] if cpp else []))
            shapes.append('acquire:' + k)
            v = nv()
            sz = rng.choice([8, 16, 32, 64])
            if k == 'malloc':
                body.append('char *%s = (char*)malloc(%d);' % (v, sz))
                live.append((v, 'malloc', sz))
            elif k == 'calloc':
                body.append('char *%s = (char*)calloc(%d, 1);' % (v, sz))
                live.append((v, 'malloc', sz))
            elif k == 'strdup':
                body.append('char *%s = strdup("hello world");' % v)
                live.append((v, 'malloc', 12))
            elif k == 'mk':
                body.append('char *%s = mk(%d);' % (v, sz))
                live.append((v, 'malloc', sz))
            elif k == 'file':
                body.append('FILE *%s = fopen("/dev/null", "r");' % v)
                live.append((v, 'file', 0))
            elif k == 'box':
                body.append('struct Box %s;' % v)
                body.append('%s.data = (char*)malloc(%d);' % (v, sz))
                body.append('%s.n = %d;' % (v, sz))
                live.append((v, 'box', sz))
            elif k == 'new':
                body.append('int *%s = new int(%d);' % (v, rng.randint(0, 9)))
                live.append((v, 'new', 4))
            elif k == 'newarr':
                body.append('int *%s = new int[%d];' % (v, sz // 4))
                body.append('%s[0] = seed;' % v)   # exclusion newarr-written-before-delete
                live.append((v, 'newarr', sz))
            # uses
            for _u in range(rng.randint(0, 2)):
                lv, lk, lsz = rng.choice(live)
                if lk == 'malloc':
                    u = rng.choice(['%s[0] = (char)seed;', 'fill(%s, 4);', 'memset(%s, 1, 2);', 'seed += %s[0];'])
                    if 'seed +=' in u:
                        body.append('%s[0] = 1;' % lv)
                    body.append(u % lv)
                    shapes.append('use')
                elif lk == 'file':
                    body.append('seed += (fgetc(%s) == EOF);' % lv)
                    shapes.append('use-file')
                elif lk == 'box':
                    body.append('%s.data[0] = (char)%s.n;' % (lv, lv))
                    shapes.append('use-member')
                elif lk == 'new':
                    body.append('seed += *%s;' % lv)
                elif lk == 'newarr':
                    body.append('%s[0] = seed;' % lv)
        # release everything exactly once, in random order, through different routes
        rng.shuffle(live)
        for lv, lk, lsz in live:
            if lk == 'malloc':
                route = rng.choice(['free', 'alias', 'helper', 'voidcast', 'intcast'])
                shapes.append('release:' + route)
                if route == 'free':
                    body.append('free(%s);' % lv)
                elif route == 'alias':
                    a = nv('q')
                    body.append('char *%s = %s;' % (a, lv))
                    body.append('free(%s);' % a)
                elif route == 'helper':
                    body.append('rel(%s);' % lv)
                elif route == 'voidcast':
                    a = nv('v')
                    body.append('void *%s = (void*)%s;' % (a, lv))
                    body.append('free(%s);' % a)
                else:
                    a = nv('u')
                    body.append('unsigned long %s = (unsigned long)%s;' % (a, lv))
                    body.append('free((void*)%s);' % a)
            elif lk == 'file':
                shapes.append('release:fclose')
                body.append('fclose(%s);' % lv)
            elif lk == 'box':
                route = rng.choice(['member', 'alias', 'helper'])
                shapes.append('release:box-' + route)
                if route == 'member':
                    body.append('free(%s.data);' % lv)
                elif route == 'alias':
                    a = nv('q')
                    body.append('char *%s = %s.data;' % (a, lv))
                    body.append('free(%s);' % a)
                else:
                    body.append('rel(%s.data);' % lv)
            elif lk == 'new':
                shapes.append('release:delete')
                body.append('delete %s;' % lv)
            elif lk == 'newarr':
                shapes.append('release:delete[]')
                body.append('delete[] %s;' % lv)
        body.append('return seed;')
        L += ['    ' + b for b in body]
        L += ['}', '']
    L.append('int main(int argc, char **argv) {')
    L.append('    int s = argc;')
    for c in calls:
        L.append('    s += %s(s);' % c)
    L.append('    return (s & 0) + (argv == 0);')
    L.append('}')
    return '\n'.join(L) + '\n', shapes
