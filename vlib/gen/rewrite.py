"""Meaning-preserving rewrites with exact position maps (C05).

Each rewrite returns (new_text, pos, names) where pos(line, col) -> (line', col') maps token start
positions of the original to the rewritten text and names is a dict old identifier -> new one.
"""
import re

IDENT = re.compile(r'[A-Za-z_][A-Za-z_0-9]*')


def identity(line, col):
    return line, col


def reindent(rng, text):
    """(a) change indentation width, add trailing blanks; tokens keep their order on each line"""
    lines = text.split('\n')
    out = []
    delta = {}
    unit = rng.choice(['  ', '   ', '        ', '\t', ' '])
    for i, l in enumerate(lines, 1):
        stripped = l.lstrip(' ')
        lead = len(l) - len(stripped)
        if stripped.startswith('#') or not stripped:
            out.append(l)
            delta[i] = 0
            continue
        new_lead = unit * (lead // 4) + ' ' * (lead % 4)
        # cppcheck counts a tab as one column
        out.append(new_lead + stripped + rng.choice(['', '', ' ', '  ', '\t']))
        delta[i] = len(new_lead) - lead
    return '\n'.join(out), (lambda line, col: (line, col + delta.get(line, 0) if col > 0 else col)), {}


def insert_lines(rng, text, is_boundary):
    """(b) blank and comment lines between statements; is_boundary(line_text, next_line_text) says
    whether a line may be inserted after that line"""
    lines = text.split('\n')
    out = []
    newline_of = {}
    for i, l in enumerate(lines, 1):
        out.append(l)
        newline_of[i] = len(out)
        nxt = lines[i] if i < len(lines) else ''
        if is_boundary(l, nxt) and rng.random() < 0.35:
            for _ in range(rng.randint(1, 3)):
                ind = ' ' * (len(nxt) - len(nxt.lstrip(' ')))
                out.append(rng.choice(['', '', ind + '// note', ind + '/* block comment */', ind + '/* multi', ind + '// x = y;']))
                if out[-1].endswith('/* multi'):
                    out.append(ind + '   line */')
    return '\n'.join(out), (lambda line, col: (newline_of.get(line, line), col)), {}


def statement_boundary(line, nxt):
    s = line.strip()
    n = nxt.strip()
    if not s or s.startswith('#') or n.startswith('#'):
        return False
    if s.endswith('\\'):
        return False
    # after a complete statement or a block opener/closer; never inside an initializer list or
    # between a suppression comment and its target (inputs do not contain suppressions)
    if s.endswith(';') or s.endswith('{') or s == '}':
        if n.startswith('else') or n.startswith('while (') and s == '}':
            return False
        return True
    return False


C_KEYWORDS = set('''auto break case char const continue default do double else enum extern float for goto if inline int
long register restrict return short signed sizeof static struct switch typedef union unsigned void volatile while
bool class namespace template typename public private protected new delete this true false nullptr using virtual
operator friend explicit const_cast static_cast reinterpret_cast dynamic_cast try catch throw std size_t NULL
main argc argv'''.split())


def rename(rng, text, candidates):
    """(c) consistent renaming of the given identifiers to fresh ones; returns the column map"""
    names = {}
    for k, old in enumerate(sorted(candidates)):
        names[old] = rng.choice(['zq', 'renamed_identifier_', 'w', 'k_']) + '%d' % k + rng.choice(['', '_x', 'LongSuffixForColumns'])
    lines = text.split('\n')
    out = []
    colmaps = {}
    for i, l in enumerate(lines, 1):
        cm = {}
        res = ''
        pos = 0
        if l.lstrip().startswith('#'):
            out.append(l)
            continue
        instr = None
        j = 0
        n = len(l)
        while j < n:
            c = l[j]
            if instr:
                cm[j + 1] = len(res) + 1
                res += c
                if c == '\\' and j + 1 < n:
                    res += l[j + 1]
                    j += 2
                    continue
                if c == instr:
                    instr = None
                j += 1
                continue
            if c in '"\'':
                instr = c
                cm[j + 1] = len(res) + 1
                res += c
                j += 1
                continue
            if l.startswith('//', j):
                cm[j + 1] = len(res) + 1
                res += l[j:]
                break
            m = IDENT.match(l, j)
            if m and (j == 0 or not (l[j - 1].isalnum() or l[j - 1] == '_')):
                w = m.group(0)
                cm[j + 1] = len(res) + 1
                res += names.get(w, w)
                j = m.end()
                continue
            cm[j + 1] = len(res) + 1
            res += c
            j += 1
        out.append(res)
        colmaps[i] = cm
    return '\n'.join(out), (lambda line, col: (line, colmaps.get(line, {}).get(col, col))), names


def reorder(rng, prelude, blocks, tail):
    """(d) permutation of top-level definitions (each a list of lines) that are all declared in
    `prelude`; returns text and the line map"""
    order = list(range(len(blocks)))
    rng.shuffle(order)

    def layout(ordr):
        start = {}
        n = len(prelude)
        for b in ordr:
            start[b] = n
            n += len(blocks[b])
        return start
    old = layout(range(len(blocks)))
    new = layout(order)
    lines = list(prelude)
    for b in order:
        lines += blocks[b]
    lines += tail
    shift = {}
    for b in range(len(blocks)):
        for k in range(len(blocks[b])):
            shift[old[b] + k + 1] = new[b] + k + 1
    return '\n'.join(lines), (lambda line, col: (shift.get(line, line), col)), {}, order
