"""Suppression workloads for C23/C24/C25: inline comments in every documented form injected into
projgen projects, command-line / list-file / XML / exit-code suppression sets, and the model-side
description (models.suppress.Suppr) of each of them.

Flow of one case (build_case):
  base project -> preliminary findings A0 (only to aim comments) -> comments + special snippets
  inserted -> final text written -> F0 = findings of the final text without any suppression option
  -> option set aimed at F0 -> the model reads the *final text* and the option texts itself.
"""
import os
import re
from xml.sax.saxutils import escape

from .. import cases
from ..models import suppress as sm
from . import projgen

UNLIKELY_IDS = ['nullPointer', 'zerodiv', 'memleak', 'uninitvar', 'arrayIndexOutOfBounds', 'unreadVariable',
                'noSuchId', 'resourceLeak', 'some_warning_id', 'misra-c2012-10.1', 'a.b']

# Finding-keyed generator exclusion (known/C23.txt key rule:id-glob-question-mark-rejected):
# the manual allows '?' in error-id patterns, cppcheck rejects such a suppression ("Invalid id").
# The witness is replayed on every run; '?' is therefore not generated in id patterns.
ID_GLOB_QMARK = False


def _indent(line):
    return line[:len(line) - len(line.lstrip())]


def id_pattern(rng, fid):
    r = rng.random()
    if r < 0.55 or len(fid) < 4:
        return fid
    if r < 0.7:
        return fid[:rng.randint(2, len(fid) - 1)] + '*'
    if r < 0.8:
        return '*' + fid[rng.randint(1, len(fid) - 2):]
    if r < 0.88:
        i = rng.randint(1, len(fid) - 2)
        return fid[:i] + '*' + fid[rng.randint(i, len(fid) - 1):]
    if r < 0.92:
        return '*'
    if r < 0.96:
        return fid[:-1]            # near miss: a prefix is not a match
    return fid + 'X'


def file_pattern(rng, file):
    """pattern aimed at the (relative or absolute) file name `file` of a finding"""
    comps = file.split('/')
    base = comps[-1]
    stem, dot, ext = base.rpartition('.')
    r = rng.random()
    if r < 0.35:
        return file
    if r < 0.45:
        return base
    if r < 0.55:
        return '*.' + ext if dot else base
    if r < 0.62 and len(comps) > 1:
        return '/'.join(comps[:-1])                    # a directory
    if r < 0.68 and len(comps) > 1:
        return '/'.join(comps[:-1]) + '/*'
    if r < 0.74:
        return '**/' + base if len(comps) > 1 and not file.startswith('/') else '*' + base[1:]
    if r < 0.8:
        return (stem[:1] + '*' + dot + ext) if dot else base
    if r < 0.86 and len(base) > 2:
        i = rng.randrange(len(base))
        return '/'.join(comps[:-1] + [base[:i] + '?' + base[i + 1:]])
    if r < 0.9 and len(comps) > 1:
        return '/'.join(comps[1:]) if not file.startswith('/') else file
    if r < 0.94:
        return base[1:] if len(base) > 3 else base       # near miss: must start after a separator
    if r < 0.97:
        return file + 'x'
    return 'nosuchdir/' + base


SPECIAL_SNIPPETS = {
    # '{' on its own line followed by the comment: this line and the next one
    'brace': 'int bs_{n}(void)\n{{ // cppcheck-suppress {id}\n    return {k} / 0;\n}}\n',
    # same, but the finding is two lines below: not covered
    'brace_far': 'int bf_{n}(int v)\n{{ // cppcheck-suppress {id}\n    int w = v + {k};\n    return w / 0;\n}}\n',
    # macro form
    'macro': '// cppcheck-suppress-macro {id}\n#define DZ_{n}(x) ((x) / 0)\nint mz_{n}(int v)\n{{\n    return DZ_{n}(v);\n}}\n',
    # macro form, macro not used where the finding is
    'macro_other': '// cppcheck-suppress-macro {id}\n#define DN_{n}(x) ((x) + 1)\nint mo_{n}(int v)\n{{\n    return DN_{n}(v) / 0;\n}}\nint mp_{n}(int v)\n{{\n    return v / 0;\n}}\n',
}


def decorate(rng, proj, a0, frac=0.45, unmatched=(0, 3), specials=True):
    """-> new Project whose files carry inline suppression comments in the documented forms.
    a0: findings of `proj` (relative paths)."""
    edits = {}     # file -> list of (line, kind, payload); applied bottom-up
    for f in a0:
        if not f.locs:
            continue
        file, line = f.locs[0][0], f.locs[0][1]
        if file not in proj.files or line <= 0 or rng.random() >= frac:
            continue
        fid = f.id
        r = rng.random()
        if r < 0.22:
            edits.setdefault(file, []).append((line, 'before', '// cppcheck-suppress %s' % fid))
        elif r < 0.3:
            edits.setdefault(file, []).append((line, 'before', '/* cppcheck-suppress %s */' % fid))
        elif r < 0.38:
            gap = rng.choice(['', '// keep this', '/* note */', '\n// two lines'])
            edits.setdefault(file, []).append((line, 'before', '// cppcheck-suppress %s\n%s' % (fid, gap)))
        elif r < 0.5:
            edits.setdefault(file, []).append((line, 'same', '// cppcheck-suppress %s' % fid))
        elif r < 0.6:
            other = rng.choice(UNLIKELY_IDS)
            form = rng.choice(['// cppcheck-suppress [%s, %s]', '// cppcheck-suppress[%s,%s]',
                               '// cppcheck-suppress [%s,%s] justification text'])
            ids = (fid, other) if rng.random() < 0.5 else (other, fid)
            kind = 'same' if rng.random() < 0.3 else 'before'
            edits.setdefault(file, []).append((line, kind, form % ids))
        elif r < 0.7:
            if f.symbols and re.fullmatch(r'\w+', f.symbols[0]) and rng.random() < 0.6:
                sym = f.symbols[0]
            else:
                sym = rng.choice(['nosuchsym', (f.symbols[0][:-1] if f.symbols and len(f.symbols[0]) > 1 else 'q')])
            form = rng.choice(['// cppcheck-suppress %s symbolName=%s', '// cppcheck-suppress [%s symbolName=%s]'])
            edits.setdefault(file, []).append((line, 'before', form % (fid, sym)))
        elif r < 0.78:
            form = rng.choice(['// cppcheck-suppress %s ; some comment', '// cppcheck-suppress %s // some comment'])
            edits.setdefault(file, []).append((line, rng.choice(['before', 'same']), form % fid))
        elif r < 0.9:
            up, down = rng.randint(0, 3), rng.randint(0, 3)
            ids = fid if rng.random() < 0.7 else '[%s, %s]' % (fid, rng.choice(UNLIKELY_IDS))
            edits.setdefault(file, []).append((line, 'block', (up, down, ids)))
        elif r < 0.95:
            edits.setdefault(file, []).append((line, 'wrongline', '// cppcheck-suppress %s' % fid))
        else:
            edits.setdefault(file, []).append((1, 'file', '// cppcheck-suppress-file %s' % fid))
    names = sorted(proj.files)
    for _ in range(rng.randint(*unmatched)):
        file = rng.choice(names)
        nl = proj.files[file].count('\n')
        if nl < 4:
            continue
        r = rng.random()
        if r < 0.8:
            edits.setdefault(file, []).append((rng.randint(2, nl), 'before',
                                               '// cppcheck-suppress %s' % rng.choice(UNLIKELY_IDS)))
        elif r < 0.9:
            edits.setdefault(file, []).append((1, 'file', '// cppcheck-suppress-file %s' % rng.choice(UNLIKELY_IDS)))
        else:
            edits.setdefault(file, []).append((rng.randint(2, nl), 'block',
                                               (0, rng.randint(0, 2), rng.choice(UNLIKELY_IDS))))
    q = projgen.Project()
    q.sources = list(proj.sources)
    q.aimed = list(proj.aimed)
    q.lang = proj.lang
    for file, text in proj.files.items():
        lines = text.split('\n')
        nlines = len(lines)

        def is_code(ix):      # 0-based index
            return 0 <= ix < nlines and lines_orig[ix].strip() != ''
        lines_orig = list(lines)
        # collect insertions as (index to insert before, text) and same-line appends
        inserts = []
        appends = {}
        used_lines = set()
        file_level = []
        for line, kind, payload in edits.get(file, []):
            ix = line - 1
            if kind == 'file':
                file_level.append(payload)
                continue
            if not is_code(ix):
                # comments go in front of a line that holds code; move down to the next one
                while ix < nlines and not is_code(ix):
                    ix += 1
                if ix >= nlines:
                    continue
            if kind == 'same':
                if ix in appends or '//' in lines_orig[ix] or '/*' in lines_orig[ix] or lines_orig[ix].lstrip().startswith('#'):
                    continue
                appends[ix] = payload
            elif kind == 'before':
                if ix in used_lines:
                    continue
                used_lines.add(ix)
                ind = _indent(lines_orig[ix])
                inserts.append((ix, '\n'.join(ind + p if p else p for p in payload.split('\n'))))
            elif kind == 'wrongline':
                j = ix - 1
                while j > 0 and not is_code(j):
                    j -= 1
                j -= 1
                while j > 0 and not is_code(j):
                    j -= 1
                if j <= 0 or j in used_lines:
                    continue
                used_lines.add(j)
                inserts.append((j, _indent(lines_orig[j]) + payload))
            elif kind == 'block':
                up, down, ids = payload
                b = max(0, ix - up)
                e = min(nlines - 1, ix + down)
                # keep clear of preprocessor directives: comments may sit anywhere else
                inserts.append((b, '// cppcheck-suppress-begin %s' % ids))
                inserts.append((e + 1, '// cppcheck-suppress-end %s' % ids))
        for ix, payload in appends.items():
            lines[ix] = lines[ix] + '  ' + payload
        # stable bottom-up insertion; for equal index an 'end' comment must come before a 'begin'
        # of a following block and before a 'before' comment of the next line
        order = sorted(range(len(inserts)), key=lambda k: (inserts[k][0], 0 if '-end' in inserts[k][1] else 1, k))
        for k in reversed(order):
            ix, txt = inserts[k]
            lines.insert(ix, txt)
        if file_level:
            seen = set()
            top = []
            for p in file_level:
                if p not in seen:
                    seen.add(p)
                    top.append(p)
            lines = top + lines
        q.files[file] = '\n'.join(lines)
    if specials and q.sources:
        uid = 9000
        for _ in range(rng.randint(0, 3)):
            uid += 1
            kind = rng.choice(sorted(SPECIAL_SNIPPETS))
            sid = 'zerodiv' if rng.random() < 0.75 else rng.choice(['zerodi*', 'nullPointer', 'zerodivX'])
            src = rng.choice(q.sources)
            q.files[src] = q.files[src].rstrip('\n') + '\n\n' + SPECIAL_SNIPPETS[kind].format(
                n=uid, id=sid, k=rng.randint(1, 99))
    return q


class OptionSet:
    def __init__(self):
        self.args = []        # cppcheck arguments
        self.supprs = []      # model-side Suppr objects of the non-inline suppressions
        self.files = {}       # name -> text written next to the project (for replay)
        self.forms = []       # evidence: which forms were used


def _xml_text(entries):
    out = ['<?xml version="1.0"?>', '<suppressions>']
    for e in entries:
        out.append('  <suppress>')
        out.append('    <id>%s</id>' % escape(e['id']))
        if e.get('file'):
            out.append('    <fileName>%s</fileName>' % escape(e['file']))
        if e.get('line') is not None:
            out.append('    <lineNumber>%d</lineNumber>' % e['line'])
        if e.get('symbol'):
            out.append('    <symbolName>%s</symbolName>' % escape(e['symbol']))
        out.append('  </suppress>')
    out.append('</suppressions>')
    return '\n'.join(out) + '\n'


def option_set(rng, f0, files, outdir, n=(0, 5), exitcode=(0, 0), absolute_prefix=''):
    """Suppression options aimed at the findings f0. Files (list / XML / exit-code list) are
    written into outdir. exitcode=(lo,hi): number of exit-code-only suppressions."""
    o = OptionSet()
    seen = set()
    list_lines = []
    xml_entries = []
    ex_lines = []
    ex_args = []
    targets = [f for f in f0 if f.locs and f.id not in ('unmatchedSuppression',)]

    def one():
        """-> dict(id, file, line, symbol) or None"""
        r = rng.random()
        if targets and r < 0.7:
            f = rng.choice(targets)
            file, line = f.locs[0][0], f.locs[0][1]
            e = {'id': id_pattern(rng, f.id), 'file': '', 'line': None, 'symbol': ''}
            form = rng.random()
            if form < 0.25:
                pass
            elif form < 0.6:
                e['file'] = file_pattern(rng, file)
            else:
                e['file'] = file_pattern(rng, file) if rng.random() < 0.3 else file
                e['line'] = line + rng.choice([0, 0, 0, 0, 1, -1])
                if e['line'] <= 0:
                    e['line'] = line
            return e, f
        i = rng.choice(UNLIKELY_IDS)
        if files and rng.random() < 0.5:
            e = {'id': i, 'file': rng.choice(files), 'line': None, 'symbol': ''}
            if rng.random() < 0.3:
                e['line'] = rng.randint(1, 30)
            return e, None
        return {'id': '%s_%d' % (i.replace('.', '_').replace('-', '_'), rng.randint(0, 99)), 'file': '', 'line': None,
                'symbol': ''}, None

    def usable(e):
        if '?' in e['id'] and not ID_GLOB_QMARK:
            return False
        f = e['file']
        if f and ('#' in f or '//' in f or ':' in f or f.endswith(' ')):
            return False
        if f and not re.search(r'\.[^/]*$', f) and e['line'] is not None:
            return False      # 'id:dir:12' - the manual's format needs a file name here
        k = (e['id'], e['file'], e['line'], e['symbol'])
        if k in seen:
            return False
        seen.add(k)
        return True

    def spec(e):
        s = e['id']
        if e['file']:
            s += ':' + e['file']
            if e['line'] is not None:
                s += ':%d' % e['line']
        return s

    for _ in range(rng.randint(*n)):
        e, f = one()
        if e['file'] and absolute_prefix and not e['file'].startswith('/') and rng.random() < 0.15:
            pass
        ch = rng.random()
        if ch < 0.45:
            if not usable(e):
                continue
            o.args.append('--suppress=' + spec(e))
            o.supprs.append(sm.parse_spec(spec(e), 'cmd'))
            o.forms.append('cmd')
        elif ch < 0.7:
            if not usable(e):
                continue
            deco = rng.choice(['', '', ' # why', ' // why'])
            list_lines.append(spec(e) + deco)
            o.forms.append('list')
        else:
            if f is not None and rng.random() < 0.5:
                if f.symbols and rng.random() < 0.6:
                    e['symbol'] = f.symbols[0]
                else:
                    e['symbol'] = rng.choice(['nosuchsym', (f.symbols[0][:-1] if f.symbols and len(f.symbols[0]) > 1 else 'q')])
            if not usable(e) or not re.fullmatch(r'[\w.*-]+', e['id']):
                continue
            xml_entries.append(e)
            o.supprs.append(sm.Suppr('xml', 'plain', e['id'], file=e['file'], line=e['line'], symbol=e['symbol']))
            o.forms.append('xml')
    if list_lines:
        body = ['# suppressions', ''] + list_lines[:1] + ['// a comment line', '   '] + list_lines[1:]
        nl = rng.choice(['\n', '\n', '\r\n'])
        text = nl.join(body) + nl
        o.files['suppr.txt'] = text
        o.args.append('--suppressions-list=' + os.path.join(outdir, 'suppr.txt'))
        o.supprs += sm.parse_list_text(text, 'list')
    if xml_entries:
        o.files['suppr.xml'] = _xml_text(xml_entries)
        o.args.append('--suppress-xml=' + os.path.join(outdir, 'suppr.xml'))
    for _ in range(rng.randint(*exitcode)):
        e, f = one()
        e['symbol'] = ''
        if not usable(e):
            continue
        if rng.random() < 0.5:
            ex_lines.append(spec(e))
        else:
            ex_args.append('--exitcode-suppress=' + spec(e))
            o.supprs.append(sm.parse_spec(spec(e), 'cmd', exitcode_only=True))
        o.forms.append('exitcode')
    if ex_lines:
        text = '\n'.join(['# exit code suppressions'] + ex_lines) + '\n'
        o.files['exitcode.txt'] = text
        o.args.append('--exitcode-suppressions=' + os.path.join(outdir, 'exitcode.txt'))
        o.supprs += sm.parse_list_text(text, 'list', exitcode_only=True)
    o.args += ex_args
    for name, text in o.files.items():
        cases.write(os.path.join(outdir, name), text.encode() if '\r' in text else text)
    return o


def inline_model(proj):
    """model-side reading of every project file's text"""
    out = []
    for name, text in proj.files.items():
        out += sm.inline_suppressions(text, name)
    return out


class Case:
    pass


def build_case(ctx, rng, d, enable=None, exitcode=(0, 2), jobs=None):
    """Generate, write and run one suppression case under directory d. -> Case or None (skipped)."""
    import shutil
    c = Case()
    subdirs = rng.random() < 0.4
    proj = projgen.gen(rng, nfiles=(1, 5), headers=True, ctu=rng.random() < 0.4, subdirs=subdirs, nsnip=(2, 6))
    p0 = os.path.join(d, 'p0')
    proj.write(p0)
    enable = enable or rng.choice(['all', 'style,information', 'warning,style,performance,portability,information',
                                   'warning', 'information', None])
    base = ['-q', '-j1']
    if enable:
        base.append('--enable=' + enable)
    if rng.random() < 0.4:
        base.append('--inconclusive')
    c.base = base
    a0 = cases.analyse(p0, base + proj.sources)
    shutil.rmtree(p0, ignore_errors=True)
    if not a0.xml_ok or cases.crashed(a0.res) or a0.res.timed_out:
        ctx.count('skipped', 'preliminary-run-unusable')
        return None
    proj2 = decorate(rng, proj, a0.findings)
    src = os.path.join(d, 'src')
    proj2.write(src)
    c.proj = proj2
    c.src = src
    c.absolute = rng.random() < 0.25
    c.sources = [os.path.join(src, s) for s in proj2.sources] if c.absolute else list(proj2.sources)
    c.f0 = cases.analyse(src, base + c.sources)
    if not c.f0.xml_ok or cases.crashed(c.f0.res) or c.f0.res.timed_out:
        ctx.count('skipped', 'ground-truth-run-unusable')
        return None
    seen_files = sorted(set(f.locs[0][0] for f in c.f0.findings if f.locs))
    c.opts = option_set(rng, c.f0.findings, seen_files or c.sources, os.path.join(d, 'opt'), exitcode=exitcode)
    c.args = base + ['--inline-suppr'] + c.opts.args
    inl = inline_model(proj2)
    if c.absolute:
        for s in inl:
            s.file = os.path.join(src, s.file)
    c.inline = inl
    c.supprs = c.opts.supprs + inl
    c.digest = proj2.digest()
    c.sig = c.digest + ':' + __import__('vlib.core', fromlist=['sha1']).sha1(repr(c.args).replace(d, ''))
    return c
