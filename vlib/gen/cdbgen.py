"""cdbgen — compilation databases for C32.

gen(rng, root, nentries) -> Cdb: source files, uniquely marked headers in candidate directories and
a compile_commands.json whose entries use the `arguments` or the (shell-quoted) `command` form with
-I/-D/-U/-std=/-isystem/-include joined and separated, quoting and escapes, repeated files,
relative/absolute directory/file spellings, noise options and paths resembling options.

Every generated source prints every macro of NAMES (`int v_M = M ;` under `#ifdef M`), the language
standard macros and includes marked headers; so the preprocessed token sequence exposes the defines,
undefines, include resolution and standard the options select.

Finding-keyed exclusions (known/C32.txt; witnesses replayed on every run) narrow the workload only.
"""
import json
import os

# name: (generate?, known key)
EXCL = {
    'duplicate-D': (False, 'cdb:duplicate-D-first-wins'),
    'U-before-D': (False, 'cdb:U-before-D-still-undefines'),
    'slash-D-path-argument': (False, 'cdb:posix-path-argument-taken-as-msvc-option'),
    'cmd-backslash-other': (False, 'cdb:command-backslash-escape-kept'),
    'isystem-lookup': (False, 'cdb:isystem-not-searched'),
    'cmd-tab-separator': (False, 'cdb:command-tab-separator'),
    'double-dash-std': (False, 'cdb:double-dash-std'),
    'semicolon-in-define': (False, 'cdb:semicolon-in-define-value'),
}


def allowed(name):
    return EXCL.get(name, (True, ''))[0]


NAMES = ['A', 'B', 'C', 'DBG', 'N', 'S', 'E', 'F']
C_STDS = ['c89', 'c90', 'gnu89', 'c99', 'gnu99', 'c9x', 'iso9899:1999', 'c11', 'gnu11', 'c1x', 'iso9899:2011',
          'c17', 'c18', 'gnu17', 'gnu18', 'iso9899:2017']
CPP_STDS = ['c++98', 'c++03', 'gnu++98', 'gnu++03', 'c++11', 'gnu++11', 'c++0x', 'c++14', 'gnu++14', 'c++1y',
            'c++17', 'gnu++17', 'c++1z', 'c++20', 'gnu++20', 'c++2a']
QHDRS = ['qh0.h', 'qh1.h']
AHDRS = ['ah0.h', 'ah1.h', 'ah2.h']
# candidate header directories relative to the case root ('' marks "next to the source")
INC_DIRS = ['inc/a', 'inc/b', 'inc/with space', 'inc/-Dlooks', 'inc/a/nested']
SYS_DIRS = ['sys/s1', 'sys/s2']
FALLBACK = 'inc/zz_fallback'
NOISE = [['-O2'], ['-g'], ['-Wall'], ['-Wextra'], ['-c'], ['-pipe'], ['-fPIC'], ['-pthread'], ['-O0', '-g'],
         ['-Wno-unused'], ['-fno-common'], ['-m64'], ['-mtune=generic'], ['-W'], ['-Werror=return-type'],
         ['-fdiagnostics-color=always'], ['-DNDEBUG_NOISE'], ['-D_FORTIFY_SOURCE=2'], ['-funsigned-char'],
         ['-iquote', 'EMPTYDIR'], ['-idirafter', 'EMPTYDIR'], ['-L../lib'], ['-Winvalid-pch']]


class Entry:
    def __init__(self):
        self.directory = ''      # as written in the database
        self.file = ''           # as written
        self.src = ''            # path of the source relative to the case root
        self.cpp = False
        self.argv = []           # real argument vector (argv[0] = compiler)
        self.form = 'arguments'
        self.command = None
        self.out = None          # -o argument (as written) or None
        self.defines = []        # names the entry defines (any spelling), in order
        self.undefs = []
        self.ipaths = []         # -I arguments as written
        self.std = None
        self.features = set()

    def json(self):
        d = {'directory': self.directory, 'file': self.file}
        if self.form == 'arguments':
            d['arguments'] = self.argv
        else:
            d['command'] = self.command
        return d


class Cdb:
    def __init__(self, root):
        self.root = root
        self.entries = []
        self.files = {}          # rel -> text

    def write(self):
        for rel, text in self.files.items():
            p = os.path.join(self.root, rel)
            os.makedirs(os.path.dirname(p), exist_ok=True)
            with open(p, 'w') as f:
                f.write(text)
        for d in ['build', 'build/sub', 'EMPTYDIR', 'lib']:
            os.makedirs(os.path.join(self.root, d), exist_ok=True)
        with open(os.path.join(self.root, 'compile_commands.json'), 'w') as f:
            json.dump([e.json() for e in self.entries], f, indent=1)


def source_text(rng, idx, cpp, qh, ah):
    lines = ['int vfile_begin ;']
    incs = ['#include "%s"' % h for h in qh] + ['#include <%s>' % h for h in ah]
    rng.shuffle(incs)
    lines += incs
    lines += ['#ifdef HAVE_SYS', '#include <sy0.h>', '#endif']
    for n in NAMES:
        lines += ['#ifdef ' + n, 'int v_%s = %s ;' % (n, n if n != 'F' else 'F(3)'), '#endif']
    lines += ['#ifdef __STDC_VERSION__', 'long v_STDC_VERSION = __STDC_VERSION__ ;', '#endif',
              '#ifdef __cplusplus', 'long v_cplusplus = __cplusplus ;', '#endif',
              'int src_%d ;' % idx, 'int vfile_end ;']
    return '\n'.join(lines) + '\n'


def _tag(rel):
    return ''.join(c if c.isalnum() else '_' for c in rel)


# ---------------------------------------------------------------------- shell quoting
SAFE = set('abcdefghijklmnopqrstuvwxyzABCDEFGHIJKLMNOPQRSTUVWXYZ0123456789_-+=./,:@%')


def quote_arg(rng, a, features):
    """one shell word that sh splits back into `a`; style chosen at random"""
    if a and all(c in SAFE for c in a) and rng.random() < 0.85:
        return a
    styles = ['dq', 'sq', 'bs', 'partial']
    if "'" in a:
        styles.remove('sq')
    if not allowed('cmd-backslash-other') and any(c in a for c in '()<>;&|*?$`!#~{}[]'):
        # characters that need a backslash outside quotes: cppcheck keeps that backslash (known finding)
        styles.remove('bs')
    st = rng.choice(styles)
    features.add('quote-' + st)
    if st == 'sq':
        return "'" + a + "'"
    if st == 'dq':
        return '"' + _dq(a) + '"'
    if st == 'bs':
        return ''.join(c if c in SAFE else '\\' + c for c in a)
    # partial: quote only the part after the first '=' (or after the 2-letter option)
    k = a.find('=') + 1 if '=' in a else min(2, len(a))
    head, tail = a[:k], a[k:]
    if not all(c in SAFE for c in head):
        return '"' + _dq(a) + '"'
    if "'" not in tail and rng.random() < 0.5:
        return head + "'" + tail + "'"
    return head + '"' + _dq(tail) + '"'


def _dq(a):
    return ''.join('\\' + c if c in '"\\$`' else c for c in a)


def make_command(rng, argv, features):
    words = [quote_arg(rng, a, features) for a in argv]
    out = words[0]
    for w in words[1:]:
        sep = rng.choice([' ', ' ', ' ', '  '])
        if allowed('cmd-tab-separator') and rng.random() < 0.05:
            sep = '\t'
            features.add('tab-separator')
        out += sep + w
    return out


# ---------------------------------------------------------------------- entries
def _rel(path, start):
    return os.path.relpath(path, start)


def gen(rng, root, nentries):
    cdb = Cdb(root)
    # headers: every header exists in the fallback directory and in a random subset of the others
    hdr_dirs = {}
    for h in QHDRS + AHDRS:
        dirs = [d for d in INC_DIRS + SYS_DIRS if rng.random() < 0.45]
        hdr_dirs[h] = dirs + [FALLBACK]
        for d in hdr_dirs[h]:
            cdb.files['%s/%s' % (d, h)] = 'int mark_%s_in_%s ;\n' % (_tag(h), _tag(d))
    for d in SYS_DIRS:
        cdb.files['%s/sy0.h' % d] = 'int mark_sy0_h_in_%s ;\n' % _tag(d)
    cdb.files['forced/empty.h'] = '/* forced include without tokens */\n'
    src_dirs = ['src', 'src/sub', 'src/-Dsrc', 'other dir']
    sources = []
    nsrc = max(1, nentries - rng.randint(0, max(0, nentries // 3)))   # some files repeated
    for i in range(nsrc):
        cpp = rng.random() < 0.3
        sd = rng.choice(src_dirs[:2] if rng.random() < 0.8 else src_dirs)
        rel = '%s/f%d.%s' % (sd, i, 'cpp' if cpp else 'c')
        qh = [h for h in QHDRS if rng.random() < 0.7]
        ah = [h for h in AHDRS if rng.random() < 0.6]
        cdb.files[rel] = source_text(rng, i, cpp, qh, ah)
        # a local copy of a quoted header next to the source wins over every -I
        for h in qh:
            if rng.random() < 0.3:
                cdb.files['%s/%s' % (sd, h)] = 'int mark_%s_local_%s ;\n' % (_tag(h), _tag(sd))
        sources.append((rel, cpp))
    order = list(range(nsrc)) + [rng.randrange(nsrc) for _ in range(nentries - nsrc)]
    rng.shuffle(order)
    for si in order:
        rel, cpp = sources[si]
        cdb.entries.append(gen_entry(rng, root, rel, cpp))
    return cdb


def gen_entry(rng, root, src, cpp):
    e = Entry()
    e.src, e.cpp = src, cpp
    f = e.features
    bdir = rng.choice(['build', 'build', 'build/sub', '.', 'src'])
    absdir = os.path.normpath(os.path.join(root, bdir))
    x = rng.random()
    if x < 0.6:
        e.directory = absdir
    elif x < 0.75:
        e.directory = absdir + '/'
        f.add('directory-trailing-slash')
    elif x < 0.9:
        e.directory = os.path.join(absdir, '..', os.path.basename(absdir)) if bdir != '.' else absdir + '/.'
        f.add('directory-dotdot')
    else:
        e.directory = absdir + '/./'
        f.add('directory-dot')
    abssrc = os.path.join(root, src)

    def spell(target_rel, allow_abs=True):
        """a path to root/target_rel as seen from the entry directory"""
        t = os.path.join(root, target_rel)
        y = rng.random()
        if allow_abs and y < 0.25:
            f.add('absolute-path')
            return t
        r = _rel(t, absdir)
        if y < 0.4 and not r.startswith('.'):
            f.add('dot-slash-path')
            return './' + r
        if y < 0.5:
            f.add('redundant-dotdot-path')
            return _rel(os.path.dirname(t), absdir) + '/../' + os.path.basename(os.path.dirname(t)) + '/' + os.path.basename(t)
        return r

    e.file = spell(src)
    # ---- options
    opts = []          # list of argument groups (each a list of argv words)
    dirs = [d for d in INC_DIRS if rng.random() < 0.45]
    rng.shuffle(dirs)
    if dirs and rng.random() < 0.2:
        dirs.append(dirs[0])                      # duplicate -I
        f.add('duplicate-I')
    for d in dirs + [FALLBACK]:
        p = spell(d)
        if rng.random() < 0.2:
            p += '/'
        e.ipaths.append(p)
        if rng.random() < 0.7:
            opts.append(['-I' + p])
            f.add('I-joined')
        else:
            opts.append(['-I', p])
            f.add('I-separate')
    have_sys = False
    for d in SYS_DIRS:
        if rng.random() < 0.3:
            p = spell(d)
            f.add('isystem')
            have_sys = True
            opts.append(['-isystem', p] if rng.random() < 0.7 else ['-isystem' + p])
    if have_sys and allowed('isystem-lookup') and rng.random() < 0.5:
        # the source includes <sy0.h> (present in the -isystem directories only) under this macro
        opts.append(['-DHAVE_SYS'])
        f.add('isystem-lookup')
    if rng.random() < 0.2:
        opts.append(['-include', spell('forced/empty.h')])
        f.add('include-option (header without tokens)')
    # defines
    dgroups = []
    names = [n for n in NAMES if rng.random() < 0.45]
    rng.shuffle(names)
    for n in names:
        if n == 'F':
            word = rng.choice(['F(x)=x+1', 'F(x)=(x)*2', 'F(a)=a', 'F(x)=x + 1'])
            f.add('D-function-like')
        else:
            v = define_value(rng, n, f)
            word = n if v is None else '%s=%s' % (n, v)
        e.defines.append(n)
        dgroups.append(['-D' + word] if rng.random() < 0.75 else ['-D', word])
        if len(dgroups[-1]) == 2:
            f.add('D-separate')
    if names and rng.random() < 0.15 and allowed('duplicate-D'):
        n = rng.choice(names)
        dgroups.append(['-D%s=%d' % (n, rng.randint(2, 9))])
        f.add('duplicate-D')
    ugroups = []
    for n in NAMES:
        if rng.random() < 0.12:
            e.undefs.append(n)
            ugroups.append(['-U' + n] if rng.random() < 0.7 else ['-U', n])
            f.add('U-of-defined' if n in names else 'U')
    if allowed('U-before-D') and rng.random() < 0.3:
        du = dgroups + ugroups
        rng.shuffle(du)
        f.add('D-U-shuffled')
    else:
        du = dgroups + ugroups                     # every -U after the -D options
    opts += du
    if rng.random() < 0.45:
        e.std = rng.choice(CPP_STDS if cpp else C_STDS)
        if allowed('double-dash-std') and rng.random() < 0.15:
            opts.append(['--std=' + e.std])
            f.add('double-dash-std')
        else:
            opts.append(['-std=' + e.std])
        f.add('std')
    for _ in range(rng.choice([0, 1, 2, 3, 4])):
        g = list(rng.choice(NOISE))
        g = [spell('EMPTYDIR') if w == 'EMPTYDIR' else w for w in g]
        opts.append(g)
    if rng.random() < 0.3:
        opts.append(['-MD', '-MF', 'dep_%d.d' % rng.randint(0, 99)])
        if rng.random() < 0.5 and allowed('slash-D-path-argument'):
            opts.append(['-MT', rng.choice(['/Data/obj/x.o', '/Users/me/x.o', '/Include/x.o'])])
            f.add('slash-D-path-argument')
    # shuffle everything but keep the relative order of the -D/-U groups as decided above (riffle)
    seq = [g for g in opts if not any(g is h for h in du)]
    rng.shuffle(seq)
    merged, i, j = [], 0, 0
    while i < len(seq) or j < len(du):
        if j >= len(du) or (i < len(seq) and rng.random() < 0.5):
            merged.append(seq[i])
            i += 1
        else:
            merged.append(du[j])
            j += 1
    if rng.random() < 0.5:
        e.out = 'obj_%d.o' % rng.randint(0, 999)
        merged.insert(rng.randint(0, len(merged)), ['-o', e.out])
    srcarg = [e.file]
    x = rng.random()
    if x < 0.5:
        merged.append(['-c'] + srcarg if rng.random() < 0.6 else srcarg)
    else:
        merged.insert(rng.randint(0, len(merged)), srcarg)
        f.add('source-not-last')
    compiler = rng.choice(['g++', '/usr/bin/g++', 'c++'] if cpp else ['gcc', '/usr/bin/gcc', 'cc'])
    e.argv = [compiler] + [w for g in merged for w in g]
    if rng.random() < 0.5:
        e.form = 'command'
        e.command = make_command(rng, e.argv, f)
        f.add('command-form')
    else:
        f.add('arguments-form')
    return e


def define_value(rng, n, f):
    x = rng.random()
    if n == 'S':
        f.add('D-string-value')
        return rng.choice(['"str"', '"a b"', '"q\\"q"', '"back\\\\slash"', '"it\'s"'])
    if n == 'E':
        f.add('D-empty-value')
        return ''
    if x < 0.3:
        return None
    if x < 0.6:
        return str(rng.choice([0, 1, 2, 42, 100]))
    if x < 0.7:
        f.add('D-value-with-spaces')
        return rng.choice(['a b', '(1 + 2)', 'x  y'])
    if x < 0.73 and allowed('semicolon-in-define'):
        f.add('D-value-with-semicolon')
        return 'x;y'
    if x < 0.8:
        f.add('D-value-with-equals')
        return rng.choice(['a==b', 'x=1'])
    if x < 0.9:
        return rng.choice(NAMES)
    return rng.choice(['0x10', "'c'", '-1', 'foo(1,2)'])
