"""Check context: verdict discipline, known-findings matching, evidence writing."""
import hashlib
import json
import os
import random
import shutil
import sys
import tempfile
import threading
import time
import traceback

from . import build

VERIF = build.VERIF
EVIDENCE_DIR = os.environ.get('VERIF_EVIDENCE_DIR') or os.path.join(VERIF, 'evidence')   # override: soak runs that must not touch the committed records
REPLAY_DIR = os.path.join(VERIF, 'replay')
KNOWN_FILE = os.path.join(VERIF, 'known_findings.txt')


def sha1(*parts):
    h = hashlib.sha1()
    for p in parts:
        if isinstance(p, str):
            p = p.encode('utf-8', 'surrogateescape')
        h.update(p)
        h.update(b'\0')
    return h.hexdigest()[:16]


def load_known(pid):
    """-> dict key -> description for 'finding:' lines of this property."""
    known = {}
    lines = []
    for path in (KNOWN_FILE, os.path.join(VERIF, 'known', pid + '.txt')):
        if os.path.exists(path):
            lines += open(path, encoding='utf-8').read().splitlines()
    for line in lines:
        line = line.strip()
        if not line.startswith('finding:'):
            continue
        rest = line[len('finding:'):].strip()
        toks = rest.split(None, 2)
        if len(toks) < 2 or toks[0] != 'property=' + pid or not toks[1].startswith('key='):
            continue
        known[toks[1][4:]] = toks[2] if len(toks) > 2 else ''
    return known


class Inconclusive(Exception):
    pass


class Ctx:
    def __init__(self, pid, tier, seed, level='exploration'):
        self.pid = pid
        self.tier = tier
        self.seed = seed
        self.level = level
        self.rng = random.Random((seed * 1000003) ^ int(sha1(pid), 16))
        self.t0 = time.time()
        os.makedirs(os.path.join(VERIF, '.work'), exist_ok=True)
        self.work = tempfile.mkdtemp(prefix='%s-' % pid, dir=os.path.join(VERIF, '.work'))
        self.known = load_known(pid)
        self.known_seen = {}       # key -> what
        self.violations = []       # (key, what, replay_path)
        self.viol_keys = set()
        self.evaluations = 0
        self.nontrivial = set()    # distinct non-trivial case signatures
        self.samples = []
        self.cov = {}              # extra coverage tables
        self.rule = ''
        self.assumptions = []
        self.inconclusive_reasons = []
        self._tmpn = 0
        self.lock = threading.RLock()

    # ------------------------------------------------------------ helpers
    def quick(self):
        return self.tier == 'quick'

    def n(self, quick, thorough):
        """case count by tier, scalable with VERIF_SCALE (float) for experiments"""
        v = quick if self.quick() else thorough
        sc = float(os.environ.get('VERIF_SCALE', '1'))
        return max(1, int(v * sc))

    def subrng(self, *parts):
        return random.Random(int(sha1(str(self.seed), self.pid, *[str(p) for p in parts]), 16))

    def ev(self, n=1):
        """count n evaluations (thread-safe)"""
        with self.lock:
            self.evaluations += n

    def tmpdir(self, name=None):
        with self.lock:
            self._tmpn += 1
        d = os.path.join(self.work, name or ('t%d' % self._tmpn))
        os.makedirs(d, exist_ok=True)
        return d

    def count(self, table, k, inc=1):
        with self.lock:
            t = self.cov.setdefault(table, {})
            t[k] = t.get(k, 0) + inc

    def sample(self, s, limit=6):
        if len(self.samples) < limit:
            self.samples.append(s)

    def trivial_or(self, sig):
        """register a distinct non-trivial case"""
        self.nontrivial.add(sig if isinstance(sig, str) else sha1(repr(sig)))

    # ------------------------------------------------------------ verdicts
    def violation(self, key, what, files=None, cmd=None):
        """Report a violation identified by a stable key. files: name -> text/bytes or path (prefix '@')."""
        with self.lock:
            return self._violation(key, what, files, cmd)

    def _violation(self, key, what, files=None, cmd=None):
        if key in self.known:
            if key not in self.known_seen:
                self.known_seen[key] = self.known[key] or what
            return False
        if key in self.viol_keys:
            return True
        self.viol_keys.add(key)
        rdir = os.path.join(REPLAY_DIR, self.pid, sha1(key))
        shutil.rmtree(rdir, ignore_errors=True)
        os.makedirs(rdir, exist_ok=True)
        with open(os.path.join(rdir, 'WHAT.txt'), 'w', encoding='utf-8', errors='replace') as f:
            f.write('property=%s\nkey=%s\nseed=%d tier=%s\n\n%s\n' % (self.pid, key, self.seed, self.tier, what))
            if cmd:
                f.write('\ncommand:\n%s\n' % cmd)
        for name, content in (files or {}).items():
            dst = os.path.join(rdir, name)
            os.makedirs(os.path.dirname(dst), exist_ok=True)
            if isinstance(content, str) and content.startswith('@') and os.path.exists(content[1:]):
                src = content[1:]
                if os.path.isdir(src):
                    shutil.copytree(src, dst, dirs_exist_ok=True)
                else:
                    shutil.copy(src, dst)
            else:
                mode = 'wb' if isinstance(content, bytes) else 'w'
                with open(dst, mode) as f:
                    f.write(content)
        self.violations.append((key, what, rdir))
        return True

    def inconclusive(self, reason):
        self.inconclusive_reasons.append(reason)

    # ------------------------------------------------------------ finish
    def finish(self):
        wall = time.time() - self.t0
        cov = {'evaluations': int(self.evaluations),
               'distinct_nontrivial': len(self.nontrivial),
               'rule': self.rule,
               'samples': self.samples[:8]}
        typed = {'states': int, 'transitions': int, 'traces_validated_against_impl': int, 'obligations': int,
                 'discharged': int, 'checker_cmd': str, 'trusted_base': list, 'programs': int,
                 'disagreements_checked': int, 'explanation': str, 'exhaustive': bool}
        for k, v in self.cov.items():
            if k in ('evaluations', 'distinct_nontrivial', 'rule', 'samples'):
                k = k + '_extra'
            elif k in typed and not (isinstance(v, typed[k]) and not (typed[k] is int and isinstance(v, bool))):
                k = k + '_table'     # keys with a schema-defined type keep that type
            cov[k] = v
        if not cov['samples'] and self.nontrivial:
            # fall back to the identifiers of actual non-trivial cases of this run
            cov['samples'] = [{'case': x} for x in sorted(self.nontrivial)[:3]]
        cov['known_findings_reobserved'] = sorted(self.known_seen)
        if self.inconclusive_reasons:
            cov['inconclusive'] = self.inconclusive_reasons
        ev = {'property_id': self.pid, 'tier': self.tier, 'seed': self.seed, 'level': self.level,
              'coverage': cov, 'assumptions': self.assumptions, 'wall_s': round(wall, 2),
              'violations': len(self.violations)}
        os.makedirs(EVIDENCE_DIR, exist_ok=True)
        tmp = os.path.join(EVIDENCE_DIR, '.%s.json.tmp' % self.pid)
        with open(tmp, 'w') as f:
            json.dump(ev, f, indent=1, sort_keys=True, default=str)
            f.write('\n')
        os.replace(tmp, os.path.join(EVIDENCE_DIR, self.pid + '.json'))
        for key in sorted(self.known_seen):
            print('KNOWN-FINDING: property=%s %s [%s]' % (self.pid, self.known_seen[key], key))
        for key, what, rdir in self.violations:
            print('VIOLATION property=%s replay=%s' % (self.pid, rdir))
            print('  key=%s' % key)
            print('  ' + what.replace('\n', '\n  ')[:1500])
        shutil.rmtree(self.work, ignore_errors=True)
        print('%s %s seed=%d: evaluations=%d distinct_nontrivial=%d violations=%d known=%d wall=%.1fs'
              % (self.pid, self.tier, self.seed, self.evaluations, len(self.nontrivial),
                 len(self.violations), len(self.known_seen), wall))
        if self.violations:
            return 1
        if self.inconclusive_reasons:
            for r in self.inconclusive_reasons:
                print('INCONCLUSIVE: %s' % r)
            return 2
        if len(self.nontrivial) < 2 or self.evaluations < 1:
            print('INCONCLUSIVE: monitors observed too little (evaluations=%d, nontrivial=%d)'
                  % (self.evaluations, len(self.nontrivial)))
            return 2
        return 0


def main(pid, run_fn, flavours, level='exploration', argv=None):
    import argparse
    ap = argparse.ArgumentParser()
    ap.add_argument('--tier', default=os.environ.get('VERIF_TIER', 'quick'))
    ap.add_argument('--replay', default=None)
    a = ap.parse_args(argv)
    tier = os.environ.get('VERIF_TIER') or a.tier
    if tier not in ('quick', 'thorough'):
        tier = 'quick'
    seed = int(os.environ.get('VERIF_SEED', '1') or 1)
    ctx = Ctx(pid, tier, seed, level)
    ctx.replay = a.replay
    try:
        build.ensure(flavours)
        run_fn(ctx)
        rc = ctx.finish()
    except build.HarnessError as e:
        print('HARNESS-ERROR: %s' % e)
        shutil.rmtree(ctx.work, ignore_errors=True)
        rc = 2
    except Inconclusive as e:
        print('INCONCLUSIVE: %s' % e)
        shutil.rmtree(ctx.work, ignore_errors=True)
        rc = 2
    except Exception:
        traceback.print_exc()
        print('HARNESS-ERROR: unexpected exception in check %s' % pid)
        shutil.rmtree(ctx.work, ignore_errors=True)
        rc = 2
    sys.stdout.flush()
    return rc
