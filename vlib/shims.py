"""LD_PRELOAD shims and other small C/C++ helpers built on demand from /verif/harness/*.c.

`so(name)` -> path of /verif/.build/harness/<name>.so, (re)built when the source is newer. Serialised
with flock so that concurrently running checks do not race; the compile goes to a temporary name
and is renamed into place. A compile failure is a HarnessError (exit 2), never a verdict.
"""
import fcntl
import os
import subprocess

from . import build

HARNESS = os.path.join(build.VERIF, 'harness')
OUT = os.path.join(build.VERIF, '.build', 'harness')

LIBS = {'chaos_malloc': ['-ldl'], 'shuffle_readdir': ['-ldl', '-lpthread']}


def so(name):
    src = os.path.join(HARNESS, name + '.c')
    dst = os.path.join(OUT, name + '.so')
    os.makedirs(OUT, exist_ok=True)
    if os.path.exists(dst) and os.path.getmtime(dst) >= os.path.getmtime(src):
        return dst
    with open(os.path.join(OUT, name + '.lock'), 'w') as lock:
        fcntl.flock(lock, fcntl.LOCK_EX)
        try:
            if os.path.exists(dst) and os.path.getmtime(dst) >= os.path.getmtime(src):
                return dst
            tmp = '%s.%d.tmp' % (dst, os.getpid())
            cmd = ['gcc', '-O2', '-Wall', '-fPIC', '-shared', '-o', tmp, src] + LIBS.get(name, [])
            p = subprocess.run(cmd, stdout=subprocess.PIPE, stderr=subprocess.STDOUT)
            if p.returncode != 0 or not os.path.exists(tmp):
                raise build.HarnessError('cannot build shim %s: %s' % (name, p.stdout.decode('utf-8', 'replace')[-800:]))
            os.replace(tmp, dst)
        finally:
            fcntl.flock(lock, fcntl.LOCK_UN)
    return dst
