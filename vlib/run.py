"""Running cppcheck (and other tools) with watchdogs; parallel map helpers."""
import concurrent.futures
import os
import signal
import subprocess
import time

from . import build

WATCHDOG = 120  # generous wall-clock watchdog (s); firing is *inconclusive*, not a verdict

SAN_ENV = {
    'ASAN_OPTIONS': 'abort_on_error=1:detect_leaks=0:halt_on_error=1:detect_stack_use_after_return=0:'
                    'allocator_may_return_null=1:handle_abort=1',
    'UBSAN_OPTIONS': 'print_stacktrace=1:halt_on_error=1',
}


class Result:
    __slots__ = ('rc', 'out', 'err', 'timed_out', 'wall', 'argv', 'cwd', 'signal')

    def __init__(self, rc, out, err, timed_out, wall, argv, cwd):
        self.rc = rc
        self.out = out
        self.err = err
        self.timed_out = timed_out
        self.wall = wall
        self.argv = argv
        self.cwd = cwd
        self.signal = -rc if rc is not None and rc < 0 else 0

    def otext(self):
        return self.out.decode('utf-8', 'replace')

    def etext(self):
        return self.err.decode('utf-8', 'replace')

    def cmdline(self):
        import shlex
        return ' '.join(shlex.quote(a) for a in self.argv)


def base_env(extra=None):
    env = {'PATH': os.environ.get('PATH', '/usr/bin:/bin'), 'HOME': os.environ.get('HOME', '/root'),
           'LANG': 'C.UTF-8', 'LC_ALL': 'C.UTF-8'}
    env.update(SAN_ENV)
    if extra:
        env.update(extra)
    return env


def run(argv, cwd=None, env=None, timeout=WATCHDOG, stdin=None, new_session=True):
    t0 = time.time()
    for attempt in range(60):
        try:
            p = subprocess.Popen(argv, cwd=cwd, env=env if env is not None else base_env(),
                                 stdin=subprocess.PIPE if stdin is not None else subprocess.DEVNULL,
                                 stdout=subprocess.PIPE, stderr=subprocess.PIPE,
                                 start_new_session=new_session)
            break
        except OSError as e:
            # the binary is being re-linked by a concurrent build (EACCES / ETXTBSY / ENOENT): wait for it
            if e.errno in (13, 26, 2) and attempt < 59 and os.path.dirname(argv[0]).startswith(build.BUILD_ROOT):
                time.sleep(3)
                continue
            raise
    timed_out = False
    try:
        out, err = p.communicate(stdin, timeout=timeout)
    except subprocess.TimeoutExpired:
        timed_out = True
        try:
            if new_session:
                os.killpg(p.pid, signal.SIGKILL)
            else:
                p.kill()
        except ProcessLookupError:
            pass
        out, err = p.communicate()
    return Result(p.returncode, out, err, timed_out, time.time() - t0, list(argv), cwd)


def cppcheck(args, flavour='mon', cwd=None, env=None, timeout=WATCHDOG, stdin=None):
    """Run the flavour's cppcheck CLI. env: extra variables merged over the clean base env."""
    return run([build.binary(flavour)] + list(args), cwd=cwd, env=base_env(env), timeout=timeout,
               stdin=stdin)


def pmap(fn, items, workers=None):
    """Ordered parallel map over threads (work is subprocess-bound)."""
    items = list(items)
    if not items:
        return []
    workers = workers or min(16, os.cpu_count() or 8)
    if workers <= 1 or len(items) == 1:
        return [fn(x) for x in items]
    with concurrent.futures.ThreadPoolExecutor(max_workers=workers) as ex:
        return list(ex.map(fn, items))
