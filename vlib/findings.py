"""Canonical findings from cppcheck --xml (version 2) output and from a fixed text template."""
import collections
import re
import xml.etree.ElementTree as ET

# not findings: summary line of the active checkers
NON_FINDINGS = {'checkersReport'}

Finding = collections.namedtuple(
    'Finding', 'id severity inconclusive msg verbose file0 locs symbols cwe')
# locs: tuple of (file, line, column, info) in XML order (first = primary location)


class XmlError(Exception):
    pass


def parse_xml(text, keep_non_findings=False):
    """-> list[Finding] in report order. Raises XmlError if the document is not well-formed."""
    if isinstance(text, bytes):
        text = text.decode('utf-8', 'replace')
    i = text.find('<?xml')
    if i < 0:
        raise XmlError('no xml prolog')
    try:
        root = ET.fromstring(text[i:].encode('utf-8'))
    except ET.ParseError as e:
        raise XmlError(str(e))
    out = []
    errs = root.find('errors')
    if errs is None:
        return out
    for e in errs.findall('error'):
        fid = e.get('id', '')
        if fid in NON_FINDINGS and not keep_non_findings:
            continue
        locs = tuple((l.get('file', ''), int(l.get('line', '0')), int(l.get('column', '0')),
                      l.get('info', '')) for l in e.findall('location'))
        syms = tuple(s.text or '' for s in e.findall('symbol'))
        out.append(Finding(fid, e.get('severity', ''), e.get('inconclusive') == 'true',
                           e.get('msg', ''), e.get('verbose', ''), e.get('file0', ''), locs, syms,
                           e.get('cwe', '')))
    return out


def key(f, with_file0=False):
    """Canonical comparison tuple."""
    k = (f.id, f.severity, f.inconclusive, f.msg, f.verbose, f.locs, f.symbols, f.cwe)
    if with_file0:
        k += (f.file0,)
    return k


def multiset(fs, with_file0=False):
    return collections.Counter(key(f, with_file0) for f in fs)


def primary(f):
    """(file, line, column) of the primary location; XML lists the primary location first."""
    if f.locs:
        return f.locs[0][:3]
    return ('', 0, 0)


def diff(a, b, with_file0=False):
    """-> (only_in_a, only_in_b) as lists of canonical tuples."""
    ma, mb = multiset(a, with_file0), multiset(b, with_file0)
    return sorted((ma - mb).elements(), key=repr), sorted((mb - ma).elements(), key=repr)


def short(f):
    if isinstance(f, Finding):
        p = primary(f)
        return '%s:%d:%d %s[%s]%s %s' % (p[0], p[1], p[2], f.severity, f.id,
                                        '(inconclusive)' if f.inconclusive else '', f.msg)
    return repr(f)


# ---------------------------------------------------------------- text template
TEMPLATE = '{file}\\t{line}\\t{column}\\t{severity}\\t{inconclusive:inconclusive}\\t{id}\\t{cwe}\\t{message}'
_T_RE = re.compile(r'^([^\t]*)\t(\d+)\t(\d+)\t(\w+)\t(inconclusive)?\t([^\t]+)\t(\d+)\t(.*)$')

TFinding = collections.namedtuple('TFinding', 'file line column severity inconclusive id cwe msg')


def parse_template(text):
    """Findings from output produced with --template=TEMPLATE (no location template)."""
    if isinstance(text, bytes):
        text = text.decode('utf-8', 'replace')
    out = []
    for line in text.splitlines():
        m = _T_RE.match(line)
        if m and m.group(6) not in NON_FINDINGS:
            out.append(TFinding(m.group(1), int(m.group(2)), int(m.group(3)), m.group(4),
                                bool(m.group(5)), m.group(6), m.group(7), m.group(8)))
    return out
