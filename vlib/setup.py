"""setup_cmd: build all flavours the quick checks need and the harness helpers."""
import sys

from . import build


def main():
    try:
        build.ensure(['mon', 'asan', 'tsan', 'mcv'])
    except build.HarnessError as e:
        sys.stderr.write('HARNESS-ERROR: %s\n' % e)
        return 2
    try:
        from . import harness
        harness.build_all()
    except ImportError:
        pass
    return 0


if __name__ == '__main__':
    sys.exit(main())
