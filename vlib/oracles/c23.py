"""C23 — Suppressions hide exactly the matching findings.

For a generated project carrying inline suppression comments in every documented form, the
ground-truth findings F0 (same text, no --inline-suppr, no suppression option) are compared with
the findings of a run under a generated suppression set (command line, list file, XML file, inline
comments, exit-code suppressions). Expected: exactly the findings of F0 that no *message*
suppression matches, decided by the model vlib/models/suppress.py (an executable reading of
man/manual.md chapter "Suppressions" and of the path-pattern rules). A finding matched only by an
exit-code suppression stays. Cases the manual does not decide are run and counted, not judged.
"""
import os
import shutil

from .. import cases, findings
from ..core import sha1
from ..gen import supprgen2
from ..models import suppress as sm
from ..run import pmap

PID = 'C23'
FLAVOURS = ['mon']
META = {
    'technique': 'model-based run monitor: findings under a suppression set vs ground truth filtered by an executable '
                 'reading of the documented suppression rules',
    'level_text': 'Sampled exploration: generated projects x suppression sets in all documented forms (id globs, file '
                  'patterns, line numbers, symbol names, list/XML files, inline same-line/next-line/{-line/list/'
                  'symbolName/begin-end/file/macro forms, headers, exit-code suppressions); every ground-truth finding '
                  'is classified hidden/reported/undecided by the model and compared with the real run.',
    'level_note': 'Trusts the unsuppressed run as ground truth; forms the manual leaves open (relative or absolute file '
                  'patterns against relative names, directory-only patterns, interleaved begin/end blocks, glob '
                  'characters in symbol names) are counted, not judged.',
    'design_ref': 'DESIGN.md §3 C23',
}

KNOWN_DIR = os.path.join(os.path.dirname(os.path.dirname(os.path.dirname(os.path.abspath(__file__)))), 'known', 'C23')
NOT_COMPARED = {'unmatchedSuppression'}


def judge(ctx, c, a1, tag, files):
    """compare run a1 (under suppressions c.supprs) with ground truth c.f0"""
    m0 = findings.multiset(c.f0.findings)
    m1 = findings.multiset([f for f in a1.findings if f.id not in NOT_COMPARED])
    hidden = reported = undec = 0
    seen_keys = set()
    for f in c.f0.findings:
        k = findings.key(f)
        if k in seen_keys or f.id in NOT_COMPARED:
            continue
        seen_keys.add(k)
        v = sm.verdict(c.supprs, f)
        if v is None:
            undec += 1
            ctx.count('undecided', next((s.undecided or 'pattern' for s in c.supprs
                                         if not s.exitcode_only and sm.matches(s, f) is None), 'pattern'))
            continue
        got = m1.get(k, 0)
        if v:
            hidden += 1
            s = next(s for s in c.supprs if not s.exitcode_only and sm.matches(s, f))
            ctx.count('hidden_by', '%s-%s' % (s.origin, s.kind))
            if got != 0:
                ctx.violation('rule:%s-%s-should-hide:%s' % (s.origin, s.kind, sha1(c.sig, repr(k))),
                              'finding %s is reported although suppression %r matches it by the documented rules'
                              % (findings.short(f), s), files=files, cmd=tag)
        else:
            reported += 1
            if sm.exitcode_neutral(c.supprs, f):
                ctx.count('hidden_by', 'exitcode-only(stays)')
            if got != m0[k]:
                near = [s for s in c.supprs if not s.exitcode_only and sm.glob_match(s.id, f.id)]
                ctx.violation('rule:no-suppression-matches:%s' % sha1(c.sig, repr(k)),
                              'finding %s is missing (%d of %d reported) although no message suppression matches it '
                              'by the documented rules; suppressions with a matching id: %r'
                              % (findings.short(f), got, m0[k], near[:6]), files=files, cmd=tag)
    for k in m1:
        if k not in m0:
            ctx.violation('rule:finding-not-in-ground-truth:%s:%s' % (k[0], sha1(c.sig, repr(k))),
                          'the suppressed run reports %r which the unsuppressed run of the same text does not report'
                          % (k[:4],), files=files, cmd=tag)
    return hidden, reported, undec


def _case(ctx, idx):
    rng = ctx.subrng('case', idx)
    d = ctx.tmpdir('c%d' % idx)
    c = supprgen2.build_case(ctx, rng, d)
    if c is None:
        shutil.rmtree(d, ignore_errors=True)
        return
    a1 = cases.analyse(c.src, c.args + c.sources)
    ctx.ev()
    if a1.res.timed_out:
        ctx.inconclusive('watchdog fired on case %d' % idx)
        return
    if b'cppcheck: error:' in a1.res.out:
        msg = a1.res.otext().split('cppcheck: error:', 1)[1].strip().split('\n')[0]
        ctx.count('rejected-command-lines', msg.split("'")[0][:60])
        shutil.rmtree(d, ignore_errors=True)
        return
    if not a1.xml_ok or cases.crashed(a1.res):
        ctx.violation('rule:crash-under-suppressions:%s' % sha1(c.sig), 'run crashed or produced malformed XML (rc=%s)\n%s'
                      % (a1.rc, a1.res.etext()[-800:]), files={'project': '@' + c.src, 'opt': '@' + os.path.join(d, 'opt')},
                      cmd=a1.res.cmdline())
        return
    files = {'project': '@' + c.src, 'opt': '@' + os.path.join(d, 'opt')}
    tag = 'cd project && %s   # ground truth: %s' % (a1.res.cmdline(), ' '.join(c.base + c.sources))
    hidden, reported, undec = judge(ctx, c, a1, tag, files)
    for f in c.opts.forms:
        ctx.count('option_forms', f)
    for s in c.inline:
        ctx.count('inline_forms', s.kind + ('(undecided:%s)' % s.undecided if s.undecided else ''))
    ctx.count('findings', 'expected-hidden', hidden)
    ctx.count('findings', 'expected-reported', reported)
    ctx.count('findings', 'undecided', undec)
    if hidden >= 1 and reported >= 1:
        ctx.trivial_or(c.sig)
    ctx.sample({'options': [a.replace(d, '.') for a in c.args], 'sources': len(c.sources), 'absolute_paths': c.absolute,
                'inline_suppressions': len(c.inline), 'ground_truth': len(c.f0.findings), 'hidden': hidden,
                'reported': reported, 'undecided': undec})
    shutil.rmtree(d, ignore_errors=True)


def _replay_known(ctx):
    """known/C23/id-glob-qmark: the manual allows '?' in error-id patterns; cppcheck rejects it"""
    src = os.path.join(KNOWN_DIR, 'id-glob-qmark')
    if not os.path.isdir(src):
        ctx.inconclusive('witness directory %s missing' % src)
        return
    a0 = cases.analyse(src, ['-q', '-j1', 'a.c'])
    a1 = cases.analyse(src, ['-q', '-j1', '--suppress=nullPointe?', 'a.c'])
    ctx.ev()
    want_hidden = [f for f in a0.findings if sm.matches(sm.parse_spec('nullPointe?'), f)]
    still = [f for f in a1.findings if f.id == 'nullPointer']
    if want_hidden and (still or b'Invalid id' in a1.res.out or a1.rc != 0):
        ctx.violation('rule:id-glob-question-mark-rejected',
                      "--suppress='nullPointe?' is rejected (%s) although the manual says the error id pattern may "
                      "contain '?'" % a1.res.otext().strip()[:120], files={'project': '@' + src},
                      cmd="cppcheck --suppress='nullPointe?' a.c")


def run(ctx):
    ctx.rule = ('case = generated project with inline suppression comments + generated suppression options, run once '
                'without any suppression (ground truth) and once with them; non-trivial = the model classifies >=1 '
                'ground-truth finding as hidden and >=1 as still reported')
    ctx.assumptions.append("generator exclusion: '?' in error-id patterns (known finding rule:id-glob-question-mark-rejected)")
    _replay_known(ctx)
    n = ctx.n(150, 5000)
    pmap(lambda i: _case(ctx, i), range(n), workers=8)
