"""C24 — Unmatched suppressions are reported exactly.

Same workload as C23 (vlib/gen/supprgen2.py) with information messages enabled. With F0 = the
findings of the same text without any suppression, a suppression is *matched* iff the model
(vlib/models/suppress.py) says it matches some finding of F0. Judged:
 (1) no `unmatchedSuppression` report for a suppression that matched (every suppression that
     could have produced the report is matched) and no report that belongs to no suppression;
 (2) every unmatched suppression of a class with a stated rule — global id without wildcard,
     file-local / line form naming an analysed source file exactly, inline comment in analysed
     code — is reported exactly once at the location the suppression records (global: no
     location; file-local: file, line 0; line form: that line; inline before-code comment:
     file/line/column of the code it applies to; same-line comment: that line);
 (3) the multiset of unmatchedSuppression reports is identical under -j1, the thread and the
     process executor (seeded H2 schedule perturbation), whole-program ids aside.
Wildcard, header-scoped and directory forms are judged by (1) and (3) only.
"""
import os
import re
import shutil

from .. import cases, findings
from ..core import sha1
from ..gen import supprgen2
from ..models import pathmatch as pm
from ..models import suppress as sm
from ..run import pmap

PID = 'C24'
FLAVOURS = ['mon']
META = {
    'technique': 'model-based run monitor: unmatchedSuppression reports vs matched-state computed from ground-truth '
                 'findings by an executable reading of the suppression rules; differential across executors (hook H2)',
    'level_text': 'Sampled exploration: generated projects x suppression sets (command line, list, XML, inline forms, '
                  'headers); each unmatchedSuppression report is attributed to the suppressions that can produce it; '
                  'each unmatched suppression of a rule-covered class must be reported once at its recorded location; '
                  'reports are compared between -j1, thread and process executors under seeded delays.',
    'level_note': 'Ground truth = unsuppressed run of the same text. Wildcard ids/files, header-scoped and directory '
                  'forms, block/file/macro comment line numbers and same-line comment columns are not covered by a '
                  'stated rule: judged only by "never for a matched suppression" and executor equality.',
    'design_ref': 'DESIGN.md §3 C24',
}

UNM = 'unmatchedSuppression'
MSG = re.compile(r'^Unmatched suppression: (.*)$')


def report_tuple(f):
    m = MSG.match(f.msg)
    sid = m.group(1) if m else f.msg
    if f.locs:
        return (sid, f.locs[0][0], f.locs[0][1], f.locs[0][2])
    return (sid, '', 0, 0)


def possible(s, r):
    """could suppression s be the origin of report r = (id, file, line, col)?"""
    sid, file, line, col = r
    if s.exitcode_only or s.id != sid:
        return False
    if s.origin == 'inline':
        if pm.display(s.file) != pm.display(file):
            return False
        if s.kind == 'unique' and s.line is not None:
            return line == s.line
        return True
    if not s.file:
        return file == ''
    if pm.display(s.file) != pm.display(file) and s.file != file:
        return False
    return line == (s.line or 0)


def judged_class(s, c, analysed_files):
    """-> expected report tuple (col None = not judged) if the stated rules cover s, else None"""
    if s.exitcode_only or s.undecided:
        return None
    if any(sm.glob_match(flt, s.id) for flt in NOT_ACTIVE_IDS):
        return None       # ids of checkers that did not run (addons, unusedFunction): nothing is stated
    if s.origin == 'inline':
        if pm.display(s.file) not in analysed_files:
            return None
        if s.kind == 'unique' and s.line is not None:
            if _line_text(c, s.file, s.line).lstrip().startswith('#'):
                return None   # the comment applies to a preprocessor directive, not to analysed code
            return (s.id, s.file, s.line, s.col)
        return None
    if sm.has_glob(s.id) or s.symbol:
        return None
    if not s.file:
        return (s.id, '', 0, 0)
    if sm.has_glob(s.file) or s.file.endswith('/') or pm.is_relative_pattern(s.file):
        return None
    if pm.display(s.file) not in c.source_names:
        return None
    if s.line is not None and not _is_code_line(_line_text(c, s.file, s.line)):
        return None       # the line form points at a blank / comment / directive line: not analysed code
    return (s.id, s.file, s.line or 0, 0)


# unmatched suppressions of these ids are only reported when the checker that owns them ran
# (cli/cmdlineparser.cpp unmatchedSuppressionFilters); the workload never enables them
NOT_ACTIVE_IDS = ['misra-*', 'premium-*', 'unusedFunction']


def _line_text(c, file, line):
    rel = file[len(c.src) + 1:] if file.startswith(c.src + '/') else file
    text = c.proj.files.get(pm.display(rel))
    if text is None:
        return ''
    lines = text.split('\n')
    return lines[line - 1] if 0 < line <= len(lines) else ''


def _is_code_line(text):
    toks = [t for t in sm.lex(text) if t.kind == 'code']
    return bool(toks) and toks[0].text != '#'


def double_covered(c, ms, f0):
    """Finding-keyed workload exclusion (known/C24.txt, keys case:witness-double-cover:* and
    case:witness-hidden-in-worker:*): a finding hidden in the worker by an inline or exact-file
    suppression never reaches the parent, so under -jN a global / wildcard-file suppression that
    matches the same finding is reported as unmatched (not under -j1), and one that merely shares
    its file and line is never marked checked (reported under -j1 only). Cases containing that
    construct are replayed from the witness only and are not handed to the executor comparison."""
    def local(t):
        return t.origin == 'inline' or (t.file and not sm.has_glob(t.file))
    for s in ms:
        if local(s):
            continue
        for f in f0:
            loc = sm.Suppr(s.origin, s.kind, '*', file=s.file, line=s.line)
            if sm.matches(loc, f) is not False and any(local(t) and sm.matches(t, f) is not False
                                                       for t in ms if t is not s):
                return True
    return False


def _included_headers(proj):
    inc = set()
    for src in proj.sources:
        for m in re.finditer(r'#include "([^"]+)"', proj.files[src]):
            inc.add(pm.display(os.path.dirname(src) + '/' + m.group(1) if os.path.dirname(src) else m.group(1)))
    return inc


def _case(ctx, idx):
    rng = ctx.subrng('case', idx)
    d = ctx.tmpdir('c%d' % idx)
    enable = rng.choice(['all', 'style,information', 'warning,style,performance,portability,information', 'information'])
    c = supprgen2.build_case(ctx, rng, d, enable=enable, exitcode=(0, 1))
    if c is None:
        shutil.rmtree(d, ignore_errors=True)
        return
    hide_all = rng.random() < 0.07
    args = c.args + (['--suppress=unmatchedSuppression'] if hide_all else [])
    a1 = cases.analyse(c.src, args + c.sources)
    ctx.ev()
    if a1.res.timed_out:
        ctx.inconclusive('watchdog fired on case %d' % idx)
        return
    if b'cppcheck: error:' in a1.res.out:
        ctx.count('rejected-command-lines', a1.res.otext().split('cppcheck: error:', 1)[1].strip()[:50])
        shutil.rmtree(d, ignore_errors=True)
        return
    if not a1.xml_ok or cases.crashed(a1.res):
        ctx.violation('case:%s:j1:crash-or-bad-xml' % c.sig, 'run crashed or produced malformed XML (rc=%s)\n%s'
                      % (a1.rc, a1.res.etext()[-800:]), files={'project': '@' + c.src, 'opt': '@' + os.path.join(d, 'opt')},
                      cmd=a1.res.cmdline())
        return
    files = {'project': '@' + c.src, 'opt': '@' + os.path.join(d, 'opt')}
    cmd = 'cd project && %s   # ground truth: %s' % (a1.res.cmdline(), ' '.join(c.base + c.sources))
    prefix = (c.src + '/') if c.absolute else ''
    c.source_names = set(pm.display(s) for s in c.sources)
    analysed = set(c.source_names) | set(pm.display(prefix + h) for h in _included_headers(c.proj))
    f0 = c.f0.findings
    reports = [report_tuple(f) for f in a1.findings if f.id == UNM]
    ms = [s for s in c.supprs if not s.exitcode_only]
    state = {id(s): sm.is_matched(s, f0) for s in ms}
    n_unm = n_matched = n_und = 0
    for s in ms:
        st = state[id(s)]
        if st is True:
            n_matched += 1
        elif st is False:
            n_unm += 1
        else:
            n_und += 1
    if hide_all:
        ctx.count('cases', 'with --suppress=unmatchedSuppression')
        for r in reports:
            ctx.violation('case:%s:global-unmatchedSuppression-suppression:%s' % (c.sig, r[0]),
                          'unmatchedSuppression report %r although --suppress=unmatchedSuppression is given' % (r,),
                          files=files, cmd=cmd)
        if n_unm:
            ctx.trivial_or(c.sig)
        shutil.rmtree(d, ignore_errors=True)
        return
    # (1) never for a matched suppression; every report belongs to a suppression
    for r in sorted(set(reports)):
        origins = [s for s in ms if possible(s, r)]
        if not origins:
            same_id = [s for s in ms if s.id == r[0]]
            ctx.violation('case:%s:j1:report-without-suppression:%s' % (c.sig, r[0]),
                          'unmatchedSuppression report %r corresponds to no suppression at that location; '
                          'suppressions with this id: %r' % (r, same_id[:5]), files=files, cmd=cmd)
            continue
        if all(state[id(s)] is True for s in origins):
            ctx.violation('case:%s:j1:reported-although-matched:%s' % (c.sig, r[0]),
                          'unmatchedSuppression report %r, but every suppression it can stem from matches a ground-truth '
                          'finding: %r' % (r, origins[:4]), files=files, cmd=cmd)
        ctx.count('reports', 'attributed')
        if reports.count(r) > 1:
            ctx.violation('case:%s:j1:duplicate-report:%s' % (c.sig, r[0]), 'report %r appears %d times'
                          % (r, reports.count(r)), files=files, cmd=cmd)
    # (2) rule-covered unmatched suppressions are reported once, at their recorded location
    njudged = 0
    for s in ms:
        exp = judged_class(s, c, analysed)
        cls = '%s-%s%s' % (s.origin, s.kind, '' if exp else '(1,3 only)')
        ctx.count('suppression_classes', cls)
        if exp is None or state[id(s)] is not False:
            continue
        njudged += 1
        hits = [r for r in set(reports) if r[0] == exp[0] and pm.display(r[1]) == pm.display(exp[1]) and r[2] == exp[2]]
        if not hits:
            near = [r for r in reports if r[0] == exp[0]]
            ctx.violation('case:%s:j1:unmatched-not-reported:%s' % (c.sig, s.id),
                          'suppression %r matches no ground-truth finding but no unmatchedSuppression report names it at '
                          '%r; reports with this id: %r' % (s, exp[1:3], near[:5]), files=files, cmd=cmd)
            continue
        if exp[3] is not None and s.origin == 'inline':
            if any(r[3] == exp[3] for r in hits):
                ctx.count('columns', 'before-code-column-as-expected')
            else:
                ctx.violation('case:%s:j1:unmatched-column:%s' % (c.sig, s.id),
                              'inline suppression %r: report column %r, the code it applies to starts at column %d'
                              % (s, [r[3] for r in hits], exp[3]), files=files, cmd=cmd)
        elif s.origin == 'inline':
            ctx.count('columns', 'same-line-comment (column not judged)')
    ctx.count('suppressions', 'matched', n_matched)
    ctx.count('suppressions', 'unmatched', n_unm)
    ctx.count('suppressions', 'undecided', n_und)
    ctx.count('suppressions', 'unmatched-and-rule-covered', njudged)
    # (3) executors
    nex = 0
    if idx % 2 == 0 and len(c.sources) >= 2 and double_covered(c, ms, f0):
        ctx.count('generator-exclusions', 'finding hidden in worker + global suppression: not run under -jN (known findings case:witness-double-cover, case:witness-hidden-in-worker)')
    elif idx % 2 == 0 and len(c.sources) >= 2:
        def canon(a):
            return [f for f in a.findings if f.id == UNM
                    and not cases.glob_hits_whole_program(f.msg.rsplit(': ', 1)[-1])]
        ref = canon(a1)
        for ex in ('thread', 'process'):
            env = {'VERIF_SCHED_SEED': str(ctx.seed * 1000 + idx), 'VERIF_SCHED_MAX_US': str(rng.choice([200, 2000]))}
            a = cases.analyse(c.src, [x for x in args if x != '-j1'] + ['-j%d' % rng.choice([2, 3, 4]), '--executor=' + ex]
                              + c.sources, env=env)
            ctx.ev()
            if a.res.timed_out:
                ctx.inconclusive('watchdog fired on case %d %s' % (idx, ex))
                continue
            if not a.xml_ok or cases.crashed(a.res):
                ctx.violation('case:%s:j1-vs-%s:crash-or-bad-xml' % (c.sig, ex), 'run crashed (rc=%s)\n%s'
                              % (a.rc, a.res.etext()[-800:]), files=files, cmd=a.res.cmdline())
                continue
            oa, ob = findings.diff(ref, canon(a))
            nex += 1
            ctx.count('executor_runs', ex)
            if oa or ob:
                first = (oa or ob)[0]
                ctx.violation('case:%s:j1-vs-%s:%s' % (c.sig, ex, first[3].rsplit(': ', 1)[-1]),
                              'unmatchedSuppression reports differ between -j1 and %s executor\n%s'
                              % (ex, cases.fmt_diff(oa, ob, '-j1', ex)), files=files,
                              cmd='cd project && %s\nenv: %r' % (a.res.cmdline(), env))
    if n_unm >= 1 and n_matched >= 1 and reports:
        ctx.trivial_or(c.sig)
    ctx.sample({'options': [a.replace(d, '.') for a in args], 'sources': len(c.sources), 'suppressions': len(ms),
                'matched': n_matched, 'unmatched': n_unm, 'undecided': n_und, 'unmatched_reports': len(reports),
                'rule_covered_unmatched': njudged, 'executor_runs': nex})
    shutil.rmtree(d, ignore_errors=True)


KNOWN_DIR = os.path.join(os.path.dirname(os.path.dirname(os.path.dirname(os.path.abspath(__file__)))), 'known', 'C24')


def _replay_known(ctx):
    """known/C24/double-cover: global suppression + inline suppression of the same finding"""
    src = os.path.join(KNOWN_DIR, 'double-cover')
    if not os.path.isdir(src):
        ctx.inconclusive('witness directory %s missing' % src)
        return
    opts = ['-q', '--enable=information', '--inline-suppr', '--suppress=zerodiv']
    ref = cases.analyse(src, opts + ['-j1', 'a.c', 'b.c'])
    for ex in ('thread', 'process'):
        a = cases.analyse(src, opts + ['-j2', '--executor=' + ex, 'a.c', 'b.c'])
        ctx.ev()
        oa, ob = findings.diff([f for f in ref.findings if f.id == UNM], [f for f in a.findings if f.id == UNM])
        if oa or ob:
            ctx.violation('case:witness-double-cover:j1-vs-%s:zerodiv' % ex,
                          'unmatchedSuppression reports differ between -j1 and %s executor\n%s'
                          % (ex, cases.fmt_diff(oa, ob, '-j1', ex)), files={'project': '@' + src}, cmd=a.res.cmdline())
    opts = ['-q', '--enable=information', '--inline-suppr', '--suppress=memleak:*.c:4']
    ref = cases.analyse(src, opts + ['-j1', 'a.c', 'b.c'])
    for ex in ('thread', 'process'):
        a = cases.analyse(src, opts + ['-j2', '--executor=' + ex, 'a.c', 'b.c'])
        ctx.ev()
        oa, ob = findings.diff([f for f in ref.findings if f.id == UNM], [f for f in a.findings if f.id == UNM])
        if oa or ob:
            ctx.violation('case:witness-hidden-in-worker:j1-vs-%s:memleak' % ex,
                          'unmatchedSuppression reports differ between -j1 and %s executor\n%s'
                          % (ex, cases.fmt_diff(oa, ob, '-j1', ex)), files={'project': '@' + src}, cmd=a.res.cmdline())


def run(ctx):
    ctx.rule = ('case = generated project + suppression set (all forms) analysed with --enable including information; '
                'non-trivial = the model finds >=1 matched and >=1 unmatched suppression and the run emitted >=1 '
                'unmatchedSuppression report')
    _replay_known(ctx)
    n = ctx.n(150, 5000)
    pmap(lambda i: _case(ctx, i), range(n), workers=8)
