"""C27 — Severity and certainty gating is monotone.

Each small input (projgen project with seeded defects, /repo/samples file, slice of a
/repo/test/cfg file) is analysed under every subset of
--enable={warning,style,performance,portability,information} (32) x --inconclusive (2); larger
inputs under random chains S0 c S1 c ... Judged per run: (gate) every reported finding is
allowed by the setting (model vlib/models/severitygate.py); per covering pair of settings:
(monotone) findings(S) is a sub-multiset of findings(S + one more switch) as canonical tuples.
"""
import glob
import itertools
import os
import shutil

from .. import cases, findings
from ..core import sha1
from ..gen import projgen
from ..models import severitygate as sg
from ..run import pmap

PID = 'C27'
FLAVOURS = ['mon']
META = {
    'technique': 'run-to-run relation monitor over the lattice of --enable/--inconclusive settings + per-run gate rule',
    'level_text': 'Sampled exploration of inputs, exhaustive over settings: 32 --enable subsets x 2 certainty settings '
                  'per small input (all covering pairs of the lattice compared), random chains for large inputs.',
    'level_note': 'Inputs are generated projects, the samples directory and prefixes of test/cfg files (with their '
                  'library); -j1, no build dir. The check groups unusedFunction / missingInclude are held constant per '
                  'input.',
    'design_ref': 'DESIGN.md §3 C27',
}

REPO = os.environ.get('VERIF_REPO', '/repo')
SWITCHES = sg.SEVERITIES + ['inconclusive']


def setting_args(setting, extra):
    en = [s for s in sg.SEVERITIES if s in setting] + list(extra)
    a = []
    if en:
        a.append('--enable=' + ','.join(en))
    if 'inconclusive' in setting:
        a.append('--inconclusive')
    return a


def sname(setting):
    return '{' + ','.join(s for s in SWITCHES if s in setting) + '}'


def _slice(path, rng, maxlines=140):
    lines = open(path, errors='replace').read().split('\n')
    if len(lines) <= maxlines:
        return '\n'.join(lines)
    # prelude (comments, includes, defines) + a run of complete top-level blocks
    ends = [i for i, l in enumerate(lines) if l.startswith('}')]
    first_fn = next((i for i, l in enumerate(lines) if l and not l.startswith(('#', '/', ' ', '*')) and i > 5), 0)
    prelude = lines[:first_fn]
    starts = [e + 1 for e in ends if e + 1 >= first_fn]
    if not starts:
        return '\n'.join(lines[:maxlines])
    b = rng.choice(starts[:-1] or starts)
    e = next((x for x in ends if x > b + maxlines // 2), ends[-1])
    return '\n'.join(prelude + lines[b:e + 1]) + '\n'


def make_inputs(ctx, n):
    """-> list of dict(name, files{rel: text}, sources[], args[], extra[])"""
    rng = ctx.subrng('inputs')
    out = []
    samples = sorted(glob.glob(os.path.join(REPO, 'samples', '*', '*.c')) + glob.glob(os.path.join(REPO, 'samples', '*', '*.cpp')))
    cfgs = sorted(glob.glob(os.path.join(REPO, 'test', 'cfg', '*.c')) + glob.glob(os.path.join(REPO, 'test', 'cfg', '*.cpp')))
    rng.shuffle(samples)
    rng.shuffle(cfgs)
    # severity-ladder corpus (checks whose report depends on several switches) on a shipped platform and on platform
    # files with unusual type sizes
    cdir = os.path.join(os.path.dirname(KNOWN_DIR.rstrip('/')).replace('/known', '/corpus'), 'c27')
    plats = {os.path.basename(x): open(x).read() for x in sorted(glob.glob(os.path.join(cdir, '*.xml')))}
    for p in sorted(glob.glob(os.path.join(cdir, '*.c')) + glob.glob(os.path.join(cdir, '*.cpp'))):
        rel = os.path.basename(p)
        text = open(p).read()
        for pl in [None] + sorted(plats):
            files = {rel: text}
            args = ['--library=std']
            if pl:
                files[pl] = plats[pl]
                args.append('--platform=' + pl)
            out.append({'name': 'corpus/%s@%s' % (rel, pl or 'native'), 'files': files, 'sources': [rel], 'args': args,
                        'extra': []})
    n = max(n, len(out) + 10)
    ns = max(1, n // 5)
    nc = max(1, n // 5)
    for p in samples[:ns]:
        if 'syntaxError' in p:
            continue
        rel = os.path.basename(os.path.dirname(p)) + '_' + os.path.basename(p)
        out.append({'name': 'samples/' + rel, 'files': {rel: open(p, errors='replace').read()}, 'sources': [rel],
                    'args': [], 'extra': []})
    for p in cfgs[:nc]:
        lib = os.path.splitext(os.path.basename(p))[0]
        rel = os.path.basename(p)
        text = _slice(p, rng)
        out.append({'name': 'cfg/%s#%s' % (rel, sha1(text)[:6]), 'files': {rel: text}, 'sources': [rel],
                    'args': ['--library=' + lib], 'extra': []})
    i = 0
    while len(out) < n:
        r = ctx.subrng('proj', i)
        i += 1
        proj = projgen.gen(r, nfiles=(1, 3), headers=r.random() < 0.5, ctu=r.random() < 0.3, nsnip=(3, 8))
        extra = r.choice([[], [], [], ['unusedFunction'], ['missingInclude']])
        files, args = dict(proj.files), []
        pl = r.choice([None, None, 'unix32', 'win64', 'avr8'] + sorted(plats))
        if pl:
            args.append('--platform=' + pl.replace('.xml', '') if pl not in plats else '--platform=' + pl)
            if pl in plats:
                files[pl] = plats[pl]
        out.append({'name': 'projgen/' + proj.digest() + ('@' + pl if pl else ''), 'files': files, 'sources': proj.sources,
                    'args': args, 'extra': extra})
    return out


def run_setting(d, inp, setting):
    return cases.analyse(d, ['-q', '-j1'] + inp['args'] + setting_args(setting, inp['extra']) + inp['sources'])


def check_gate(ctx, inp, setting, a, files):
    enabled = [s for s in sg.SEVERITIES if s in setting] + inp['extra']
    for f in a.findings:
        why = sg.allowed(f, enabled, 'inconclusive' in setting)
        ctx.count('findings_by_severity', f.severity + ('/inconclusive' if f.inconclusive else ''))
        if why:
            # key = the rule that is broken: the severity rule names the severity, the certainty rule 'inconclusive'
            ctx.violation('gate:%s:%s:%s' % (f.id, 'inconclusive' if why.startswith('inconclusive') else f.severity,
                                             sname(setting)),
                          '%s: finding %s reported under setting %s (%s)' % (inp['name'], findings.short(f), sname(setting), why),
                          files=files, cmd='cd input && ' + a.res.cmdline())


def check_mono(ctx, inp, lo, hi, a_lo, a_hi, files):
    only_lo, _ = findings.diff(a_lo.findings, a_hi.findings)
    # sub-multiset: nothing of the smaller setting may be missing or altered in the larger one
    m_lo, m_hi = findings.multiset(a_lo.findings), findings.multiset(a_hi.findings)
    missing = [k for k in m_lo if m_lo[k] > m_hi.get(k, 0)]
    for k in sorted(missing, key=repr)[:5]:
        similar = [h for h in m_hi if h[0] == k[0] and h[5][:1] == k[5][:1]]
        ctx.violation('mono:%s:%s⊂%s' % (k[0], sname(lo), sname(hi)),
                      '%s: finding %r reported under %s is missing or altered under %s%s'
                      % (inp['name'], (k[0], k[1], k[2], k[3], k[5][:1]), sname(lo), sname(hi),
                         ('; same id at that place now: %r' % [(h[1], h[2], h[3]) for h in similar[:2]]) if similar else ''),
                      files=files, cmd='cd input && %s\n# versus\n%s' % (a_lo.res.cmdline(), a_hi.res.cmdline()))
    return not missing


def _input(ctx, k, inp, full):
    d = ctx.tmpdir('i%d' % k)
    for rel, text in inp['files'].items():
        cases.write(os.path.join(d, rel), text)
    files = {'input': '@' + d}
    results = {}

    def get(setting):
        key = frozenset(setting)
        if key not in results:
            a = run_setting(d, inp, key)
            ctx.ev()
            if a.res.timed_out:
                ctx.inconclusive('watchdog fired on %s %s' % (inp['name'], sname(key)))
                results[key] = None
            elif not a.xml_ok or cases.crashed(a.res):
                ctx.violation('gate:crash:%s:%s' % (inp['name'], sname(key)), 'run crashed or bad XML (rc=%s)\n%s'
                              % (a.rc, a.res.etext()[-600:]), files=files, cmd=a.res.cmdline())
                results[key] = None
            else:
                check_gate(ctx, inp, key, a, files)
                results[key] = a
        return results[key]

    pairs = 0
    if full:
        settings = [frozenset(c) for r in range(len(SWITCHES) + 1) for c in itertools.combinations(SWITCHES, r)]
        for s in settings:
            get(s)
        for s in settings:
            for x in SWITCHES:
                if x not in s:
                    a, b = get(s), get(s | {x})
                    if a is not None and b is not None:
                        check_mono(ctx, inp, s, s | {x}, a, b, files)
                        pairs += 1
    else:
        rng = ctx.subrng('chain', inp['name'])
        for _ in range(3):
            order = list(SWITCHES)
            rng.shuffle(order)
            s = frozenset()
            for x in order:
                a, b = get(s), get(s | {x})
                if a is not None and b is not None:
                    check_mono(ctx, inp, s, s | {x}, a, b, files)
                    pairs += 1
                s = s | {x}
    ctx.count('pairs_compared', 'full-lattice' if full else 'chains', pairs)
    sets = set()
    nonerr = 0
    for a in results.values():
        if a is not None:
            sets.add(tuple(sorted(findings.multiset(a.findings).items(), key=repr)))
            nonerr += sum(1 for f in a.findings if f.severity != 'error')
    ctx.count('inputs', inp['name'].split('/')[0])
    ctx.count('distinct_finding_sets_per_input', min(len(sets), 12))
    if len(sets) >= 2 and nonerr:
        ctx.trivial_or(inp['name'])
    top = results.get(frozenset(SWITCHES))
    ctx.sample({'input': inp['name'], 'extra_groups': inp['extra'], 'settings_run': len(results),
                'distinct_finding_sets': len(sets), 'findings_all_enabled': len(top.findings) if top else None})
    shutil.rmtree(d, ignore_errors=True)


KNOWN_DIR = os.path.join(os.path.dirname(os.path.dirname(os.path.dirname(os.path.abspath(__file__)))), 'known', 'C27')


def _replay_known(ctx):
    """known/C27/outofmemory: warning-severity findings reported without --enable=warning"""
    src = os.path.join(KNOWN_DIR, 'outofmemory')
    if not os.path.isdir(src):
        ctx.inconclusive('witness directory %s missing' % src)
        return
    inp = {'name': 'known/outofmemory', 'files': {n: open(os.path.join(src, n)).read() for n in ('m.c', 'r.c')},
           'sources': ['m.c', 'r.c'], 'args': [], 'extra': []}
    _input(ctx, 99999, inp, True)


def run(ctx):
    ctx.rule = ('input = small source set analysed under all 64 settings (or chains); non-trivial = the runs produced >=2 '
                'distinct finding multisets and >=1 non-error finding, i.e. the gate really opened and closed')
    _replay_known(ctx)
    n = ctx.n(30, 400)
    inputs = make_inputs(ctx, n)
    pmap(lambda t: _input(ctx, t[0], t[1], True), list(enumerate(inputs)), workers=12)
    if not ctx.quick():
        # large inputs: whole test/cfg files under random chains
        big = sorted(glob.glob(os.path.join(REPO, 'test', 'cfg', '*.c')) + glob.glob(os.path.join(REPO, 'test', 'cfg', '*.cpp')))
        big = [p for p in big if 150 < sum(1 for _ in open(p, errors='replace')) <= 900]   # a run must stay far below the watchdog
        rng = ctx.subrng('big')
        rng.shuffle(big)
        nb = ctx.n(0, 12)
        items = []
        for p in big[:nb]:
            rel = os.path.basename(p)
            items.append({'name': 'cfgfile/' + rel, 'files': {rel: open(p, errors='replace').read()}, 'sources': [rel],
                          'args': ['--library=' + os.path.splitext(rel)[0]], 'extra': []})
        pmap(lambda t: _input(ctx, 10000 + t[0], t[1], False), list(enumerate(items)), workers=6)
