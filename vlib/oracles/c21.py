"""C21 — A crashing worker process is contained (fault enumeration, hook H4).

For a generated project analysed with --executor=process -j{2,4,8} --error-exitcode=E:
  1. a fault-free run with VERIF_WORKER_LOG records, per file, the number M of pipe messages its worker
     sends (findings, suppression states, CHILD_END),
  2. for EVERY file x k in {0..M-1, end} x mode in {segv, kill, abort, exit3} the worker of that file is
     made to die before its (k+1)-th message / after CHILD_END (VERIF_WORKER_FAULT; VERIF_WORKER_FIRED
     proves the fault fired), plus random sets of 2-3 simultaneously crashing workers,
  3. oracle per faulty run: the parent terminates (watchdog overrun is re-run once; persistent => `hang`),
     its XML is well-formed and it did not crash itself; for every crashed file there is an error-severity
     cppcheckError/internalError finding located at that file; findings located in all other source
     files equal the fault-free run; findings located in shared headers are a subset of the fault-free
     ones and contain every one that a surviving file produces on its own; no internal error names a
     file that did not crash; exit status == E.
Nothing is asserted about findings located in the crashed file itself. Whole-program ids are outside
the comparison (their inputs include the crashed file).
"""
import os
import shutil

from .. import cases, findings
from .. import run as vrun
from ..run import pmap
from ..gen import projgen, supprgen

PID = 'C21'
FLAVOURS = ['mon'] if os.environ.get('VERIF_C21_NO_ASAN') == '1' else ['mon', 'asan']
LEVEL = 'fault_enumeration'
META = {
    'technique': 'fault enumeration with hook H4 (worker dies before its k-th pipe message / after CHILD_END by '
                 'SIGSEGV, SIGKILL, abort, _exit(3)); differential against the fault-free run',
    'level_text': 'Exhaustive over single faults of the clean/dirty workloads: every file x every message position '
                  '(before the first, between any two, after CHILD_END) x four death modes, for the job count of '
                  'the case (2, 4 or 8), on clean projects (fault-free exit status 0, so the exit status is '
                  'attributable to the crash alone) and on projects with findings, shared headers, inline '
                  'suppressions; for --enable=all workloads (about 200 logChecker bookkeeping messages per worker, '
                  'optional build dir) every position next to a finding/suppression/end message for all modes and a '
                  'sample of the positions between two bookkeeping messages; plus sampled sets of 2-3 simultaneous '
                  'crashes and a sample on the ASan+UBSan build.',
    'level_note': 'Projects and multi-crash sets are sampled; positions are message boundaries of the worker '
                  '(a death inside a write() is not distinguished from one before it, the pipe write of one '
                  'field is atomic); schedules of the parent event loop are whatever occurred.',
    'design_ref': 'DESIGN.md §3 C21',
}

MODES = ['segv', 'kill', 'abort', 'exit3']
TIMEOUT = {'mon': 90, 'asan': 300}
KNOWN_AFTER_EXIT = 'worker-fault:after:%s:exit-status-lost'


class _Case:
    pass


def _posclass(k):
    return 'after' if k == 'end' else ('before' if k == 0 else 'between')


def _read_tsv(path):
    rows = []
    if os.path.exists(path):
        for line in open(path, errors='replace'):
            t = line.rstrip('\n').split('\t')
            if len(t) >= 2:
                rows.append(t)
    return rows


def _is_internal(f):
    return (f.id in ('cppcheckError', 'internalError') and f.severity == 'error'
            and 'nternal error' in f.msg)


def _loc_file(f):
    return f.locs[0][0] if f.locs else ''


def _comparable(fs):
    """whole-program ids are outside the comparison, and so is the matched-state of an inline suppression
    *of* such an id (it is matched by the whole-program phase, whose input includes the crashed file)"""
    return [f for f in fs if not cases.is_whole_program(f.id)
            and not (f.id == 'unmatchedSuppression' and cases.glob_hits_whole_program(f.msg.rsplit(': ', 1)[-1]))]


def _mkcase(ctx, ci, kind, wdir=None):
    """kind: 'clean' | 'dirty' | 'witness'"""
    C = _Case()
    rng = ctx.subrng('case', ci, kind)
    C.ci = ci
    C.kind = kind
    C.dir = ctx.tmpdir('c%s_%s' % (ci, kind))
    C.src = os.path.join(C.dir, 'src')
    C.E = rng.choice([1, 3, 7, 42])
    C.jobs = rng.choice([2, 4, 8])
    C.use_bd = False
    nf = (3, 4) if ctx.quick() else (3, 10)
    if kind == 'witness':
        proj = projgen.Project()
        for name in sorted(os.listdir(wdir)):
            if name.endswith('.c'):
                proj.files[name] = open(os.path.join(wdir, name)).read()
                proj.sources.append(name)
        C.E, C.jobs = 7, 2
        C.opts = ['-q']
    elif kind == 'clean':
        proj = projgen.gen(rng, nfiles=nf, headers=True, ctu=False,
                           snippet_filter=lambda s: s[0] in ('clean1', 'clean2'))
        C.opts = ['-q'] + (['--enable=warning,portability'] if rng.random() < 0.5 else [])
    else:
        # 'dirty': findings but no information severity and no build dir => no logChecker traffic, the
        #          worker sends few messages and every position is enumerated;
        # 'info' : --enable=all (unmatchedSuppression reporting, ~200 logChecker messages per worker),
        #          optionally a build dir: positions next to every finding/suppression message, the ends,
        #          and a sample of the positions between two logChecker messages
        proj = projgen.gen(rng, nfiles=nf, headers=True, ctu=True, nsnip=(1, 3) if ctx.quick() else (2, 7))
        if kind == 'dirty':
            C.opts = ['-q', '--enable=warning,style,performance,portability', '--inline-suppr']
        else:
            C.opts = ['-q', '--enable=all', '--inline-suppr']
        if rng.random() < 0.5:
            C.opts.append('--inconclusive')
        proj.write(C.src)
        a0 = cases.analyse(C.src, C.opts + ['-j1'] + proj.sources, timeout=TIMEOUT['mon'])
        shutil.rmtree(C.src)
        proj, _ins = supprgen.add_inline(rng, proj, a0.findings, frac=0.25, unmatched=0, in_headers=False)
        for _ in range(rng.randint(0, 3)):
            v = rng.choice(proj.sources)
            lines = proj.files[v].split('\n')
            lines.insert(rng.randint(1, len(lines) - 1), '// cppcheck-suppress %s' % rng.choice(supprgen.UNLIKELY_IDS))
            proj.files[v] = '\n'.join(lines)
        C.use_bd = kind == 'info' and rng.random() < 0.4
    proj.write(C.src)
    C.proj = proj
    C.digest = proj.digest()
    C.args = C.opts + ['--executor=process', '-j%d' % C.jobs, '--error-exitcode=%d' % C.E]
    C.n = 0
    return C


def _run(C, flavour, env, tag):
    args = list(C.args)
    bd = None
    if C.use_bd:
        bd = os.path.join(C.dir, 'bd_' + tag)
        os.makedirs(bd, exist_ok=True)
        args.append('--cppcheck-build-dir=' + bd)
    a = cases.analyse(C.src, args + C.proj.sources, flavour=flavour, env=env, timeout=TIMEOUT[flavour])
    if bd:
        shutil.rmtree(bd, ignore_errors=True)
    return a


def _baseline(ctx, C, flavour='mon'):
    """fault-free run (+ message counts) and solo runs for the attribution of header findings"""
    wl = os.path.join(C.dir, 'workerlog_%s.tsv' % flavour)
    ff = _run(C, flavour, {'VERIF_WORKER_LOG': wl}, 'ff_' + flavour)
    if ff.res.timed_out or not ff.xml_ok or cases.crashed(ff.res):
        return False
    if flavour == 'mon':
        ff2 = _run(C, flavour, None, 'ff2_' + flavour)
        oa, ob = findings.diff(_comparable(ff.findings), _comparable(ff2.findings))
        if oa or ob or ff.rc != ff2.rc:
            ctx.count('skipped', 'fault-free-run-not-reproducible')
            return False
    C.ff = ff
    C.M = {}
    for t in _read_tsv(wl):
        C.M[t[0]] = int(t[1])
    if set(C.M) != set(C.proj.sources):
        ctx.count('skipped', 'worker-log-incomplete')
        return False
    C.ff_rc = ff.rc
    srcs = set(C.proj.sources)
    C.ff_cmp = _comparable(ff.findings)
    if any(_is_internal(f) for f in C.ff_cmp):
        ctx.count('skipped', 'fault-free-run-has-internal-error')
        return False
    # which surviving file produces which header-located finding on its own
    C.solo_hdr = {}
    hdr = [f for f in C.ff_cmp if _loc_file(f) not in srcs]
    if hdr:
        for s in C.proj.sources:
            a = cases.analyse(C.src, C.opts + ['-j1', s], flavour='mon', timeout=TIMEOUT['mon'])
            C.solo_hdr[s] = set(findings.key(f) for f in a.findings if _loc_file(f) not in srcs)
    return True


def _specs_text(specs):
    return ','.join('%s:%s:%s' % s for s in specs)


def _fault_run(ctx, C, specs, flavour, tag):
    """-> (Analysis|None, fired set). Re-runs once on watchdog overrun."""
    firedf = os.path.join(C.dir, 'fired_%s' % tag)
    env = {'VERIF_WORKER_FAULT': _specs_text(specs), 'VERIF_WORKER_FIRED': firedf}
    a = _run(C, flavour, env, tag)
    if a.res.timed_out:
        ctx.count('watchdog', 'overrun-first-attempt')
        if os.path.exists(firedf):
            os.unlink(firedf)
        a = _run(C, flavour, env, tag + 'r')
    fired = set((t[0], t[1], t[2]) for t in _read_tsv(firedf) if len(t) >= 3)
    if os.path.exists(firedf):
        os.unlink(firedf)
    return a, fired


def _check(ctx, C, specs, flavour, tag):
    """run one fault set and apply the oracle; -> True if the faults fired and everything was observed"""
    a, fired = _fault_run(ctx, C, specs, flavour, tag)
    ctx.ev()
    want = set((f, str(k), m) for f, k, m in specs)
    pos = sorted(set(_posclass(k) for _f, k, _m in specs))
    modes = sorted(set(m for _f, _k, m in specs))
    shape = '%s:%s:j%d' % ('+'.join(pos), '+'.join(modes), C.jobs)
    sfx = '' if flavour == 'mon' else ':' + flavour
    cmd = 'cd project && VERIF_WORKER_FAULT=%s %s' % (_specs_text(specs), a.res.cmdline())
    files = {'project': '@' + C.src}

    def viol(aspect, what):
        ctx.violation('worker-fault:%s:%s:%s%s' % (shape, aspect, C.digest, sfx),
                      'workers made to die: %s (%s, %d files, fault-free exit status %s)\n%s'
                      % (_specs_text(specs), flavour, len(C.proj.sources), C.ff_rc, what), files=files, cmd=cmd)

    if a.res.timed_out:
        ctx.violation('hang:%s:%s%s' % (shape, C.digest, sfx),
                      'cppcheck did not terminate within %d s (twice) after worker fault %s; the fault-free run '
                      'takes %.1f s' % (TIMEOUT[flavour], _specs_text(specs), C.ff.res.wall), files=files, cmd=cmd)
        return False
    if fired != want:
        ctx.count('unfired', '%s:%s' % (flavour, '+'.join(pos)))
        return False
    for _f, k, m in specs:
        ctx.count('faults_fired', '%s:%s:%s:j%d' % (flavour, _posclass(k), m, C.jobs))
    crashed = set(f for f, _k, _m in specs)
    srcs = set(C.proj.sources)
    if not a.xml_ok or cases.crashed(a.res):
        viol('parent-crash-or-bad-xml', 'the parent crashed or its XML is malformed (rc=%s)\n%s'
             % (a.rc, a.res.etext()[-1200:]))
        return True
    fa = _comparable(a.findings)
    # with a build dir the killed worker leaves a truncated cache file; the whole-program phase then
    # reports an unlocated internalError "failed to load '<bd>/<stem>.aN' ..." naming that cache file:
    # that is a report about the crashed file (nothing is asserted about those)
    def about_crashed_cache(f):
        if f.id != 'internalError' or f.locs or not C.use_bd:
            return False
        return any("/%s.a" % os.path.splitext(os.path.basename(c))[0] in f.msg for c in crashed)
    n0 = len(fa)
    fa = [f for f in fa if not about_crashed_cache(f)]
    if n0 != len(fa):
        ctx.count('crashed_file_cache_load_errors', flavour, n0 - len(fa))
    internal = [f for f in fa if _is_internal(f)]
    rest = [f for f in fa if not _is_internal(f)]
    # --- an internal error names every crashed file, and no other file
    named = set(_loc_file(f) for f in internal)
    for f in sorted(crashed - named):
        viol('no-internal-error', 'no error-severity cppcheckError/internalError finding located at crashed '
             'file %s; internal errors reported: %r' % (f, [findings.short(x) for x in internal]))
    for f in sorted(named - crashed):
        viol('internal-error-names-other-file', 'internal error located at %r, which did not crash: %r'
             % (f, [findings.short(x) for x in internal if _loc_file(x) == f]))
    ctx.count('internal_errors_seen', flavour, len(internal))
    # --- findings located in other source files are exactly those of the fault-free run
    def part(fs, pred):
        return [f for f in fs if pred(_loc_file(f))]
    others = lambda lf: lf in srcs and lf not in crashed
    oa, ob = findings.diff(part(C.ff_cmp, others), part(rest, others))
    ctx.count('other_file_findings_compared', flavour, len(part(C.ff_cmp, others)))
    if oa or ob:
        viol('other-files:%s' % (oa or ob)[0][0], 'findings located in files whose worker did not crash differ:\n'
             + cases.fmt_diff(oa, ob, 'fault-free', 'with-fault'))
    # --- header / unlocated findings: nothing new; everything a surviving file produces is still there
    nonsrc = lambda lf: lf not in srcs
    ff_h = findings.multiset(part(C.ff_cmp, nonsrc))
    fa_h = findings.multiset(part(rest, nonsrc))
    extra = fa_h - ff_h
    if extra:
        viol('header-extra:%s' % sorted(extra, key=repr)[0][0],
             'findings outside the source files that the fault-free run does not have: %r' % sorted(extra, key=repr)[:4])
    need = set()
    for s in srcs - crashed:
        need |= C.solo_hdr.get(s, set())
    missing = [k for k in ff_h if k in need and k not in fa_h]
    ctx.count('header_findings_required', flavour, len([k for k in ff_h if k in need]))
    if missing:
        viol('header-missing:%s' % sorted(missing, key=repr)[0][0],
             'header findings produced by a surviving file are missing: %r' % sorted(missing, key=repr)[:4])
    # --- exit status
    if C.ff_rc == 0:
        ctx.count('exit_status_attributable_to_crash', '%s:%s:rc=%s' % (flavour, '+'.join(pos), a.rc))
    if a.rc != C.E:
        what = ('exit status %s, expected --error-exitcode=%d (the internal error %s reported)'
                % (a.rc, C.E, 'was' if not (crashed - named) else 'was not'))
        if pos == ['after'] and a.rc == 0 and C.ff_rc == 0:
            # known defect (known/C21.txt): a worker that dies after CHILD_END is reported as internal error
            # by the waitpid branch, which does not touch the result counter
            for m in modes:
                ctx.count('known_defect_reobserved', KNOWN_AFTER_EXIT % m)
                ctx.violation(KNOWN_AFTER_EXIT % m, 'worker died (%s) after CHILD_END: %s' % (m, what),
                              files=files, cmd=cmd)
        else:
            viol('exit-status', what)
    return True


def _enumerate(ctx, C, flavour, singles, sets):
    ok = pmap(lambda t: _check(ctx, C, t[1], flavour, '%s_%d' % (flavour, t[0])),
              list(enumerate(singles + sets)), workers=ctx.workers if flavour == 'mon' else 6)
    return sum(1 for x in ok if x)


def _msgtypes(C, f):
    """message type sequence of the worker of file f ('L' = logChecker bookkeeping message), from a solo
    --debug-ipc run; None if it does not match the message count of the real run"""
    r = vrun.cppcheck(C.args + ['--debug-ipc', f], cwd=C.src, timeout=TIMEOUT['mon'])
    types = []
    for line in r.otext().splitlines():
        if line.startswith('writeToPipe - '):
            t = line[14:15]
            types.append('L' if t == '2' and 'logChecker' in line[15:60] else t)
    return types if len(types) == C.M[f] else None


def _all_singles(ctx, C):
    """-> (list of single-fault specs, exhaustive?)"""
    out = []
    exhaustive = True
    rng = ctx.subrng('positions', C.ci, C.kind)
    for f in C.proj.sources:
        M = C.M[f]
        ks = list(range(M))
        sampled = []
        if C.kind == 'info' and M > 24:
            types = _msgtypes(C, f)
            if types:
                keep = {0, M - 1}
                for i, t in enumerate(types):
                    if t != 'L':
                        keep.add(i)
                        keep.add(min(i + 1, M - 1))
                interior = [k for k in ks if k not in keep]
                sampled = rng.sample(interior, min(len(interior), 3 if ctx.quick() else 12))
                ks = sorted(keep)
                ctx.count('positions', 'info:next-to-finding-or-suppression-or-end', len(ks))
                ctx.count('positions', 'info:between-logChecker-sampled', len(sampled))
                ctx.count('positions', 'info:between-logChecker-not-enumerated', len(interior) - len(sampled))
            else:
                ks = sorted(set([0, M - 1] + rng.sample(ks, 12)))
                ctx.count('positions', 'info:type-sequence-unavailable-sampled', len(ks))
            exhaustive = False
        for k in ks + ['end']:
            modes = MODES
            if ctx.quick() and not exhaustive and k not in (0, M - 1, 'end'):
                modes = rng.sample(MODES, 2)    # quick tier, --enable=all workload: 2 of the 4 modes inside
            for m in modes:
                out.append([(f, k, m)])
        for k in sampled:
            out.append([(f, k, rng.choice(MODES))])
    return out, exhaustive


def _random_sets(ctx, C, n):
    rng = ctx.subrng('sets', C.ci, C.kind)
    out = []
    for _ in range(n):
        files = rng.sample(C.proj.sources, min(len(C.proj.sources), rng.choice([2, 2, 3])))
        spec = []
        for f in files:
            k = rng.choice(list(range(C.M[f])) + ['end', 0])
            spec.append((f, k, rng.choice(MODES)))
        out.append(spec)
    return out


def _do_case(ctx, ci, kind, wdir=None):
    import time
    t0 = time.time()
    C = _mkcase(ctx, ci, kind, wdir)
    try:
        if not _baseline(ctx, C):
            ctx.count('skipped', 'baseline-unusable:' + kind)
            return
        if kind == 'clean' and C.ff_rc != 0:
            kind = C.kind = 'dirty'
        if kind != 'clean' and C.ff_rc == 0:
            ctx.count('cases', 'note:%s-case-without-findings' % kind)
        ctx.count('cases', '%s:j%d%s' % (kind, C.jobs, ':build-dir' if C.use_bd else ''))
        exhaustive = True
        if kind == 'witness':
            singles = [[(C.proj.sources[0], 'end', m)] for m in MODES]
            sets = []
        else:
            singles, exhaustive = _all_singles(ctx, C)
            sets = _random_sets(ctx, C, ctx.n(5, 40))
        n = _enumerate(ctx, C, 'mon', singles, sets)
        with ctx.lock:
            e = ctx.cov.setdefault('enumeration', {'exhaustive_single_faults': True, 'single_faults': 0,
                                                   'multi_fault_sets': 0, 'fired_and_checked': 0,
                                                   'cases_all_positions': 0, 'cases_boundary_positions': 0})
            e['cases_all_positions' if exhaustive else 'cases_boundary_positions'] += 1
            e['single_faults'] += len(singles)
            e['multi_fault_sets'] += len(sets)
            e['fired_and_checked'] += n
            if n < len(singles) + len(sets) and exhaustive:
                e['exhaustive_single_faults'] = False
        if kind != 'witness':
            nother = len([f for f in C.ff_cmp if _loc_file(f) in C.proj.sources])
            if n >= 0.9 * (len(singles) + len(sets)) and (C.ff_rc == 0 or nother >= 2):
                ctx.trivial_or('%s:j%d:%s' % (C.digest, C.jobs, kind))
            if n < 0.9 * (len(singles) + len(sets)):
                ctx.inconclusive('only %d of %d worker faults fired (case %s %s)' % (n, len(singles) + len(sets), ci, kind))
            ctx.sample({'kind': kind, 'files': len(C.proj.sources), 'jobs': C.jobs, 'E': C.E, 'build_dir': C.use_bd,
                        'messages_per_worker': C.M, 'fault_free_exit': C.ff_rc, 'single_faults': len(singles),
                        'multi_sets': len(sets), 'fired_and_checked': n, 'options': C.opts})
        return C
    finally:
        ctx.count('wall_s_by_case_kind', kind, round(time.time() - t0, 1))
        shutil.rmtree(C.dir, ignore_errors=True)


def _asan_sample(ctx, ci, nfaults):
    """a sample of single faults and sets on the ASan+UBSan build (own fault-free baseline)"""
    import time
    t0 = time.time()
    C = _mkcase(ctx, 'a%d' % ci, ('dirty', 'clean', 'info')[ci % 3])
    C.use_bd = False
    try:
        if not _baseline(ctx, C, 'asan'):
            ctx.count('skipped', 'baseline-unusable:asan')
            return
        rng = ctx.subrng('asan', ci)
        singles, _ex = _all_singles(ctx, C)
        rng.shuffle(singles)
        picked = singles[:nfaults] + _random_sets(ctx, C, max(1, nfaults // 4))[:max(1, nfaults // 4)]
        n = _enumerate(ctx, C, 'asan', picked, [])
        ctx.count('cases', 'asan-sample:j%d' % C.jobs)
        if n >= 0.9 * len(picked):
            ctx.trivial_or('%s:j%d:asan' % (C.digest, C.jobs))
    finally:
        ctx.count('wall_s_by_case_kind', 'asan-sample', round(time.time() - t0, 1))
        shutil.rmtree(C.dir, ignore_errors=True)


def run(ctx):
    from ..core import VERIF
    ctx.rule = ('case = (project, job count); every file x message position {0..M-1,end} x death mode is injected '
                'once (plus sampled 2-3 worker sets); non-trivial = >=90% of the injected faults really fired '
                '(VERIF_WORKER_FIRED) and were checked, and either the fault-free exit status is 0 (exit status '
                'attributable to the crash alone) or >=2 findings of surviving files were compared')
    ctx.workers = 12
    wdir = os.path.join(VERIF, 'known', 'C21', 'after-end-exit')
    if os.path.isdir(wdir):
        _do_case(ctx, 'w', 'witness', wdir)
    import threading
    asan_thread = None
    if os.environ.get('VERIF_C21_NO_ASAN') == '1':   # sensitivity experiments on a mutated tree (mon build only)
        ctx.assumptions.append('asan sample skipped (VERIF_C21_NO_ASAN=1)')
    else:
        # the ASan sample is mostly waiting for slow process starts: overlap it with the mon enumeration
        def asan_part():
            try:
                for ci in range(ctx.n(1, 6)):
                    _asan_sample(ctx, ci, ctx.n(4, 40))
            except Exception as e:     # never lose a harness error of the side thread
                import traceback
                traceback.print_exc()
                ctx.inconclusive('asan sample failed with %r' % (e,))
        asan_thread = threading.Thread(target=asan_part)
        asan_thread.start()
    n = ctx.n(3, 36)
    try:
        pmap(lambda ci: _do_case(ctx, ci, ('clean', 'dirty', 'info')[ci % 3]), range(n), workers=2)
    finally:
        if asan_thread:
            asan_thread.join()
