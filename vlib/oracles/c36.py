"""C36 — The HTML report lists every reported finding.

Monitor: generated XML-v2 result files (vlib/gen/xmlgen.py) and real `cppcheck --xml` outputs are fed
to /repo/htmlreport/cppcheck-htmlreport; index.html and the per-file pages are parsed with
html.parser and compared, as multisets, with the findings of the XML file: every <error> is exactly
one index row with its file, line, id, severity and (after HTML un-escaping by the parser) its
message, no markup from the message survives; readable sources get a page whose annotations are
exactly the findings located in them; unreadable sources keep their findings in the index.
"""
import collections
import html.parser
import os
import shutil
import xml.sax
import xml.sax.handler

from .. import build, cases
from ..core import sha1
from ..gen import xmlgen
from ..run import pmap, cppcheck, run as run_cmd, base_env

PID = 'C36'
FLAVOURS = ['mon']
META = {
    'technique': 'conservation monitor over cppcheck-htmlreport outputs: html.parser read-back of index.html and '
                 'per-file pages vs. the findings of the input XML',
    'level_text': 'Sampled exploration: generated XML-v2 result files (0-300 findings, HTML-special/non-ASCII texts, '
                  'unknown severities, missing/binary/directory/dangling/empty sources, several locations, line 0 and '
                  'beyond EOF, duplicates) plus real --xml outputs of the built cppcheck; every run of the tool is '
                  'read back completely. Evidence counts findings, rows, pages and annotations compared.',
    'level_note': 'Runs as root, so "unreadable" sources are emulated by directories and dangling symlinks; '
                  'classification/guideline (MISRA report type, which replaces the severity column by design) and the '
                  'git-blame columns are not exercised.',
    'design_ref': 'DESIGN.md §3 C36',
}

TOOL = os.path.join(build.REPO, 'htmlreport', 'cppcheck-htmlreport')
KNOWN_DIR = os.path.join(os.path.dirname(os.path.dirname(os.path.dirname(os.path.abspath(__file__)))), 'known', 'C36')


# ------------------------------------------------------------------ reading the XML as a consumer does
class _H(xml.sax.handler.ContentHandler):
    def __init__(self):
        super().__init__()
        self.errors = []

    def startElement(self, name, a):
        if name == 'error':
            self.errors.append({'id': a.get('id', ''), 'severity': a.get('severity', ''), 'msg': a.get('msg', ''),
                                'verbose': a.get('verbose'), 'cwe': a.get('cwe'), 'inconclusive': a.get('inconclusive'),
                                'locations': []})
        elif name == 'location' and self.errors:
            self.errors[-1]['locations'].append((a.get('file', ''), int(a.get('line', '0')), a.get('info') or ''))


def read_xml(path):
    h = _H()
    xml.sax.parse(path, h)
    return h.errors


# ------------------------------------------------------------------ reading the HTML back
class IndexParser(html.parser.HTMLParser):
    """rows of <table class="summaryTable">: groups (tbody.fileEntry) = header row + issue rows"""

    def __init__(self):
        super().__init__(convert_charrefs=True)
        self.in_table = False
        self.groups = []        # [{'file': text, 'href': .., 'rows': [ [cell, ...] ]}]
        self.cell = None        # current cell: {'text': '', 'tags': [], 'href': None}
        self.row = None
        self.row_class = ''
        self.stray = []

    def handle_starttag(self, tag, attrs):
        a = dict(attrs)
        if tag == 'table' and 'summaryTable' in (a.get('class') or ''):
            self.in_table = True
            return
        if not self.in_table:
            return
        if tag == 'tbody':
            self.groups.append({'file': None, 'href': None, 'rows': []})
        elif tag == 'tr':
            self.row = []
            self.row_class = a.get('class') or ''
        elif tag in ('td', 'th'):
            self.cell = {'text': '', 'tags': [], 'href': None, 'colspan': a.get('colspan'), 'th': tag == 'th'}
        elif self.cell is not None:
            self.cell['tags'].append(tag)
            if tag == 'a' and self.cell['href'] is None:
                self.cell['href'] = a.get('href')
        else:
            self.stray.append(tag)

    def handle_endtag(self, tag):
        if not self.in_table:
            return
        if tag == 'table':
            self.in_table = False
        elif tag in ('td', 'th') and self.cell is not None:
            if self.row is not None:
                self.row.append(self.cell)
            self.cell = None
        elif tag == 'tr' and self.row is not None:
            if self.groups and self.row and not self.row[0]['th']:
                g = self.groups[-1]
                if self.row[0]['colspan'] and g['file'] is None and 'issue' not in self.row_class:
                    g['file'] = self.row[0]['text']
                    g['href'] = self.row[0]['href']
                    g['header_tags'] = self.row[0]['tags']
                elif 'issue' in self.row_class:
                    g['rows'].append(self.row)
                else:
                    g.setdefault('other', []).append(self.row)
            self.row = None

    def handle_data(self, data):
        if self.cell is not None:
            self.cell['text'] += data


class PageParser(html.parser.HTMLParser):
    """annotations of a per-file page: spans of class error2 / inconclusive2"""

    def __init__(self):
        super().__init__(convert_charrefs=True)
        self.ann = []          # {'text':..., 'tags': [...], 'cls':...}
        self.depth = 0
        self.cur = None
        self.scripts = 0

    def handle_starttag(self, tag, attrs):
        a = dict(attrs)
        if self.cur is not None:
            cls = a.get('class') or ''
            if tag == 'span' and cls == 'marker':
                self.cur['marker'] = True
            else:
                self.cur['tags'].append(tag)
            if tag == 'span':
                self.depth += 1
            return
        if tag == 'span' and (a.get('class') or '') in ('error2', 'inconclusive2'):
            self.cur = {'text': '', 'tags': [], 'cls': a.get('class'), 'marker': False}
            self.depth = 1

    def handle_endtag(self, tag):
        if self.cur is not None and tag == 'span':
            self.depth -= 1
            if self.depth == 0:
                self.ann.append(self.cur)
                self.cur = None

    def handle_data(self, data):
        if self.cur is not None:
            self.cur['text'] += data


# ------------------------------------------------------------------ one judged run of the tool
def judge(ctx, label, xml_path, src_dir, out_dir, file_info=None):
    """run cppcheck-htmlreport on xml_path and compare its output with the XML.
    file_info: callable(relative file) -> number of lines if a readable UTF-8 text file else None"""
    errors = read_xml(xml_path)
    res = run_cmd(['/usr/bin/python3', TOOL, '--file', xml_path, '--report-dir', out_dir, '--source-dir', src_dir,
                   '--title', 'T'], cwd=os.path.dirname(xml_path), env=base_env(), timeout=300)
    ctx.ev()
    cmd = res.cmdline()
    files = {'report.xml': '@' + xml_path, 'src': '@' + src_dir}

    def viol(rule, what):
        ctx.violation('%s:%s' % (label, rule), what, files=files, cmd=cmd)

    if res.timed_out:
        ctx.inconclusive('watchdog fired on htmlreport run %s' % label)
        return None
    if res.rc != 0:
        viol('exit', 'cppcheck-htmlreport exit status %s\n%s' % (res.rc, res.etext()[-1500:]))
        return None
    idx = os.path.join(out_dir, 'index.html')
    if not os.path.exists(idx):
        viol('no-index', 'index.html was not written')
        return None
    p = IndexParser()
    p.feed(open(idx, encoding='utf-8', errors='surrogateescape').read())
    p.close()

    # ---- expected rows
    exp = collections.Counter()
    by_file = collections.OrderedDict()
    for e in errors:
        f = e['locations'][0][0] if e['locations'] else ''
        line = e['locations'][0][1] if e['locations'] else 0
        e['_file'], e['_line'] = f, line
        is_file = f != '' and not f.endswith('*')
        sev = e['severity'] + (', inconcl.' if e['inconclusive'] == 'true' else '')
        exp[(f, str(line) if is_file else '', e['id'], e['cwe'] or '', sev, e['msg'])] += 1
        by_file.setdefault(f, []).append(e)
    got = collections.Counter()
    markup = []
    hdr_markup = []
    for g in p.groups:
        if [t for t in g.get('header_tags', []) if t != 'a']:
            hdr_markup.append((g['file'], g['header_tags']))
        for row in g['rows']:
            cells = row
            if len(cells) < 6:
                got[(g['file'], 'ROW-WITH-%d-CELLS' % len(cells)) + tuple(c['text'] for c in cells)] += 1
                continue
            line_c, id_c, cwe_c, sev_c, msg_c = cells[:5]
            got[(g['file'] or '', line_c['text'], id_c['text'], cwe_c['text'], sev_c['text'], msg_c['text'])] += 1
            if msg_c['tags']:
                markup.append(('message', msg_c['text'], msg_c['tags']))
            if id_c['tags']:
                markup.append(('id', id_c['text'], id_c['tags']))
            if sev_c['tags']:
                markup.append(('severity', sev_c['text'], sev_c['tags']))
    ctx.count('index', 'findings-in-xml', sum(exp.values()))
    ctx.count('index', 'rows-read-back', sum(got.values()))
    missing = exp - got
    extra = got - exp
    if missing or extra:
        m = sorted(missing.elements(), key=repr)
        x = sorted(extra.elements(), key=repr)
        first = (m or x)[0]
        # which field differs? -> name it in the key
        field = 'row'
        if m and x:
            for cand in x:
                diff = [n for n, a_, b_ in zip(('file', 'line', 'id', 'cwe', 'severity', 'message'), m[0], cand) if a_ != b_]
                if len(diff) == 1:
                    field = diff[0]
                    break
        elif m:
            field = 'row-missing'
        else:
            field = 'row-extra'
        viol('html:index-%s:%s' % (field, sha1(repr(first))),
             'index.html rows differ from the findings of the XML file (file, line, id, cwe, severity, message).\n'
             'findings without their row: %r\nrows without a finding: %r' % (m[:3], x[:3]))
    for kind, txt, tags in markup[:1]:
        viol('html:index-markup-in-%s:%s' % (kind, sha1(txt)), 'markup %r inside the %s cell %r of index.html'
             % (tags, kind, txt))
    for f, tags in hdr_markup[:1]:
        viol('html:index-markup-in-file:%s' % sha1(f or ''), 'markup %r inside the file header row %r' % (tags, f))
    if p.stray:
        viol('html:index-stray-markup', 'unexpected elements between table rows: %r' % p.stray[:5])

    # ---- per-file pages
    pages = 0
    annotations = 0
    # the tool lists the files in sorted order: pair groups and files by position (the header text may be mangled)
    if len(p.groups) == len(by_file):
        href_of = {f: g['href'] for f, g in zip(sorted(by_file), p.groups)}
    else:
        href_of = {g['file'] or '': g['href'] for g in p.groups}
    for f, errs in by_file.items():
        if f == '':
            continue
        nl = file_info(f) if file_info else None
        if nl is None:
            ctx.count('pages', 'source-unreadable (index only)')
            continue
        href = href_of.get(f)
        page = os.path.join(out_dir, href) if href else None
        if not page or not os.path.isfile(page):
            viol('html:page-missing:%s' % sha1(f), 'no per-file page for readable source %r (href %r)' % (f, href))
            continue
        pages += 1
        pp = PageParser()
        pp.feed(open(page, encoding='utf-8', errors='surrogateescape').read())
        pp.close()
        expa = collections.Counter()
        for e in errs:
            for (lf, ll, info) in e['locations']:
                if lf == f and 1 <= ll <= nl:
                    if info:
                        expa['<--- ' + info] += 1
                    elif e['verbose'] is not None and e['verbose'] != e['msg']:
                        expa['<--- ' + e['msg'] + ' [+]'] += 1
                    else:
                        expa['<--- ' + e['msg']] += 1
        gota = collections.Counter(a['text'] for a in pp.ann)
        annotations += sum(gota.values())
        bad_tags = [a for a in pp.ann if a['tags']]
        if expa != gota:
            m = sorted((expa - gota).elements())
            x = sorted((gota - expa).elements())
            viol('html:page-annotation:%s' % sha1(repr((m or x)[0])),
                 'annotations of page %s (source %r) differ from the findings located in it.\nmissing: %r\n'
                 'unexpected: %r' % (href, f, m[:3], x[:3]))
        elif bad_tags:
            viol('html:page-markup:%s' % sha1(bad_tags[0]['text']), 'markup %r inside annotation %r of page %s'
                 % (bad_tags[0]['tags'], bad_tags[0]['text'], href))
    ctx.count('pages', 'read-back', pages)
    ctx.count('pages', 'annotations-compared', annotations)
    return {'findings': sum(exp.values()), 'rows': sum(got.values()), 'pages': pages, 'annotations': annotations}


# ------------------------------------------------------------------ cases
def _materialise(rep, src):
    os.makedirs(src, exist_ok=True)
    for name, (kind, content) in rep.files.items():
        path = os.path.join(src, name)
        os.makedirs(os.path.dirname(path), exist_ok=True)
        if kind == 'text':
            with open(path, 'w', encoding='utf-8', newline='') as f:
                f.write(content)
        elif kind == 'binary':
            with open(path, 'wb') as f:
                f.write(content)
        elif kind == 'dir':
            os.makedirs(path, exist_ok=True)
        elif kind == 'dangling':
            os.symlink('/nonexistent/verif-c36', path)


def _gen_case(ctx, i):
    rng = ctx.subrng('gen', i)
    d = ctx.tmpdir('g%d' % i)
    # generator exclusions named by the known findings in known/C36.txt (html_in_* stay False)
    rep = xmlgen.gen(rng, nmax=60 if ctx.quick() else 300)
    src = os.path.join(d, 'src')
    _materialise(rep, src)
    xp = os.path.join(d, 'report.xml')
    with open(xp, 'w', encoding='utf-8') as f:
        f.write(rep.xml)
    for k, kind in rep.kinds.items():
        ctx.count('source_kinds', kind)
    r = judge(ctx, 'gen:%s' % sha1(rep.xml), xp, src, os.path.join(d, 'out'),
              file_info=lambda f: rep.nlines.get(f) if rep.readable(f) else None)
    if r and r['findings'] >= 1 and r['rows'] >= 1:
        ctx.trivial_or(sha1(rep.xml))
    if r:
        ctx.sample({'findings_in_xml': r['findings'], 'index_rows': r['rows'], 'pages': r['pages'],
                    'annotations': r['annotations'], 'sources': {k: v[0] for k, v in list(rep.files.items())[:5]}})
    shutil.rmtree(d, ignore_errors=True)


# real inputs: kept free of findings whose message contains < > & (known finding
# witness:page-message-unescaped: such a message is copied unescaped into the per-file page)
REAL_SOURCES = {
    'arr.c': 'int f(int x) {\n    int a[2];\n    a[2] = x;\n    return a[0];\n}\n',
    'np.cpp': 'void g(int *p) { *p = 3; }\nint main() {\n    int *p = 0;\n    g(p);\n'
              '    int z = 0;\n    if (z == 0) {}\n    return 0;\n}\n',
    'sub/un.c': 'int h(void) {\n    int u;\n    char c = "abc"[1];\n    return u + c;\n}\n',
}


def _real_case(ctx, i):
    rng = ctx.subrng('real', i)
    d = ctx.tmpdir('r%d' % i)
    src = os.path.join(d, 'src')
    names = rng.sample(sorted(REAL_SOURCES), rng.randint(1, 3))
    for n in names:
        cases.write(os.path.join(src, n), REAL_SOURCES[n])
    opts = ['-q', '--xml', '--enable=' + rng.choice(['all', 'style', 'warning'])]
    if rng.random() < 0.5:
        opts.append('--inconclusive')
    res = cppcheck(opts + names, cwd=src)
    if res.timed_out or cases.crashed(res):
        ctx.count('skipped', 'real-xml-run-unusable')
        return
    xp = os.path.join(d, 'report.xml')
    with open(xp, 'wb') as f:
        f.write(res.err)

    def info(f):
        p = os.path.join(src, f)
        if not os.path.isfile(p):
            return None
        return open(p).read().count('\n')
    r = judge(ctx, 'real:%s' % sha1(res.err), xp, src, os.path.join(d, 'out'), file_info=info)
    ctx.count('real_xml', 'runs')
    if r and r['findings'] >= 1 and r['rows'] >= 1:
        ctx.trivial_or(sha1(res.err))
    shutil.rmtree(d, ignore_errors=True)


def _witnesses(ctx):
    """replay the witnesses of the known findings (known/C36/<name>/{report.xml,src/})"""
    if not os.path.isdir(KNOWN_DIR):
        return
    for name in sorted(os.listdir(KNOWN_DIR)):
        w = os.path.join(KNOWN_DIR, name)
        xp = os.path.join(w, 'report.xml')
        if not os.path.isfile(xp):
            continue
        d = ctx.tmpdir('w-' + name)
        src = os.path.join(d, 'src')
        if os.path.isdir(os.path.join(w, 'src')):
            shutil.copytree(os.path.join(w, 'src'), src)
        else:
            os.makedirs(src)
        x2 = os.path.join(d, 'report.xml')
        shutil.copy(xp, x2)

        def info(f):
            p = os.path.join(src, f)
            try:
                return open(p, encoding='utf-8').read().count('\n') if os.path.isfile(p) else None
            except UnicodeDecodeError:
                return None
        ctx.count('witness_replays', name)
        # stable keys for witnesses: the rule without the per-finding hash
        sub = _Relabel(ctx, 'witness:' + name)
        judge(sub, 'witness:' + name, x2, src, os.path.join(d, 'out'), file_info=info)
        shutil.rmtree(d, ignore_errors=True)


class _Relabel:
    """ctx proxy that drops the trailing per-finding hash from violation keys of witness replays"""

    def __init__(self, ctx, prefix):
        self._ctx = ctx
        self._prefix = prefix

    def __getattr__(self, k):
        return getattr(self._ctx, k)

    def violation(self, key, what, files=None, cmd=None):
        parts = key[len(self._prefix) + 1:].split(':')
        if len(parts) >= 3:
            parts = parts[:-1]
        return self._ctx.violation(self._prefix + ':' + ':'.join(parts), what, files=files, cmd=cmd)


def run(ctx):
    ctx.rule = ('case = one run of cppcheck-htmlreport on a generated (or real --xml) result file with its source tree; '
                'index.html and every per-file page are read back with html.parser; non-trivial = the XML has >= 1 '
                'finding and >= 1 index row was read back and compared')
    ctx.assumptions.append('msg attributes contain no newline (cppcheck splits short/verbose at the first newline); '
                           'no classification/guideline attributes; severity is never empty')
    _witnesses(ctx)
    n_gen = ctx.n(30, 3000)
    n_real = ctx.n(4, 60)
    items = [('g', i) for i in range(n_gen)] + [('r', i) for i in range(n_real)]
    pmap(lambda it: _gen_case(ctx, it[1]) if it[0] == 'g' else _real_case(ctx, it[1]), items,
         workers=4 if ctx.quick() else 8)
