"""C31 — File selection and path matching follow the documented rules.

Part A: a generated directory tree (awkward names, depth <= 6, non-source extensions, no symlinks)
is analysed with `-j1` under a generated list of input paths, `-i` and `--file-filter` patterns.
The analysed files are read from the `Checking <file> ...` lines (order significant) and from the
file names in findings (every generated file holds one null dereference) and compared with the
set computed by the model vlib/models/pathmatch.py (an executable reading of the rules in
lib/pathmatch.h and man/manual.md).
Part B: the same matcher drives suppression file patterns: `--suppress=nullPointer:<pattern>` on a
tree of one-finding files; the files whose finding disappears must be those the model selects.
Cases the documents leave open are run and counted, not judged.
"""
import os
import re
import shutil

from .. import run as runner
from ..core import sha1
from ..gen import treegen
from ..models import pathmatch as pm

PID = 'C31'
FLAVOURS = ['mon']
META = {
    'technique': 'model-based run monitor: analysed-file set (Checking lines, finding file names) vs an executable '
                 'reading of the documented path rules; suppression file patterns through the same model',
    'level_text': 'Sampled exploration: generated directory trees with awkward names x input path spellings x -i / '
                  '--file-filter pattern lists; the observed analysed set, its order, uniqueness and reported names '
                  'are compared with the model. Second workload: (pattern, path) pairs through '
                  '--suppress=nullPointer:<pattern>.',
    'level_note': 'The model is written from lib/pathmatch.h (rules comment), man/manual.md and --help; cases those '
                  'texts do not decide (undocumented extensions .cl/.C/.CPP, explicit non-source files, order across '
                  'several inputs, real patterns against relative finding paths) are counted, not judged. No symlinks.',
    'design_ref': 'DESIGN.md §3 C31',
}

KNOWN_DIR = os.path.join(os.path.dirname(os.path.dirname(os.path.dirname(os.path.abspath(__file__)))), 'known', 'C31')
CHECKING = re.compile(r'^Checking (.*) \.\.\.$')
TEMPLATE = '--template=F\t{id}\t{file}'

# Finding-keyed generator exclusions (see /verif/known/C31.txt). Each construct is replayed from
# its witness on every run and is not generated randomly, so that the random workload does not
# rediscover the same defect in other shapes. The oracle itself is unchanged.
EXCLUSIONS = [
    # key path:-i?*.c:ab.c — a '*'/'**' directly preceded by '?' (or by another star, '***') never
    # backtracks in PathMatch::match: such patterns under-match
    ('star-after-question-mark (known finding path:-i?*.c:ab.c)', re.compile(r'\?\*|\*\*\*')),
    # key path:-isrc//x.c:src/x.c — 'a//b' in a pattern or a path is canonicalised to 'ab'
    ('double-separator (known finding path:-isrc//x.c:src/x.c)', re.compile(r'[^/]//+[^/]')),
    # key path:-id/*/:d/f.c — a directory-only pattern whose last component is only stars also
    # matches regular files of the parent directory
    ('star-only-last-component-with-trailing-separator (known finding path:-id/*/:d/f.c)',
     re.compile(r'(^|/)\*+/+$')),
]


def excluded(ctx, s):
    for name, rx in EXCLUSIONS:
        if rx.search(s):
            ctx.count('generator-exclusions', name)
            return True
    return False


def observe(cwd, args):
    res = runner.cppcheck(['-j1', TEMPLATE] + args, cwd=cwd)
    checked = []
    for line in res.otext().splitlines():
        m = CHECKING.match(line)
        if m:
            checked.append(m.group(1))
    found = []
    for line in res.etext().splitlines():
        if line.startswith('F\t'):
            parts = line.split('\t', 2)
            if len(parts) == 3:
                found.append((parts[1], parts[2]))
    return res, checked, found


def expected_selection(tree, cwd, inputs, ignores, filters):
    """-> list of (display name, verdict) in expected order per input; verdict True (analysed),
    False (not analysed) or None (documents do not decide). inputs: list of (spelling, rel, is_dir)."""
    out = []
    for spelling, rel, is_dir in inputs:
        given = spelling
        if given.endswith('/') and len(given) > 1:
            given = given[:-1]
        if is_dir:
            members = sorted(((given + '/' + f, pm.accepted(f)) for f in tree.files_under(rel)),
                             key=lambda m: m[0].encode('utf-8', 'surrogateescape'))
        else:
            # a file named explicitly: the documents only show source files being named
            members = [(given, True if pm.accepted(rel) else None)]
        for path, acc in members:
            if acc is False:
                out.append((pm.display(path), False, path))
                continue
            ign = pm.match_any(ignores, path, cwd, is_dir=False) if ignores else False
            flt = pm.match_any(filters, path, cwd, is_dir=False) if filters else True
            if ign is True or flt is False:
                v = False
            elif ign is None or flt is None or acc is None:
                v = None
            else:
                v = True
            out.append((pm.display(path), v, path))
    return out


def judge(ctx, tag, tree, root, cwd_rel, inputs, ignores, filters, replay_only=False):
    """run one (tree, inputs, patterns) case and compare; returns number of judged files"""
    cwd = os.path.join(root, cwd_rel) if cwd_rel else root
    args = []
    for p in ignores:
        args.append('-i' + p)
    for p in filters:
        args.append('--file-filter=' + p)
    args += [s for s, _r, _d in inputs]
    res, checked, found = observe(cwd, args)
    ctx.ev()
    if res.timed_out:
        ctx.inconclusive('watchdog fired on %s' % tag)
        return 0
    exp = expected_selection(tree, cwd, inputs, ignores, filters)
    # a file reachable through several inputs is analysed once, under the name of the first input
    # that selects it: merge the verdicts per absolute identity (True if some occurrence is
    # selected; None if that hinges on an undecided occurrence; else False)
    merged = {}
    order = []
    for name, v, path in exp:
        ident = pm.canon(path, cwd)
        if ident not in merged:
            merged[ident] = {'v': False, 'names': [], 'closed': False, 'first': name}
            order.append(ident)
        m = merged[ident]
        if v is True:
            m['v'] = True
        elif v is None and m['v'] is False:
            m['v'] = None
        if v is not False and not m['closed']:
            m['names'].append(name)       # names under which it may legitimately be reported
            if v is True:
                m['closed'] = True
    exp_list = [((merged[i]['names'] or [merged[i]['first']])[0], merged[i]['v'], i) for i in order]
    by_ident = {ident: (name, v) for name, v, ident in exp_list}
    obs_ident = [pm.canon(c, cwd) for c in checked]
    casesig = sha1(repr((sorted(tree.files), cwd_rel, inputs, ignores, filters)))

    def report(kind, pattern, path, what):
        key = 'path:%s:%s' % (pattern, path) if kind == 'match' else 'path:<%s>:%s' % (kind, path)
        ctx.violation(key, '%s\n-i: %r\n--file-filter: %r\ninputs: %r\ncwd: tree/%s\nobserved Checking lines: %r\n'
                      'expected (model): %r' % (what, ignores, filters, [s for s, _r, _d in inputs], cwd_rel, checked,
                                                [(n, v) for n, v, _i in exp_list if v is not False]),
                      files={'tree': '@' + root},
                      cmd='cd tree/%s && cppcheck -j1 %s' % (cwd_rel, ' '.join(repr(a) for a in args)))

    judged = 0
    # (1) exactly the selected files
    for name, v, ident in exp_list:
        if v is None:
            ctx.count('undecided', 'file-status')
            continue
        judged += 1
        was = ident in obs_ident
        if v and not was:
            pat = ' '.join(['-i' + p for p in ignores] + ['--file-filter=' + p for p in filters]) or '<none>'
            report('match', pat, name, 'file %r should be analysed (accepted extension, not ignored, passes the '
                                       'filter) but no "Checking" line names it' % name)
        elif not v and was:
            pat = ' '.join(['-i' + p for p in ignores] + ['--file-filter=' + p for p in filters]) or '<none>'
            report('match', pat, name, 'file %r is analysed although the documented rules exclude it '
                                       '(extension / -i / --file-filter)' % name)
    # nothing outside the expected universe
    for c, ident in zip(checked, obs_ident):
        if ident not in by_ident:
            report('stray', '', c, 'analysed file %r is not below any input path' % c)
    # (2) each once
    for ident in set(obs_ident):
        if obs_ident.count(ident) > 1:
            report('duplicate', '', by_ident.get(ident, (ident,))[0], 'file analysed %d times' % obs_ident.count(ident))
    # (3) canonical names
    for c, ident in zip(checked, obs_ident):
        if ident in by_ident and merged[ident]['names'] and c not in merged[ident]['names']:
            report('name', '', c, 'file reported as %r, canonical form of the given path is %r' % (c, merged[ident]['names']))
    # (4) order: sorted within one input; inputs in the order given
    if len(inputs) == 1:
        if [c.encode() for c in checked] != sorted(c.encode() for c in checked):
            report('order', '', checked[0] if checked else '', 'files of one input path are not analysed in sorted order')
        else:
            ctx.count('order', 'single-input-sorted')
    else:
        want = [ident for _n, v, ident in exp_list if ident in set(obs_ident)]
        # documents do not state the order across several inputs: counted only
        ctx.count('order', 'multi-input-as-model' if want == obs_ident else 'multi-input-differs(not judged)')
    # (5) findings name exactly the analysed files
    ffiles = sorted(set(f for _i, f in found if _i == 'nullPointer'))
    if sorted(set(checked)) != ffiles:
        report('findings-files', '', (sorted(set(checked) ^ set(ffiles)) or [''])[0],
               'file names in findings %r differ from the Checking lines %r' % (ffiles, checked))
    nsel = sum(1 for _n, v, _i in exp_list if v)
    nrej = sum(1 for _n, v, _i in exp_list if v is False)
    if nsel == 0 and not any(v is None for _n, v, _i in exp_list):
        ctx.count('empty-selection-exit', 'rc=%s' % res.rc)
    if not replay_only:
        ctx.count('cases', 'inputs=%d' % len(inputs))
        ctx.count('cases', 'ignores=%d' % len(ignores))
        ctx.count('cases', 'filters=%d' % len(filters))
        ctx.count('files', 'expected-analysed', nsel)
        ctx.count('files', 'expected-excluded', nrej)
        if nsel >= 1 and nrej >= 1 and (ignores or filters) and checked:
            ctx.trivial_or(casesig)
    return judged


def _case_a(ctx, idx):
    rng = ctx.subrng('A', idx)
    d = ctx.tmpdir('a%d' % idx)
    root = os.path.join(d, 'tree')
    tree = treegen.gen_tree(rng)
    tree.write(root)
    cwd_rel = ''
    if rng.random() < 0.2:
        ds = [x for x in tree.dirs if x]
        if ds:
            cwd_rel = rng.choice(ds)
    # inputs are expressed relative to cwd
    cwd_abs = os.path.join(root, cwd_rel) if cwd_rel else root

    def rel_to_cwd(p):
        return os.path.relpath(os.path.join(root, p) if p else root, cwd_abs).replace(os.sep, '/')

    inputs = []
    for _ in range(rng.choice([1, 1, 1, 2, 3])):
        r = rng.random()
        if r < 0.45:
            target, is_dir = '', True
        elif r < 0.8 and len(tree.dirs) > 1:
            target, is_dir = rng.choice(tree.dirs[1:]), True
        elif tree.files:
            target, is_dir = rng.choice(tree.files), False
        else:
            target, is_dir = '', True
        if cwd_rel:
            relc = rel_to_cwd(target)
            spelling = rng.choice([relc, cwd_abs + '/' + relc, relc + ('/' if is_dir else '')])
            if spelling.startswith('-'):
                spelling = './' + spelling
            # the sub-tree as seen from cwd
            inputs.append((spelling, target, is_dir))
        else:
            sp = treegen.spell_input(rng, target, root, tree, is_dir)
            if excluded(ctx, sp):
                sp = './' + target if target else '.'
            inputs.append((sp, target, is_dir))
    # patterns (relative ones are relative to cwd): derive from a tree re-rooted at cwd
    vt = treegen.Tree()
    vt.files = [rel_to_cwd(f) for f in tree.files]
    vt.dirs = [''] + [rel_to_cwd(x) for x in tree.dirs if x and x != cwd_rel]
    pats = []
    for _ in range(rng.choice([0, 1, 1, 2, 3])):
        p = treegen.gen_pattern(rng, vt, cwd_abs)
        if excluded(ctx, p):
            continue
        if p in ('-', '+') or '\n' in p:
            continue
        pats.append(p)
    ignores, filters = [], []
    for p in pats:
        (filters if rng.random() < 0.3 else ignores).append(p)
    # the tree as seen by expected_selection is always rooted at `root`; inputs carry (spelling, rel-to-root)
    vtree = tree
    n = judge(ctx, 'A%d' % idx, vtree, root, cwd_rel, inputs, ignores, filters)
    ctx.sample({'part': 'A', 'files': tree.files[:8], 'cwd': cwd_rel, 'inputs': [s for s, _r, _d in inputs],
                '-i': ignores, '--file-filter': filters, 'judged_files': n})
    shutil.rmtree(d, ignore_errors=True)


def _case_b(ctx, idx):
    """suppression file patterns: one run = one pattern against every file of a tree"""
    rng = ctx.subrng('B', idx)
    d = ctx.tmpdir('b%d' % idx)
    root = os.path.join(d, 'tree')
    tree = treegen.gen_tree(rng, nfiles=(4, 12), awkward=0.35, stems_awk=treegen.STEMS_SUPPR)
    tree.files = [f for f in tree.files if pm.accepted(f) and ':' not in f]
    if not tree.files:
        return
    tree.write(root)
    absolute = rng.random() < 0.4
    inp = root if absolute else '.'
    res0, checked0, found0 = observe(root, [inp])
    base_files = sorted(f for i, f in found0 if i == 'nullPointer')
    if len(base_files) != len(tree.files):
        ctx.count('skipped', 'B-baseline-incomplete')
        return
    npat = 3 if ctx.quick() else 6
    for k in range(npat):
        p = treegen.gen_pattern(rng, tree, root, targets=tree.files + [x for x in tree.dirs if x],
                                allow_real=absolute, allow_above=absolute)
        if excluded(ctx, p):
            continue
        if '#' in p or '//' in p or ':' in p.replace(root, '') or p.endswith(' '):
            continue      # '#' and '//' start a comment in a suppression spec, ':' separates fields
        if p.endswith('/'):
            # directory-only form: described for path patterns in general, the manual's
            # suppression chapter only speaks of file names
            ctx.count('undecided', 'B-trailing-separator-in-suppression')
            continue
        if p.startswith('./') or p.startswith('../'):
            ctx.count('undecided', 'B-relative-pattern-in-suppression')
            continue
        # a last ':<no dot>' would be read as a line number (documented format id:file:line)
        res, checked, found = observe(root, ['--suppress=nullPointer:' + p, inp])
        ctx.ev()
        if res.rc != 0 and not checked:
            ctx.count('skipped', 'B-suppression-rejected')
            continue
        left = set(f for i, f in found if i == 'nullPointer')
        nm = 0
        for f in base_files:
            want = pm.match(p, f, base='', is_dir=False)
            if want is None:
                ctx.count('undecided', 'B-pattern')
                continue
            ctx.count('pairs', 'match' if want else 'no-match')
            nm += 1 if want else 0
            got = f not in left
            if want != got:
                ctx.violation('path:%s:%s' % (p, f if not absolute else f[len(root) + 1:]),
                              'suppression file pattern %r %s finding file %r; the documented rules say it %s'
                              % (p, 'matched' if got else 'did not match', f, 'matches' if want else 'does not match'),
                              files={'tree': '@' + root},
                              cmd='cd tree && cppcheck --suppress=nullPointer:%r %s' % (p, inp))
        if 0 < nm < len(base_files):
            ctx.trivial_or('B' + sha1(p, repr(base_files)))
    shutil.rmtree(d, ignore_errors=True)


def _tree_of(path):
    t = treegen.Tree()
    for dp, dns, fns in os.walk(path):
        rel = os.path.relpath(dp, path).replace(os.sep, '/')
        rel = '' if rel == '.' else rel
        if rel:
            t.dirs.append(rel)
        for f in fns:
            if f != 'README.txt':
                t.files.append((rel + '/' + f) if rel else f)
    return t


def _replay_known(ctx):
    """replay the witnesses of the listed findings (known/C31.txt) against the real binary"""
    witnesses = [
        # (witness dir, inputs, -i patterns, --file-filter patterns)
        ('star-after-qmark', [('.', '', True)], ['?*.c'], []),
        ('double-separator', [('src/x.c', 'src/x.c', False), ('srcx.c', 'srcx.c', False)], ['src//x.c'], []),
        ('double-separator', [('src//x.c', 'src/x.c', False)], ['x.c'], []),
        ('star-only-dir', [('.', '', True)], ['d/*/'], []),
    ]
    for n, (w, inputs, ign, flt) in enumerate(witnesses):
        src = os.path.join(KNOWN_DIR, w)
        if not os.path.isdir(src):
            ctx.inconclusive('witness directory %s missing' % src)
            continue
        d = ctx.tmpdir('known%d' % n)
        root = os.path.join(d, 'tree')
        shutil.copytree(src, root, ignore=shutil.ignore_patterns('README.txt'))
        judge(ctx, 'known-' + w, _tree_of(root), root, '', inputs, ign, flt, replay_only=True)
        shutil.rmtree(d, ignore_errors=True)


def run(ctx):
    ctx.rule = ('case A = (generated tree, input path list, -i/--file-filter patterns) analysed with -j1; non-trivial = '
                'the model expects >=1 analysed and >=1 excluded file, a pattern is present and >=1 "Checking" line '
                'was observed. case B = one --suppress=nullPointer:<pattern> run against a tree of one-finding files; '
                'non-trivial = the pattern selects some but not all files')
    ctx.assumptions.append('no symlinks; file names without newline, tab, backslash, quotation marks')
    _replay_known(ctx)
    na = ctx.n(200, 6000)
    nb = ctx.n(100, 5000)
    runner.pmap(lambda i: _case_a(ctx, i), range(na), workers=8)
    runner.pmap(lambda i: _case_b(ctx, i), range(nb), workers=8)
