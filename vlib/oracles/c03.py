"""C03 — Always-true/always-false verdicts are true.

Monitor: cppcheck --enable=style,warning --xml on the plain rendering of a generated program; every
verdict of the "always has value V" family is joined (by line/column of its judged location) to a
probe of the instrumented rendering; a sanitizer-clean execution that evaluates the expression to
another value is the witness.
"""
import json
import os
import re
import shutil

from .. import cases, findings, probe
from ..core import sha1
from ..gen import progen
from ..run import pmap

PID = 'C03'
FLAVOURS = ['mon']
META = {
    'technique': 'runtime truth-value monitor: cppcheck always-true/false verdicts checked against values observed in '
                 'sanitizer-clean executions of generated programs (probe runtime)',
    'level_text': 'Sampled exploration over generated programs with nested/sequential related conditions, loops, early '
                  'returns and assignments between conditions: every verdict whose judged expression was evaluated at run '
                  'time must have agreed with every observed value. Evidence lists verdicts by id, how many were reached.',
    'level_note': 'Judges only ids in the verdict table (others counted as unjudged); trusts gcc x86-64 + ASan/UBSan as the '
                  'UB-free execution semantics; expressions never evaluated are unconstrained by the statement.',
    'design_ref': 'DESIGN.md §3 C03',
}

# id -> function(finding) -> claimed value: True (non-zero), False (zero), ('val', N), or None (not judged)
_ALWAYS = re.compile(r'always (?:evaluates to )?(true|false)')


def _claim(f):
    i, m = f.id, f.msg
    if i in ('knownConditionTrueFalse', 'compareValueOutOfTypeRangeError', 'incorrectLogicOperator',
             'comparisonError', 'assignIfError', 'compareBoolExpressionWithInt', 'comparisonOfBoolWithInvalidComparator',
             'badBitmaskCheck', 'knownPointerToBool'):
        mm = _ALWAYS.search(m)
        if mm:
            return mm.group(1) == 'true'
        return None
    if i == 'oppositeInnerCondition':
        return False
    if i == 'identicalInnerCondition':
        return True
    if i == 'identicalConditionAfterEarlyExit':
        return False
    if i == 'unsignedLessThanZero':
        return False
    if i == 'unsignedPositive':
        return True
    if i == 'knownArgument':
        mm = re.search(r'is always (-?\d+)', m)
        if mm:
            return ('val', int(mm.group(1)))
    return None


CMP_LOGIC = ('<', '<=', '>', '>=', '==', '!=', '&&', '||', '!')

JUDGED_IDS = ['knownConditionTrueFalse', 'compareValueOutOfTypeRangeError', 'incorrectLogicOperator', 'comparisonError',
              'assignIfError', 'oppositeInnerCondition', 'identicalInnerCondition', 'identicalConditionAfterEarlyExit',
              'unsignedLessThanZero', 'unsignedPositive', 'knownArgument', 'compareBoolExpressionWithInt',
              'comparisonOfBoolWithInvalidComparator', 'badBitmaskCheck']


def check_program(prog, d, vecs, lang='c'):
    ext = '.c' if lang == 'c' else '.cpp'
    with open(os.path.join(d, 'p' + ext), 'w') as f:
        f.write(prog.plain)
    with open(os.path.join(d, 'p_i' + ext), 'w') as f:
        f.write(prog.inst)
    a = cases.analyse(d, ['-q', '--enable=style,warning', '--platform=unix64', 'p' + ext])
    if not a.xml_ok or a.res.timed_out or cases.crashed(a.res):
        return {'status': 'cppcheck-failed'}
    bypos = {}
    for pid, (line, col, tok, kind) in prog.probes.items():
        bypos[(line, col)] = pid
    verdicts = []   # (finding, claim, pid or None)
    for f in a.findings:
        c = _claim(f)
        if c is None or f.inconclusive:
            verdicts.append((f, None, None))
            continue
        _file, line, col = findings.primary(f)
        pid = bypos.get((line, col))
        # the verdict is about a condition: if the located token is an operand (e.g. the out-of-range
        # value or the masked expression), the judged expression is its nearest enclosing comparison
        if f.id in ('compareValueOutOfTypeRangeError', 'comparisonError'):
            # these are located at an *operand* of the judged comparison (the out-of-range value /
            # the masked expression): the judged expression is the enclosing comparison
            pid = prog.parents.get(pid) if pid is not None else None
            if pid is not None and prog.probes[pid][2] not in ('<', '<=', '>', '>=', '==', '!='):
                pid = None
        if pid is not None and f.id in ('unsignedLessThanZero', 'unsignedPositive'):
            # only '<' (resp. '>=') against zero is an always-false (always-true) claim
            want = '<' if f.id == 'unsignedLessThanZero' else '>='
            if prog.probes[pid][2] != want:
                c = None
        verdicts.append((f, c, pid))
    exe, cr = probe.compile_inst(d, 'p_i' + ext, lang)
    if exe is None:
        return {'status': 'compile-failed', 'err': cr.etext()}
    obs = probe.run_inputs(exe, d, [], vecs)
    viols = []
    reached = []
    for f, c, pid in verdicts:
        if c is None or pid is None or pid not in obs.probes:
            continue
        hits, zero, nonzero, mn, mx, dist = obs.probes[pid]
        reached.append(f.id)
        bad = None
        if c is True and zero:
            bad = 'claimed always true, observed false %d of %d times' % (zero, hits)
        elif c is False and nonzero:
            bad = 'claimed always false, observed true %d of %d times' % (nonzero, hits)
        elif isinstance(c, tuple) and (mn != c[1] or mx != c[1]):
            bad = 'claimed always %d, observed values in [%d, %d]' % (c[1], mn, mx)
        if bad:
            viols.append((f, bad))
    return {'status': 'ok', 'verdicts': verdicts, 'viols': viols, 'reached': reached, 'obs': obs}


def one_program(ctx, idx, lang, nvec):
    rng = ctx.subrng('prog', idx)
    prog = progen.gen(rng, lang=lang, bias='cond')
    d = ctx.tmpdir('p%d' % idx)
    try:
        vecs = prog.input_vectors(rng, nvec)
        res = check_program(prog, d, vecs, lang)
        ctx.ev()
        if res['status'] != 'ok':
            ctx.count('programs', res['status'])
            return
        for f, c, pid in res['verdicts']:
            if c is None:
                ctx.count('unjudged_ids', f.id)
            else:
                ctx.count('verdicts_by_id', f.id)
                if pid is None:
                    ctx.count('verdicts_unjoined', f.id)
        for i in res['reached']:
            ctx.count('verdicts_reached_at_runtime', i)
        ctx.count('executions', 'clean', res['obs'].ok_runs)
        ctx.count('executions', 'discarded', res['obs'].discarded)
        ext = '.c' if lang == 'c' else '.cpp'
        for f, bad in res['viols']:
            _file, line, col = findings.primary(f)
            key = 'witness:%s:%s@%d:%d' % (sha1(prog.plain), f.id, line, col)
            ctx.violation(key, '%s at %d:%d says: %s\nbut: %s' % (f.id, line, col, f.msg, bad),
                          files={'p' + ext: prog.plain, 'p_i' + ext: prog.inst,
                                 'meta.json': json.dumps({'probes': prog.probes, 'vecs': vecs, 'lang': lang}),
                                 'trace.h': '@' + os.path.join(probe.HARNESS, 'trace.h')},
                          cmd='cppcheck -q --enable=style,warning --platform=unix64 p%s' % ext)
        if res['reached']:
            ctx.trivial_or(sha1(prog.plain))
            ctx.count('programs', 'with-verdict-reached')
        else:
            ctx.count('programs', 'no-verdict-reached')
        if res['reached']:
            ctx.sample({'lang': lang, 'verdicts': [(f.id, f.msg[:80]) for f, c, p in res['verdicts'] if c is not None][:4],
                        'reached': res['reached'][:6], 'clean_runs': res['obs'].ok_runs}, limit=4)
    finally:
        shutil.rmtree(d, ignore_errors=True)


def replay_known(ctx):
    import glob
    from .. import witness
    from ..build import VERIF
    from .c01 import WITNESS_VECS
    for f in sorted(glob.glob(os.path.join(VERIF, 'known', PID, '*.c')) + glob.glob(os.path.join(VERIF, 'known', PID, '*.cpp'))):
        lang = 'cpp' if f.endswith('.cpp') else 'c'
        prog = witness.from_annotated(open(f).read(), lang)
        d = ctx.tmpdir('w_' + os.path.basename(f))
        res = check_program(prog, d, WITNESS_VECS, lang)
        shutil.rmtree(d, ignore_errors=True)
        name = os.path.splitext(os.path.basename(f))[0]
        if res['status'] != 'ok':
            ctx.inconclusive('witness %s could not be replayed (%s)' % (name, res['status']))
            continue
        if not res['viols']:
            ctx.count('known_witnesses', 'no-longer-failing:' + name)
        for fi, bad in res['viols']:
            _file, line, col = findings.primary(fi)
            ctx.count('known_witnesses', 'replayed-and-failing')
            ctx.violation('witness:%s:%s@%d:%d' % (sha1(prog.plain), fi.id, line, col),
                          '[%s] %s says: %s but: %s' % (name, fi.id, fi.msg, bad), files={'witness.c': prog.plain})


def run(ctx):
    replay_known(ctx)
    ctx.rule = ('case = one generated program (progen, condition-biased: nested and sequential conditions over the same '
                'variables, early returns, assignments between conditions, loops, switch) x N input vectors; non-trivial '
                '= at least one judged always-true/false verdict was located on a probed expression that a '
                'sanitizer-clean execution evaluated; distinct by program text')
    ctx.cov['judged_ids'] = JUDGED_IDS
    ctx.cov['generator_exclusions'] = progen.EXCLUSIONS
    n = ctx.n(300, 15000)
    nvec = 16 if ctx.quick() else 32
    jobs = [(i, 'c' if i % 4 != 3 else 'cpp') for i in range(n)]
    pmap(lambda j: one_program(ctx, j[0], j[1], nvec), jobs, workers=16)
