"""C29 — Output is deterministic across runs.

Perturbation monitor on the `mon` flavour: the same inputs and options are analysed repeatedly while
everything a correct program must not depend on is varied from outside:

  aslr       a second run with address-space randomisation (different random layout)
  noaslr     `setarch -R` (no randomisation)
  chaos      LD_PRELOAD harness/chaos_malloc.c: seeded shuffling of heap block order, random padding,
             interleaved dummy allocations, seed-dependent fill of malloc'ed memory (two seeds)
  env-cwd    a much larger environment block and the same tree copied to a deeper working directory
  readdir    LD_PRELOAD harness/shuffle_readdir.c: seeded permutation of every directory listing
             (directory inputs only)
  revcopy    the same tree re-created in reverse order + another readdir seed (directory inputs only)
  j4-thread / j4-process   two -j4 runs (plain and chaos): findings compared as multisets

Oracle (-j1): exit status, text report (stdout+stderr) and XML report byte-identical to the
reference run; every `--dump` file identical after renaming element ids (hex pointers) by first
occurrence — element *order* is not normalised. A difference is keyed by what differs if it can be
localised (e.g. `nondet:dump-containers-order`), else `nondet:<perturbation>:<output kind>:<sha1 of input>`.
"""
import os
import re
import shutil

from .. import build, cases, findings, shims
from ..core import sha1
from ..run import pmap, base_env, run as run_cmd
from ..gen import projgen, progen, contgen, stlgen, mutate

PID = 'C29'
FLAVOURS = ['mon']
META = {
    'technique': 'perturbation monitor: repeated runs under ASLR on/off, LD_PRELOAD chaos allocator, environment/'
                 'cwd changes, LD_PRELOAD readdir shuffler and reverse-created tree copies; byte comparison of text/XML '
                 'reports and id-canonicalised dumps',
    'level_text': 'Sampled exploration: generated projects and programs (C and C++, container-rich C++), shipped '
                  'samples and test/cfg slices, as file lists and as directory inputs, are analysed once as reference '
                  'and again under each perturbation; -j1 outputs must be byte-identical (dumps after renaming ids by '
                  'first occurrence, element order kept), -j4 findings equal as multisets. Evidence records that '
                  'perturbations were really in effect (heap-order inversions handed out by the allocator, '
                  'directory listings whose order was changed, dump ids that differ before canonicalisation).',
    'level_note': 'Perturbations are sampled (two allocator seeds, two listing orders per case), not enumerated; '
                  'a dependence that needs a specific layout may be missed. Thread scheduling is the subject of C15/C16.',
    'design_ref': 'DESIGN.md §3 C29',
}

KNOWN_DIR = os.path.join(build.VERIF, 'known', 'C29')

# ------------------------------------------------------------------------------------ dump canonicalisation
_ID_DEF = re.compile(rb' id="([0-9a-f]{5,16})"')
_ATTR = re.compile(rb' ([A-Za-z][\w-]*)="([0-9a-f]{5,16})"')
# attributes that carry text / decimal numbers, never element ids ('type' is not listed: it is the
# token class on <token> but a Type id on <derivedFrom>; token classes never look like hex ids)
_NOT_PTR = {b'str', b'name', b'exprId', b'varId', b'linenr', b'column', b'file', b'originalName', b'macroName',
            b'intvalue', b'floatvalue', b'strlen', b'value', b'nr', b'cfg', b'access', b'kind',
            b'valueType-originalTypeName', b'templateArgLineNumber', b'templateArgColumn', b'index',
            b'errorId', b'fileName', b'lineNumber', b'symbolName', b'hash', b'filename', b'tagname'}


def canon_dump(data):
    """rename element ids (pointer values) by first occurrence; -> (bytes, number of distinct ids)"""
    ids = set(_ID_DEF.findall(data))
    ptr_attrs = {b'id'}
    for name, val in _ATTR.findall(data):
        if val in ids and name not in _NOT_PTR:
            ptr_attrs.add(name)
    table = {}

    def sub(m):
        name, val = m.group(1), m.group(2)
        if name not in ptr_attrs:
            return m.group(0)
        n = table.get(val)
        if n is None:
            n = table[val] = len(table) + 1
        return b' %s="@%d"' % (name, n)

    return _ATTR.sub(sub, data), len(table)


_SECTION = re.compile(rb'^(  <([\w-]+)>\n)(.*?)^(  </\2>\n)', re.S | re.M)
_CHILD = re.compile(rb'^(?=    <[A-Za-z])', re.M)


def localise(ca, cb):
    """Compare two canonical dumps section by section (sections = the 2-space indented elements of a
    <dump>, e.g. <tokenlist>, <scopes>, <variables>, <containers>, <valueflow>).
    -> (names of sections whose direct children are the same multiset in a different order,
        canonical texts in which exactly those sections have their children sorted)
    Used only to give an order defect a stable key naming the section; any other difference stays."""
    order_only = []
    sa, sb = list(_SECTION.finditer(ca)), list(_SECTION.finditer(cb))
    if [m.group(2) for m in sa] != [m.group(2) for m in sb]:
        return [], ca, cb
    fix = set()
    for i, (ma, mb) in enumerate(zip(sa, sb)):
        if ma.group(3) == mb.group(3):
            continue
        ka, kb = _CHILD.split(ma.group(3)), _CHILD.split(mb.group(3))
        if sorted(ka) == sorted(kb):
            fix.add(i)
            name = ma.group(2).decode()
            if name not in order_only:
                order_only.append(name)
    if not fix:
        return [], ca, cb

    def norm(c):
        n = [-1]

        def sub(m):
            n[0] += 1
            if n[0] not in fix:
                return m.group(0)
            return m.group(1) + b''.join(sorted(_CHILD.split(m.group(3)))) + m.group(4)
        return _SECTION.sub(sub, c)
    return order_only, norm(ca), norm(cb)


def first_diff(a, b, ctxlines=2):
    la, lb = a.split(b'\n'), b.split(b'\n')
    n = min(len(la), len(lb))
    i = 0
    while i < n and la[i] == lb[i]:
        i += 1
    lo = max(0, i - ctxlines)
    out = ['first difference at line %d' % (i + 1)]
    out += ['  ref : ' + l.decode('utf-8', 'replace')[:300] for l in la[lo:i + ctxlines + 1]]
    out += ['  pert: ' + l.decode('utf-8', 'replace')[:300] for l in lb[lo:i + ctxlines + 1]]
    return '\n'.join(out)


# ------------------------------------------------------------------------------------ cases
class Case:
    def __init__(self, kind, files, inputs, opts, is_dir, lang):
        self.kind = kind
        self.files = files          # relpath -> text/bytes
        self.inputs = inputs        # what is handed to cppcheck (relative paths)
        self.opts = opts
        self.is_dir = is_dir
        self.lang = lang
        self.digest = sha1(*([k + '\0' + (v if isinstance(v, str) else v.decode('latin-1'))
                              for k, v in sorted(files.items())] + opts + inputs))

    def write(self, root, reverse=False):
        names = sorted(self.files, reverse=reverse)
        for rel in names:
            p = os.path.join(root, rel)
            os.makedirs(os.path.dirname(p), exist_ok=True)
            v = self.files[rel]
            with open(p, 'wb') as f:
                f.write(v.encode('utf-8', 'surrogateescape') if isinstance(v, str) else v)


def _opts(rng, lang):
    o = ['--enable=' + rng.choice(['all', 'all', 'all', 'style', 'warning,performance,portability'])]
    if rng.random() < 0.6:
        o.append('--inconclusive')
    o.append('--library=std')
    if rng.random() < 0.25:
        o.append('--platform=' + rng.choice(['unix32', 'win64', 'unix64']))
    if lang == 'cpp' and rng.random() < 0.3:
        o.append('--std=' + rng.choice(['c++11', 'c++17', 'c++20']))
    if rng.random() < 0.2:
        o.append('--check-level=exhaustive')
    if rng.random() < 0.3:
        o.append('--template=' + rng.choice(['gcc', 'vs', findings.TEMPLATE]))
    if rng.random() < 0.15:
        o.append('--debug-warnings')
    return o


def make_case(ctx, rng, idx):
    kinds = ['proj-files', 'proj-dir', 'proj-dir', 'progen', 'stl', 'stl', 'contgen', 'samples', 'cfgslice']
    kind = kinds[idx % len(kinds)]
    if kind == 'proj-files':
        p = projgen.gen(rng, nfiles=(2, 5), headers=True, ctu=True)
        return Case(kind, dict(p.files), list(p.sources), _opts(rng, p.lang), False, p.lang)
    if kind == 'proj-dir':
        p = projgen.gen(rng, nfiles=(3, 8), headers=True, ctu=True, subdirs=True)
        files = dict(p.files)
        if p.lang == 'cpp' and rng.random() < 0.7:
            for i in range(rng.randint(1, 3)):
                files['%sstl%d.cpp' % (rng.choice(['', 'src/', 'lib/']), i)] = stlgen.gen(rng)[0]
        inputs = rng.choice([['.'], ['.'], sorted({r.split('/')[0] if '/' in r else r for r in files
                                                    if not r.startswith('inc/') and not r.endswith('.h')})])
        return Case(kind, files, inputs, _opts(rng, p.lang) + ['-Iinc'], True, p.lang)
    if kind == 'progen':
        lang = rng.choice(['c', 'cpp'])
        pr = progen.gen(rng, lang, size=rng.choice([0.4, 0.7, 1.0]), profile='full')
        name = 'p.c' if lang == 'c' else 'p.cpp'
        return Case(kind, {name: pr.plain}, [name], _opts(rng, lang), False, lang)
    if kind == 'stl':
        nf = rng.randint(1, 3)
        files = {'s%d.cpp' % i: stlgen.gen(rng)[0] for i in range(nf)}
        return Case(kind, files, sorted(files), _opts(rng, 'cpp'), False, 'cpp')
    if kind == 'contgen':
        pr = contgen.gen(rng)
        return Case(kind, {'c.cpp': pr.plain}, ['c.cpp'], _opts(rng, 'cpp'), False, 'cpp')
    if kind == 'samples':
        base = os.path.join(build.REPO, 'samples')
        dirs = sorted(d for d in os.listdir(base) if os.path.isdir(os.path.join(base, d)))
        pick = rng.sample(dirs, rng.randint(1, 3))
        files = {}
        for d in pick:
            for f in sorted(os.listdir(os.path.join(base, d))):
                if f.endswith(('.c', '.cpp', '.h')):
                    files['%s/%s' % (d, f)] = cases.read(os.path.join(base, d, f))
        return Case(kind, files, rng.choice([['.'], sorted(pick)]), _opts(rng, 'c'), True, 'c')
    # cfgslice
    path = rng.choice(mutate.cfg_test_files())
    s = mutate.cfg_slice(rng, path, maxbytes=6000)
    name = 's.c' if s.lang == 'c' else 's.cpp'
    lib = os.path.splitext(os.path.basename(path))[0]
    o = _opts(rng, 'c' if s.lang == 'c' else 'cpp')
    if os.path.exists(os.path.join(os.path.dirname(build.binary('mon')), 'cfg', lib + '.cfg')) and lib != 'std':
        o.append('--library=' + lib)
    return Case(kind, {name: s.data}, [name], o, False, 'c' if s.lang == 'c' else 'cpp')


# ------------------------------------------------------------------------------------ running
class Pert:
    def __init__(self, name, cls, prefix=(), env=None, tree='base', log=None):
        self.name = name
        self.cls = cls          # perturbation class used in keys
        self.prefix = list(prefix)
        self.env = env or {}
        self.tree = tree
        self.log = log


def _collect_dumps(root):
    out = {}
    for d, _dirs, fs in os.walk(root):
        for f in fs:
            if f.endswith('.dump'):
                p = os.path.join(d, f)
                out[os.path.relpath(p, root)] = cases.read(p)
                os.remove(p)
            elif f.endswith('.ctu-info'):
                os.remove(os.path.join(d, f))
    return out


def _exec(case, root, pert, extra, timeout=180):
    argv = pert.prefix + [build.binary('mon'), '-q'] + case.opts + extra + case.inputs
    return run_cmd(argv, cwd=root, env=base_env(pert.env), timeout=timeout)


def outputs(ctx, case, root, pert, kinds=('text', 'xml', 'dump')):
    """-> dict kind -> comparable object, plus '_res' kind -> Result; None on watchdog"""
    o = {'_res': {}}
    for k in kinds:
        extra = {'text': ['-j1'], 'xml': ['-j1', '--xml'], 'dump': ['-j1', '--dump']}[k]
        r = _exec(case, root, pert, extra)
        ctx.ev()
        ctx.count('runs', pert.cls)
        o['_res'][k] = r
        if r.timed_out:
            ctx.inconclusive('watchdog fired: case %s %s %s' % (case.digest, pert.name, k))
            return None
        if k == 'dump':
            raw = _collect_dumps(root)
            o['dump_raw'] = raw
            o['dump'] = (r.rc, r.err, {rel: canon_dump(d) for rel, d in raw.items()})
        else:
            o[k] = (r.rc, r.out, r.err)
    return o


def chaos_stats(ctx, log):
    ok = False
    if log and os.path.exists(log):
        for line in open(log, errors='replace'):
            m = re.search(r'shuffled=(\d+) .*inversions=(\d+)/(\d+)', line)
            if m:
                ctx.count('chaos_allocator', 'processes')
                ctx.count('chaos_allocator', 'blocks_handed_out_shuffled', int(m.group(1)))
                ctx.count('chaos_allocator', 'address_order_inversions', int(m.group(2)))
                ctx.count('chaos_allocator', 'same_class_successions', int(m.group(3)))
                ok = ok or int(m.group(2)) > 0
        os.remove(log)
    return ok


def shuffle_stats(ctx, log):
    ok = False
    if log and os.path.exists(log):
        for line in open(log, errors='replace'):
            p = line.split()
            if len(p) == 2:
                ctx.count('readdir_shuffler', 'directories_listed')
                if p[1] == '1':
                    ctx.count('readdir_shuffler', 'listings_with_changed_order')
                    ok = True
        os.remove(log)
    return ok


def compare(ctx, case, ref, out, pert, roots):
    """report every difference between the reference and a perturbed output set"""
    found = False
    for k in ('text', 'xml', 'dump'):
        if k not in ref or k not in out:
            continue
        ctx.count('compared', k)
        a, b = ref[k], out[k]
        if k != 'dump':
            ctx.count('bytes_compared', k, len(a[1]) + len(a[2]))
            if a == b:
                continue
            key = 'nondet:%s:%s:%s' % (pert.cls, k, case.digest)
            what = '%s output differs between the reference run and perturbation %s\nexit status %s vs %s\n%s' % (
                k, pert.name, a[0], b[0], first_diff(a[1] + b'\n--stderr--\n' + a[2], b[1] + b'\n--stderr--\n' + b[2]))
            _report(ctx, case, key, what, ref, out, pert, k, roots)
            found = True
            continue
        # dumps
        da, db = a[2], b[2]
        if a[:2] != b[:2] or sorted(da) != sorted(db):
            key = 'nondet:%s:dump:%s' % (pert.cls, case.digest)
            what = 'dump run differs (exit status %s vs %s, dump files %s vs %s)\n%s' % (
                a[0], b[0], sorted(da), sorted(db), first_diff(a[1], b[1]))
            _report(ctx, case, key, what, ref, out, pert, k, roots)
            found = True
            continue
        for rel in sorted(da):
            ca, cb = da[rel][0], db[rel][0]
            ctx.count('bytes_compared', 'dump', len(ca))
            if ref['dump_raw'][rel] != out['dump_raw'][rel]:
                ctx.count('layout', '%s:raw-dump-ids-differ' % pert.cls)
            else:
                ctx.count('layout', '%s:raw-dump-identical' % pert.cls)
            if ca == cb:
                continue
            found = True
            sections, sa, sb = localise(ca, cb)
            for sec in sections:
                ctx.count('localised', sec + '-order')
                _report(ctx, case, 'nondet:dump-%s-order' % sec,
                        'the children of the dump\'s <%s> section are the same elements in a different order '
                        '(iteration order of a pointer-keyed container reaches the output): %s differs under '
                        'perturbation %s\n%s' % (sec, rel, pert.name, first_diff(ca, cb)),
                        ref, out, pert, k, roots, rel)
            if sa == sb:
                continue
            key = 'nondet:%s:dump:%s' % (pert.cls, case.digest)
            what = 'dump %s differs after renaming ids by first occurrence (perturbation %s)%s\n%s' % (
                rel, pert.name, '; sections that differ in order only were sorted first: %s' % sections if sections else '',
                first_diff(sa, sb))
            _report(ctx, case, key, what, ref, out, pert, k, roots, rel)
    return found


def _report(ctx, case, key, what, ref, out, pert, k, roots, rel=None):
    files = {'tree': '@' + roots['base']}
    if k == 'dump' and rel:
        files['ref.dump'] = ref['dump_raw'][rel]
        files['perturbed.dump'] = out['dump_raw'][rel]
        files['ref.canonical.dump'] = ref['dump'][2][rel][0]
        files['perturbed.canonical.dump'] = out['dump'][2][rel][0]
    elif k in ref and k in out:
        files['ref.' + k] = ref[k][1] + b'\n--stderr--\n' + ref[k][2] if k != 'dump' else ref[k][1]
        files['perturbed.' + k] = out[k][1] + b'\n--stderr--\n' + out[k][2] if k != 'dump' else out[k][1]
    r = out['_res'].get(k)
    cmd = 'cd tree && %s\n# perturbation %s: prefix=%r env=%r tree=%s (reference: same command without them)' % (
        r.cmdline() if r else '?', pert.name, pert.prefix, pert.env, pert.tree)
    ctx.violation(key, what, files=files, cmd=cmd)


def perturbations(ctx, case, d, idx, rng):
    chaos = shims.so('chaos_malloc')
    ps = [Pert('aslr', 'aslr'), Pert('noaslr', 'noaslr', prefix=['setarch', os.uname().machine, '-R'])]
    for j in range(2):
        log = os.path.join(d, 'chaos%d.log' % j)
        ps.append(Pert('chaos#%d' % j, 'chaos', env={'LD_PRELOAD': chaos, 'VERIF_CHAOS_LOG': log,
                                                      'VERIF_CHAOS_SEED': str(ctx.seed * 100000 + idx * 10 + j + 1)},
                       log=log))
    big = {'VERIF_PAD_%03d' % i: 'x' * rng.randint(1, 400) for i in range(rng.randint(40, 200))}
    ps.append(Pert('env-cwd', 'env-cwd', env=big, tree='deep'))
    if case.is_dir:
        shuf = shims.so('shuffle_readdir')
        log = os.path.join(d, 'shuf0.log')
        ps.append(Pert('readdir', 'readdir', env={'LD_PRELOAD': shuf, 'VERIF_SHUFFLE_LOG': log,
                                                  'VERIF_SHUFFLE_SEED': str(ctx.seed * 1000 + idx + 1)}, log=log))
        log = os.path.join(d, 'shuf1.log')
        ps.append(Pert('revcopy', 'revcopy', env={'LD_PRELOAD': shuf, 'VERIF_SHUFFLE_LOG': log,
                                                  'VERIF_SHUFFLE_SEED': str(ctx.seed * 7919 + idx + 5)},
                       tree='rev', log=log))
    return ps


def run_case(ctx, case, idx, rng, tag='c', kinds=('text', 'xml', 'dump'), with_jobs=True):
    d = ctx.tmpdir('%s%d' % (tag, idx))
    roots = {'base': os.path.join(d, 'base', 'p'),
             'deep': os.path.join(d, 'deep', 'a' * 40, 'b' * 40, 'c', 'd', 'e', 'f', 'p'),
             'rev': os.path.join(d, 'rev', 'p')}
    case.write(roots['base'])
    case.write(roots['deep'])
    case.write(roots['rev'], reverse=True)
    ctx.count('cases', case.kind)
    plain = Pert('reference', 'reference')
    ref = outputs(ctx, case, roots['base'], plain, kinds)
    if ref is None:
        shutil.rmtree(d, ignore_errors=True)
        return False
    nfind = 0
    if 'xml' in ref:
        try:
            fs = findings.parse_xml(ref['xml'][2])
            nfind = len(fs)
            for f in fs:
                ctx.count('finding_ids', f.id)
        except findings.XmlError:
            ctx.count('cases', 'reference-xml-unparsable')
    ntok = sum(c[0].count(b'<token id=') for c in ref['dump'][2].values()) if 'dump' in ref else 0
    ncont = sum(c[0].count(b'<container id=') for c in ref['dump'][2].values()) if 'dump' in ref else 0
    ctx.count('hist', 'dump_tokens', ntok)
    ctx.count('hist', 'dump_container_elements', ncont)
    ctx.count('hist', 'reference_findings', nfind)
    armed = {'chaos': False, 'layout': False, 'readdir': False}
    found = False
    for j, pert in enumerate(perturbations(ctx, case, d, idx, rng)):
        # quick tier: every perturbation gets the dump run plus alternately the text or the XML run
        pk = kinds if not ctx.quick() else tuple(
            k for k in kinds if k == 'dump' or k == ('text', 'xml')[(idx + j) % 2])
        out = outputs(ctx, case, roots[pert.tree], pert, pk)
        if out is None:
            continue
        if pert.cls == 'chaos':
            armed['chaos'] = chaos_stats(ctx, pert.log) or armed['chaos']
        if pert.cls in ('readdir', 'revcopy'):
            armed['readdir'] = shuffle_stats(ctx, pert.log) or armed['readdir']
        if 'dump' in out and any(ref['dump_raw'].get(r) != v for r, v in out['dump_raw'].items()):
            armed['layout'] = True
        found = compare(ctx, case, ref, out, pert, roots) or found
    # -j4: multiset equality between two runs of the same command
    nsrc = sum(1 for f in case.files if f.endswith(('.c', '.cpp')))
    if with_jobs and nsrc >= 2:
        chaos = shims.so('chaos_malloc')
        for ex in ('thread', 'process'):
            sets = []
            for j, env in enumerate([{}, {'LD_PRELOAD': chaos, 'VERIF_CHAOS_SEED': str(ctx.seed * 31 + idx + 3)}]):
                p = Pert('j4-%s#%d' % (ex, j), 'j4-' + ex, env=env)
                r = _exec(case, roots['base'], p, ['-j4', '--executor=' + ex, '--xml'])
                ctx.ev()
                ctx.count('runs', p.cls)
                if r.timed_out:
                    ctx.inconclusive('watchdog fired: case %s %s' % (case.digest, p.name))
                    sets = None
                    break
                try:
                    sets.append((r, findings.multiset(findings.parse_xml(r.err)), r.rc))
                except findings.XmlError:
                    sets.append((r, None, r.rc))
            if not sets:
                continue
            ctx.count('compared', 'j4-' + ex)
            (ra, ma, rca), (rb, mb, rcb) = sets
            if ma is None or mb is None or ma != mb or rca != rcb:
                only_a = sorted((ma - mb).elements(), key=repr)[:4] if ma is not None and mb is not None else []
                only_b = sorted((mb - ma).elements(), key=repr)[:4] if ma is not None and mb is not None else []
                first = (only_a or only_b or [('malformed-xml-or-exit-status',)])[0][0]
                ctx.violation('nondet:j4-%s:xml:%s:%s' % (ex, case.digest, first),
                              'two -j4 --executor=%s runs of the same command report different findings (as multisets) '
                              'or exit status (%s vs %s)\nonly in run 1: %r\nonly in run 2: %r' % (ex, rca, rcb, only_a, only_b),
                              files={'tree': '@' + roots['base'], 'run1.xml': ra.err, 'run2.xml': rb.err},
                              cmd='cd tree && %s   # second run with LD_PRELOAD chaos allocator' % ra.cmdline())
                found = True
    if (nfind >= 1 or ntok >= 20) and armed['chaos'] and armed['layout']:
        ctx.trivial_or(case.digest)
    ctx.sample({'kind': case.kind, 'inputs': case.inputs, 'options': case.opts, 'files': len(case.files),
                'reference_findings': nfind, 'dump_tokens': ntok, 'dump_container_elements': ncont,
                'directory_input': case.is_dir, 'perturbations_in_effect': armed})
    shutil.rmtree(d, ignore_errors=True)
    return found


# ------------------------------------------------------------------------------------ witnesses
def replay_known(ctx):
    """every listed finding's witness is re-run: the KNOWN-FINDING line is printed only if re-observed"""
    if not os.path.isdir(KNOWN_DIR):
        return
    import random
    for i, f in enumerate(sorted(os.listdir(KNOWN_DIR))):
        if not f.endswith(('.c', '.cpp')):
            continue
        text = cases.read(os.path.join(KNOWN_DIR, f))
        case = Case('witness', {f: text}, [f], ['--library=std'], False, 'cpp' if f.endswith('.cpp') else 'c')
        hit = run_case(ctx, case, i, random.Random(i), tag='w', kinds=('dump',), with_jobs=False)
        ctx.count('witness_replay', '%s:%s' % (f, 're-observed' if hit else 'not observed'))


def run(ctx):
    ctx.rule = ('case = one input set (generated project as file list or directory, progen/contgen/stlgen program, '
                'samples directories, test/cfg slice) + options, analysed as reference and under aslr / noaslr / 2 chaos '
                'allocator seeds / bigger environment + deeper cwd (+ readdir shuffler and reverse-created copy for '
                'directory inputs), each as text, XML and --dump run, plus 2x2 -j4 runs; non-trivial = the reference '
                'reported >=1 finding or dumped >=20 tokens AND the chaos allocator handed out >=1 address-order '
                'inversion AND the raw dump ids differed from the reference in >=1 perturbed run')
    if shutil.which('setarch') is None:
        ctx.inconclusive('setarch not available')
        return
    shims.so('chaos_malloc')
    shims.so('shuffle_readdir')
    replay_known(ctx)
    n = ctx.n(18, 600)

    def one(i):
        rng = ctx.subrng('case', i)
        case = make_case(ctx, rng, i)
        run_case(ctx, case, i, rng)

    pmap(one, range(n), workers=8 if ctx.quick() else 12)
    sh = ctx.cov.get('readdir_shuffler', {})
    if not sh.get('listings_with_changed_order'):
        ctx.inconclusive('the readdir shuffler never changed a directory listing')
    ch = ctx.cov.get('chaos_allocator', {})
    if not ch.get('address_order_inversions'):
        ctx.inconclusive('the chaos allocator never inverted heap address order')
