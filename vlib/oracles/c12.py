"""C12 — Configuration selection honours -D/-U and covers guarded code.

Run monitor over generated conditional skeletons (gen/condgen.py, model models/cfgselect.py): every
region holds one definite finding (constant out-of-bounds write in a uniquely named function) on a
known line.  Observed events: the `Checking <file>: <cfg>...` lines and the region findings.
 (1) with -D X every analysed configuration defines X and no region requiring !X reports;
     with -U X no configuration defines X and no region requiring X reports;
 (2) without -D, with --max-configs >= number of distinct guards (and with --force) every region's
     finding is reported.
"""
import os
import re
import shutil

from .. import cases
from ..core import sha1, VERIF
from ..run import pmap
from ..gen._retry import cppcheck
from ..gen import condgen
from ..models import cfgselect

PID = 'C12'
FLAVOURS = ['mon']
META = {
    'technique': 'run monitor with model cfgselect: Checking-lines and per-region findings of generated '
                 '#ifdef/#ifndef/#if defined()/#else skeletons under -D/-U/--max-configs/--force',
    'level_text': 'Sampled exploration: random conditional trees (depth <= 5, <= 8 distinct macros never defined in '
                  'the file, random sibling order and site positions); each region holds one uniquely located '
                  'arrayIndexOutOfBounds site. The real binary is run without -D (--max-configs >= distinct guards, '
                  'and --force) and with generated -D/-U sets (default, --force, small/large --max-configs).',
    'level_note': 'Only the family named in the statement is generated; coverage is asserted only without -D and with '
                  'enough --max-configs (or --force); the finding site is assumed to be reported whenever its region '
                  'is analysed (it is a definite arrayIndexOutOfBounds; every region of every generated skeleton reported it in '
                  'the coverage runs on the unchanged tree).',
    'design_ref': 'DESIGN.md §3 C12',
}

KNOWN_DIR = os.path.join(VERIF, 'known', 'C12')
TEMPLATE = '--template=FINDING\\t{file}\\t{line}\\t{id}'
_CHK = re.compile(r'^Checking (.+?): (.*)\.\.\.$')


def observe(d, fname, opts):
    """-> (cfg lines [str], finding lines set, Result)"""
    res = cppcheck(list(opts) + [TEMPLATE, fname], cwd=d, timeout=120)
    cfgs = []
    for line in res.otext().splitlines():
        m = _CHK.match(line.strip())
        if m and m.group(1) == fname:
            cfgs.append(m.group(2))
    lines = set()
    other = []
    for line in res.etext().splitlines():
        if line.startswith('FINDING\t'):
            _, f, ln, fid = line.split('\t')
            if fid == 'arrayIndexOutOfBounds' and f == fname:
                lines.add(int(ln))
            else:
                other.append(line)
    return cfgs, lines, res, other


def judge(ctx, text, line2region, origin, optsets=None, rng=None, keyname=None):
    """run all modes on one skeleton; returns number of armed observations"""
    regs = sorted(line2region.values(), key=lambda r: r.rid)
    macros = sorted({m for r in regs for m in r.guard})
    nguards = len({tuple(sorted(r.guard.items())) for r in regs})
    d = ctx.tmpdir()
    fname = 'skel.c'
    with open(os.path.join(d, fname), 'w') as f:
        f.write(text)
    h = keyname or sha1(text)
    armed = 0

    def viol(rid, opts, what, res):
        key = 'cfg:%s:r%s:%s' % (h, rid, ' '.join(opts))
        ctx.violation(key, '%s [%s]\nskeleton:\n%s' % (what, origin, text), files={'skel.c': text},
                      cmd='%s' % res.cmdline())

    def bad(res):
        if res.timed_out:
            ctx.inconclusive('watchdog fired: %s' % origin)
            return True
        if cases.crashed(res):
            ctx.violation('cfg:%s:crash' % h, 'cppcheck crashed rc=%s\n%s' % (res.rc, res.etext()[-800:]),
                          files={'skel.c': text}, cmd=res.cmdline())
            return True
        return False

    # ---- (2) coverage without -D
    cov_modes = [['--force']]
    if rng is None:
        cov_modes.append(['--max-configs=%d' % nguards])
    else:
        cov_modes.append(['--max-configs=%d' % rng.choice([nguards, nguards, nguards + 1, nguards + 7, 100])])
        if nguards <= 12 and rng.random() < 0.3:
            cov_modes.append([])          # default limit (12) is enough as well
    for opts in cov_modes:
        cfgs, lines, res, other = observe(d, fname, opts)
        ctx.ev()
        if bad(res):
            continue
        ctx.count('runs', 'coverage ' + (opts[0].split('=')[0] if opts else 'default-max-configs'))
        ctx.count('hist', 'configurations_seen_in_coverage_runs', max(1, len(cfgs)))
        for r in regs:
            if r.line in lines:
                ctx.count('hist', 'region_findings_observed')
                armed += 1
            else:
                ctx.count('hist', 'region_findings_MISSING')
                viol(r.rid, opts, 'region %d (line %d, guard %s) is never analysed: its finding is missing although '
                     'no -D is given and %s (distinct guards: %d); configurations analysed: %r'
                     % (r.rid, r.line, _g(r.guard), ' '.join(opts) or 'default --max-configs=12', nguards, cfgs), res)
        for ln in lines - set(line2region):
            viol('line%d' % ln, opts, 'finding on a line that holds no site: %d' % ln, res)

    # ---- (2b) coverage with -U only (still "without -D"): every region that does not require an undefined macro
    # to be defined must be analysed; regions requiring it are dead under -U and exempt
    if rng is not None and macros:
        for _ in range(2):
            us = rng.sample(macros, 1 if len(macros) < 2 or rng.random() < 0.7 else 2)
            opts = ['-U' + u for u in us] + [rng.choice(['--force', '--max-configs=%d' % (nguards + 2), '--max-configs=100'])]
            cfgs, lines, res, other = observe(d, fname, opts)
            ctx.ev()
            if bad(res):
                continue
            ctx.count('runs', 'coverage under -U')
            for r in regs:
                if any(r.guard.get(u) is True for u in us):
                    continue
                if r.line in lines:
                    ctx.count('hist', 'region_findings_observed_under_U')
                    armed += 1
                else:
                    viol(r.rid, opts, 'region %d (line %d, guard %s) is never analysed under %s although it does not require '
                         'an undefined macro and no -D is given; configurations analysed: %r'
                         % (r.rid, r.line, _g(r.guard), ' '.join(opts), cfgs), res)

    # ---- (1) -D / -U
    if optsets is None:
        optsets = []
        for _ in range(3):
            optsets.append(gen_optset(rng, macros))
    for dset, uset, mode in optsets:
        opts = []
        for name, val in dset:
            opts.append('-D%s' % name if val is None else '-D%s=%s' % (name, val))
        opts += ['-U' + u for u in uset]
        opts += mode
        cfgs, lines, res, other = observe(d, fname, opts)
        ctx.ev()
        if bad(res):
            continue
        ctx.count('runs', 'D/U %s' % (' '.join(m.split('=')[0] for m in mode) or 'default'))
        dn = [n for n, _ in dset]
        for c in cfgs:
            pc = cfgselect.parse_cfg(c)
            ctx.count('hist', 'cfg_lines_checked')
            armed += 1
            for n in dn:
                if n not in pc:
                    viol('cfgline', opts, 'analysed configuration %r does not define %s although -D%s is given'
                         % (c, n, n), res)
            for u in uset:
                if u in pc:
                    viol('cfgline', opts, 'analysed configuration %r defines %s although -U%s is given' % (c, u, u), res)
        if dn and not cfgs:
            ctx.count('hist', 'D-run-without-cfg-line')
        for ln in lines:
            r = line2region.get(ln)
            if r is None:
                continue
            armed += 1
            ctx.count('hist', 'region_findings_checked_against_D/U')
            for n in dn:
                if r.guard.get(n) is False:
                    viol(r.rid, opts, 'region %d (line %d, guard %s) requires %s to be undefined but reports under -D%s'
                         % (r.rid, ln, _g(r.guard), n, n), res)
            for u in uset:
                if r.guard.get(u) is True:
                    viol(r.rid, opts, 'region %d (line %d, guard %s) requires %s to be defined but reports under -U%s'
                         % (r.rid, ln, _g(r.guard), u, u), res)
    shutil.rmtree(d, ignore_errors=True)
    return armed


def _g(guard):
    return ' && '.join(('' if v else '!') + m for m, v in sorted(guard.items())) or '(none)'


def gen_optset(rng, macros):
    pool = list(macros) + ['NOT_IN_FILE']
    dset, uset = [], []
    r = rng.random()
    nd = 0 if r < 0.2 else (1 if r < 0.75 else 2)
    for _ in range(nd):
        n = rng.choice(pool)
        if n in [x for x, _ in dset]:
            continue
        dset.append((n, rng.choice([None, None, '1', '1', '0', '2', n])))
    nu = 1 if nd == 0 else rng.choice([0, 0, 1])
    for _ in range(nu):
        u = rng.choice(pool)
        if u not in [x for x, _ in dset] and u not in uset:
            uset.append(u)
    mode = rng.choice([[], [], ['--force'], ['--force'], ['--max-configs=%d' % rng.choice([1, 2, 3, 20])]])
    return dset, uset, mode


def _case(ctx, idx):
    rng = ctx.subrng('case', idx)
    root, _ = condgen.gen(rng)
    text, line2region = cfgselect.render(root, rng)
    armed = judge(ctx, text, line2region, 'seed=%d case=%d' % (ctx.seed, idx), rng=rng)
    regs = cfgselect.regions(root)
    cs = cfgselect.conds(root)
    ctx.count('skeleton_regions', min(len(regs), 12))
    for c in cs:
        ctx.count('conditional_kinds', c.kind + ('+else' if c.has_else else ''))
    depth = max(len(r.guard) for r in regs)
    ctx.count('skeleton_depth', depth)
    if len(regs) >= 2 and armed >= 3:
        ctx.trivial_or(sha1(text))
    if idx < 3:
        ctx.sample({'skeleton': text, 'regions': {r.rid: _g(r.guard) for r in regs}})


def parse_skeleton(text):
    """re-read a witness file of the same family -> {line: Region}"""
    guards, macs = [{}], []
    line2region = {}
    rid = 0
    for no, line in enumerate(text.splitlines(), 1):
        s = line.strip()
        m = re.match(r'#\s*(ifdef|ifndef)\s+(\w+)$', s)
        m2 = re.match(r'#\s*if\s*(!?)\s*defined\s*\(?\s*(\w+)\s*\)?$', s)
        if m or m2:
            mac = m.group(2) if m else m2.group(2)
            want = (m.group(1) == 'ifdef') if m else (m2.group(1) != '!')
            g = dict(guards[-1])
            g[mac] = want
            guards.append(g)
            macs.append(mac)
        elif s.startswith('#else'):
            g = dict(guards[-1])
            g[macs[-1]] = not g[macs[-1]]
            guards[-1] = g
        elif s.startswith('#endif'):
            guards.pop()
            macs.pop()
        elif s.startswith('void f_'):
            r = cfgselect.Region(rid, guards[-1])
            r.line = no
            line2region[no] = r
            rid += 1
    return line2region


def replay_known(ctx):
    if not os.path.isdir(KNOWN_DIR):
        return
    for name in sorted(os.listdir(KNOWN_DIR)):
        if not name.endswith('.c'):
            continue
        text = open(os.path.join(KNOWN_DIR, name)).read()
        line2region = parse_skeleton(text)
        judge(ctx, text, line2region, 'known witness ' + name, optsets=[], keyname=name[:-2])
        ctx.count('known_witness_replay', name)


def run(ctx):
    ctx.rule = ('case = generated conditional skeleton analysed without -D (--force and --max-configs >= distinct '
                'guards) and with 3 generated -D/-U/--force/--max-configs sets; non-trivial = >=2 regions and >=3 '
                'armed observations (region findings seen in coverage runs, cfg lines or region findings checked '
                'against -D/-U)')
    ctx.assumptions.append('generator exclusions in force: %s' % (
        sorted(k for k, v in condgen.EXCL.items() if not v[0]) or 'none'))
    replay_known(ctx)
    n = ctx.n(160, 5000)
    pmap(lambda i: _case(ctx, i), range(n), workers=6)
