"""C04 — Definite runtime-error findings are true positives.

Part A: generated programs that are correct by construction (progen) are analysed with --xml; an
error-severity, non-inconclusive finding of the undefined-behaviour family whose flagged expression
is evaluated by a sanitizer-clean execution — and whose triggering operand value is *known* in the
dump (findings that rest on merely possible values are outside the statement and only counted) —
is a violation.
Part B: straight-line resource programs (no conditional control flow) that allocate, use, alias and
release correctly; executed under ASan+LSan; an error-severity leak / double-free / use-after-free
finding on a program whose execution neither leaks nor misuses is a violation.
"""
import json
import os
import shutil

from .. import cases, dumpread, findings, probe
from ..core import sha1
from ..gen import progen, resgen
from ..run import pmap, cppcheck

PID = 'C04'
FLAVOURS = ['mon']
META = {
    'technique': 'runtime monitor: error-severity UB/leak findings of cppcheck checked against ASan+UBSan+LSan-clean '
                 'executions of generated correct programs (probe runtime tells which flagged expressions were evaluated)',
    'level_text': 'Sampled exploration over programs that are correct by construction: (A) arithmetic/pointer/array code '
                  'with guards, (B) straight-line allocation/alias/release sequences. A definite error finding at an '
                  'expression evaluated in a sanitizer-clean run, or a leak/double-free/use-after-free finding on a run '
                  'that LeakSanitizer/ASan found clean, is a violation. Evidence: error findings by id, judged/unjudged.',
    'level_note': 'A finding is judged only if the dump shows a known (not merely possible) triggering value on the flagged '
                  'token or its operands; gcc x86-64 + ASan/UBSan/LSan define "UB-free / leak-free"; uninitialised reads '
                  'are excluded by construction (every object is initialised), not by MemorySanitizer.',
    'design_ref': 'DESIGN.md §3 C04',
}

UB_IDS = {'nullPointer', 'zerodiv', 'arrayIndexOutOfBounds', 'negativeIndex', 'bufferAccessOutOfBounds', 'uninitvar',
          'uninitdata', 'uninitStructMember', 'shiftTooManyBits', 'shiftTooManyBitsSigned', 'shiftNegative',
          'shiftNegativeLHS', 'integerOverflow', 'invalidFunctionArg', 'invalidLifetime', 'danglingLifetime',
          'returnDanglingLifetime', 'containerOutOfBounds', 'nullPointerArithmetic', 'pointerOutOfBounds',
          'danglingTemporaryLifetime', 'autoVariables', 'returnReference', 'objectIndex', 'floatConversionOverflow',
          'invalidContainer', 'eraseDereference', 'derefInvalidIterator'}
LEAK_IDS = {'memleak', 'resourceLeak', 'doubleFree', 'deallocuse', 'deallocret', 'mismatchAllocDealloc',
            'memleakOnRealloc', 'leakReturnValNotUsed', 'leakNoVarFunctionCall', 'deallocDealloc', 'autovarInvalidDeallocation',
            'mismatchSize', 'useClosedFile', 'unsafeClassCanLeak'}


def _definite(dump_path, line, col):
    """True if the token at line:col, or all/the right operand of it, carries a *known* value."""
    try:
        toks, by_pos, values, _d = dumpread.read(dump_path)
    except Exception:
        return None
    cands = by_pos.get((line, col), [])
    if not cands:
        return None
    byid = {t.id: t for t in toks}

    def known(t):
        if t is None or not t.values:
            return False
        return any(v.get('known') == 'true' and ('intvalue' in v or 'uninit' in v or 'tokvalue' in v or 'container-size' in v)
                   for v in values.get(t.values, []))
    t = cands[0]
    if known(t):
        return True
    op1 = byid.get(t.attrs.get('astOperand1'))
    op2 = byid.get(t.attrs.get('astOperand2'))
    ops = [o for o in (op1, op2) if o is not None]
    if ops and all(known(o) for o in ops):
        return True
    if op2 is not None and known(op2):
        return True
    if op1 is not None and op2 is None and known(op1):
        return True
    return False


def check_program(prog, d, vecs, lang='c'):
    ext = '.c' if lang == 'c' else '.cpp'
    with open(os.path.join(d, 'p' + ext), 'w') as f:
        f.write(prog.plain)
    with open(os.path.join(d, 'p_i' + ext), 'w') as f:
        f.write(prog.inst)
    a = cases.analyse(d, ['-q', '--platform=unix64', '--library=std', 'p' + ext])
    if not a.xml_ok or a.res.timed_out or cases.crashed(a.res):
        return {'status': 'cppcheck-failed'}
    errs = [f for f in a.findings if f.severity == 'error' and not f.inconclusive and f.id in UB_IDS]
    other = [f for f in a.findings if f.severity == 'error' and f.id not in UB_IDS]
    exe, cr = probe.compile_inst(d, 'p_i' + ext, lang)
    if exe is None:
        return {'status': 'compile-failed', 'err': cr.etext()}
    obs = probe.run_inputs(exe, d, [], vecs)
    judged = []
    viols = []
    if errs:
        cppcheck(['--dump', '-q', '--platform=unix64', '--library=std', 'p' + ext], cwd=d)
    bypos = {(l, c): pid for pid, (l, c, _t, _k) in prog.probes.items()}
    byline = {}
    for pid, (l, c, _t, _k) in prog.probes.items():
        byline.setdefault(l, []).append(pid)
    lines = prog.plain.split('\n')
    for f in errs:
        _file, line, col = findings.primary(f)
        pid = bypos.get((line, col))
        evaluated = None
        if pid is not None:
            evaluated = pid in obs.probes
        else:
            src = lines[line - 1] if 0 < line <= len(lines) else ''
            if not any(x in src for x in ('&&', '||', '?')):
                ps = byline.get(line, [])
                if ps:
                    evaluated = all(p in obs.probes for p in ps)
        definite = _definite(os.path.join(d, 'p' + ext + '.dump'), line, col)
        judged.append((f, evaluated, definite))
        if evaluated and definite:
            viols.append(f)
    return {'status': 'ok', 'errs': errs, 'other': other, 'judged': judged, 'viols': viols, 'obs': obs}


def one_program(ctx, idx, lang, nvec):
    rng = ctx.subrng('prog', idx)
    prog = progen.gen(rng, lang=lang, bias='safe', profile='calibrated')
    d = ctx.tmpdir('p%d' % idx)
    try:
        vecs = prog.input_vectors(rng, nvec)
        res = check_program(prog, d, vecs, lang)
        ctx.ev()
        if res['status'] != 'ok':
            ctx.count('programs', res['status'])
            return
        ctx.count('executions', 'clean', res['obs'].ok_runs)
        ctx.count('executions', 'discarded', res['obs'].discarded)
        for f in res['other']:
            ctx.count('other_error_ids_not_judged', f.id)
        for f, ev, df in res['judged']:
            ctx.count('ub_error_findings', f.id)
            ctx.count('judgement', 'evaluated=%s definite=%s' % (ev, df))
        ext = '.c' if lang == 'c' else '.cpp'
        for f in res['viols']:
            _file, line, col = findings.primary(f)
            # key by finding id + flagged source line text: the same false positive shape maps to one key
            src = prog.plain.split('\n')[line - 1].strip()
            key = 'fp:%s:%s' % (f.id, sha1(_norm(src)))
            ctx.violation(key, 'error finding %s at %d:%d (%s) on an expression that a sanitizer-clean execution '
                               'evaluates; flagged line: %s' % (f.id, line, col, f.msg, src),
                          files={'p' + ext: prog.plain, 'p_i' + ext: prog.inst,
                                 'meta.json': json.dumps({'probes': prog.probes, 'vecs': vecs, 'lang': lang}),
                                 'trace.h': '@' + os.path.join(probe.HARNESS, 'trace.h')},
                          cmd='cppcheck -q --platform=unix64 --library=std p%s' % ext)
        if res['obs'].ok_runs and len(res['obs'].probes) >= 5:
            ctx.trivial_or(sha1(prog.plain))
        ctx.count('probes_evaluated_total', 'n', len(res['obs'].probes))
    finally:
        shutil.rmtree(d, ignore_errors=True)


def _norm(src):
    import re
    return re.sub(r'\d+', 'N', src)


def one_resource(ctx, idx):
    rng = ctx.subrng('res', idx)
    lang = 'c' if idx % 3 else 'cpp'
    text, shape = resgen.gen(rng, lang)
    judge_resource(ctx, 'r%d' % idx, text, lang, shape)


def judge_resource(ctx, tag, text, lang, shape):
    d = ctx.tmpdir(tag)
    ext = '.c' if lang == 'c' else '.cpp'
    try:
        with open(os.path.join(d, 'r' + ext), 'w') as f:
            f.write(text)
        a = cases.analyse(d, ['-q', '--platform=unix64', '--library=std,posix', 'r' + ext])
        ctx.ev()
        if not a.xml_ok or a.res.timed_out or cases.crashed(a.res):
            ctx.count('resource_programs', 'cppcheck-failed')
            return
        cc = ['gcc', '-std=gnu11'] if lang == 'c' else ['g++', '-std=gnu++17']
        from ..run import run as run_cmd, base_env
        r = run_cmd(cc + ['-w', '-O0', '-g', '-fsanitize=address,undefined', '-fno-sanitize-recover=all', 'r' + ext, '-o', 'r'],
                    cwd=d)
        if r.rc != 0:
            ctx.count('resource_programs', 'compile-failed')
            ctx.count('compile_errors', (r.etext().strip().splitlines() or ['?'])[0][:100])
            return
        e = run_cmd([os.path.join(d, 'r')], cwd=d, timeout=30,
                    env=base_env({'ASAN_OPTIONS': 'detect_leaks=1:abort_on_error=0:exitcode=77', 'UBSAN_OPTIONS': 'halt_on_error=1'}))
        clean = (not e.timed_out) and e.rc == 0 and b'Sanitizer' not in e.err
        if not clean:
            ctx.count('resource_programs', 'execution-not-clean(generator bug?)')
            ctx.count('resource_exec_errors', (e.etext().strip().splitlines() or ['rc=%s' % e.rc])[0][:100])
            return
        ctx.count('resource_programs', 'clean-execution')
        for s in shape:
            ctx.count('resource_shapes', s)
        ctx.trivial_or(sha1(text))
        for f in a.findings:
            if f.severity == 'error' and not f.inconclusive and f.id in (LEAK_IDS | UB_IDS):
                _file, line, col = findings.primary(f)
                src = text.split('\n')[line - 1].strip() if line else ''
                key = 'fp-resource:%s:%s' % (f.id, _norm(src).replace(' ', '_'))
                ctx.violation(key, 'error finding %s at %d:%d (%s) on a straight-line program whose execution is '
                                   'ASan/LSan-clean; flagged line: %s; shapes %s' % (f.id, line, col, f.msg, src, sorted(set(shape))),
                              files={'r' + ext: text}, cmd='cppcheck -q --library=std,posix r%s' % ext)
            elif f.severity == 'error':
                ctx.count('other_error_ids_not_judged', f.id)
        ctx.sample({'lang': lang, 'shapes': sorted(set(shape)), 'lines': text.count('\n')}, limit=3)
    finally:
        shutil.rmtree(d, ignore_errors=True)


def replay_known(ctx):
    import glob
    from ..build import VERIF
    for f in sorted(glob.glob(os.path.join(VERIF, 'known', PID, '*.c')) + glob.glob(os.path.join(VERIF, 'known', PID, '*.cpp'))):
        judge_resource(ctx, 'w_' + os.path.basename(f), open(f).read(), 'cpp' if f.endswith('.cpp') else 'c', ['known-witness'])


def run(ctx):
    replay_known(ctx)
    ctx.cov['generator_exclusions'] = dict(progen.EXCLUSIONS, **resgen.EXCLUSIONS)
    ctx.rule = ('case A = progen program (correct by construction) x N inputs, non-trivial when a sanitizer-clean '
                'execution evaluated >= 5 probed expressions; case B = straight-line resource program '
                '(malloc/calloc/strdup/new/new[]/fopen + alias/struct member/helper release) whose execution is '
                'ASan+LSan clean; distinct by program text')
    n = ctx.n(160, 8000)
    nvec = 8 if ctx.quick() else 24
    jobs = [(i, 'c' if i % 4 != 3 else 'cpp') for i in range(n)]
    pmap(lambda j: one_program(ctx, j[0], j[1], nvec), jobs, workers=16)
    pmap(lambda i: one_resource(ctx, i), range(ctx.n(160, 8000)), workers=16)
