"""C10 — Literal and constant values match the compiler on each platform.

Monitor: litgen units (literal spellings, integer constant expressions incl. sizeof, casts and
unsigned wrap-around) are analysed by `cppcheck --dump --platform=P`; for every literal / operator
token of a generated expression that carries a *known* value V in the dump, a probe
`static_assert(<that sub-expression> == V)` is compiled by `clang --target=<matching> -fsyntax-only`
(gcc as second opinion on native/unix64). A failing assertion is the witness; an expression the
reference does not accept as a constant is dropped and counted.
"""
import os
import re
import shutil

from .. import run as vrun
from ..core import sha1
from ..gen import exprgen, litgen
from ..models import cdump, exprcmp, platforms
from . import c09

PID = 'C10'
FLAVOURS = ['mon']
META = {
    'technique': 'differential monitor: known values in cppcheck --dump vs static_assert probes compiled by '
                 'clang --target=<platform> (gcc second opinion natively)',
    'level_text': 'Sampled exploration: integer literals in all bases with every suffix combination (digit '
                  'separators in C++), character literals with all prefixes, simple/octal/hex/universal escapes and '
                  'multi-character constants, true/false, enumerators, floating literals, and integer constant '
                  'expressions with unsigned wrap-around, casts, comparisons, ?:, sizeof(type) and sizeof of '
                  'variables, arrays, structs, members and expressions, in C and C++ on native, unix64, unix32, '
                  'win32A, win32W, win64 and generated platform files (avr, msp430, mips32, riscv32, arm32, '
                  'aarch64). Every known value cppcheck attaches to a literal or operator token is turned into a '
                  'static_assert on exactly that sub-expression and compiled for the matching target.',
    'level_note': 'Sampled. Only tokens with a known value are judged. Unsigned 64-bit values are compared modulo '
                  '2^64 (the dump prints values as 64-bit numbers). Floating values are compared with a relative '
                  'tolerance (1e-6 for f-suffixed literals, 1e-10 otherwise; the dump prints 12 significant '
                  'digits). On generated platform files wchar_t-signedness-dependent cases are not generated (a '
                  'platform file has no field for it).',
    'design_ref': 'DESIGN.md §3 C10',
}

# generator exclusions named after findings: name -> (finding key, condition(lang, plat))
FINDING_EXCLUSIONS = {
    'cast-bool': ('expr:(_Bool)9:unix64', lambda lang, plat: True),
    'char-highbit': ("expr:'\\x80':aarch64", lambda lang, plat: plat.char_unsigned),
    'multichar': ("expr:'abc':avr", lambda lang, plat: plat.sizes['int'] == 2),
    'sizeof': ('C09 expr:sizeof(int):unix32', lambda lang, plat: not c09._size_t_ok(plat)),
    'sizeof-struct': ('expr:sizeof(st1)+9:unix64', lambda lang, plat: True),
}


DBG = [] if os.environ.get('C10_DEBUG') else None


def keyof(text, plat, lang):
    return 'expr:%s:%s' % (re.sub(r'\s+', '', text), plat.name + ('' if lang == 'c' else '/c++'))


def excl_for(lang, plat):
    ex = set()
    for name, (key, cond) in FINDING_EXCLUSIONS.items():
        if cond(lang, plat):
            ex.add(name)
    if plat.generated:
        ex.add('char-prefix')      # model limit: platform files do not say whether wchar_t is signed
    return ex


def int_cond(e, v):
    """constant expression that is true iff the value of integer expression e equals cppcheck's printed value v
    (v is the 64-bit number printed in the dump; 64-bit unsigned results are compared modulo 2^64)"""
    E = '(' + e + ')'
    if v >= 0:
        if v > 18446744073709551615:
            return None
        return '!(%s < 0) && (unsigned long long)%s == %dULL' % (E, E, v)
    if v < -9223372036854775808:
        return None
    lit = '(-%dLL-1)' % (-(v + 1))
    return '(%s < 0) ? ((long long)%s == %s) : (sizeof%s >= 8 && (unsigned long long)%s == (unsigned long long)%s)' % (
        E, E, lit, E, E, lit)


def flt_cond(e, v, tol, mag=0.0):
    """mag: largest magnitude of a floating literal in the expression — a sum/difference is only as precise as its
    operands (cancellation), so the tolerance is relative to max(|v|, mag)"""
    E = '(' + e + ')'
    if v != v or v in (float('inf'), float('-inf')):
        return None
    a = max(abs(v), mag) * tol
    V = repr(v) + 'L' if ('e' in repr(v) or '.' in repr(v)) else repr(v) + '.0L'
    T = repr(a if a > 0 else 1e-300) + 'L'
    if 'e' not in T and '.' not in T:
        T = T[:-1] + '.0L'
    return '(%s - %s <= %s) && (%s - %s <= %s)' % (E, V, T, V, E, T)


def same_literal(tokstr, txt):
    """is the cppcheck token the generated literal? (cppcheck respells `.5` as `0.5`, `3.` as `3.0` and drops
    digit separators)"""
    if tokstr == txt:
        return True
    a = txt if txt[:1] in "'LuU" and "'" in txt[:3] else txt.replace("'", '')
    if tokstr == a:
        return True
    try:
        return float(tokstr.rstrip('fFlL')) == float(a.rstrip('fFlL')) and tokstr[-1:].lower() == a[-1:].lower() or (
            float(tokstr.rstrip('fFlL')) == float(a.rstrip('fFlL')) and tokstr[-1:].isdigit() and (a[-1:].isdigit() or a[-1:] == '.'))
    except ValueError:
        return False


def collect(u, dump, pu, ti, ctx, lang, plat):
    """-> list of probes (line, node, text, kind, value, token)"""
    probes = []
    for line, st in sorted(u.stmts.items()):
        rhs = st.ch[1]
        for n in rhs.walk():
            if n.k == 'leaf' and ('raw' in n.flags or 'var' in n.flags):
                continue
            tok = c09.node_token(n, ti, pu)
            kind = c09.opdesc(n) if n.k != 'leaf' else ('literal:' + ('chr' if 'chr' in n.flags else 'flt' if 'flt' in n.flags
                                                                        else 'bool' if 'bool' in n.flags else 'enumerator'
                                                                        if 'enumerator' in n.flags else 'int'))
            if tok is None:
                ctx.count('no_token_at_position', kind)
                continue
            # the token must be the expected one
            exp = {'bin': n.op, 'pre': n.op, 'cond': '?', 'cast': '(', 'fcast': '(', 'ncast': '(', 'sze': '(', 'szt': '('}.get(n.k)
            if exp is not None and tok.str != exp:
                ctx.count('dropped', 'token at operator position is not the operator (tree differs)')
                continue
            if n.k == 'leaf' and not same_literal(tok.str, n.txt):
                # e.g. columns after a literal with digit separators are shifted in cppcheck's token list
                ctx.count('dropped', 'token at the literal position is not the literal')
                continue
            # cppcheck's subtree must lie inside the printed span of the node
            cols = [x.col for x in pu.tree_tokens(tok) if x.col > 0 and x.line == line]
            slack = sum(nn for c, nn in ti.seps.get(line, ()))
            if cols and (min(cols) < n.span[0] - 1 - slack or max(cols) >= n.span[1] + 2):
                ctx.count('dropped', 'cppcheck subtree exceeds the sub-expression (tree differs)')
                continue
            kv = dump.known_values(tok)
            vals = [(k, v[k]) for v in kv for k in ('intvalue', 'floatvalue') if k in v]
            if not vals:
                ctx.count('no_known_value', kind)
                continue
            if len(vals) > 1:
                ctx.count('dropped', 'token with several known values')
                continue
            text = u.lines[line - 1][n.span[0] - 1:n.span[1] - 1]
            probes.append((line, n, text, kind, vals[0][0], vals[0][1], tok))
    return probes


SENT = 0x7ffffffffffffff1


def run_reference(argv, cwd):
    r = vrun.run(argv, cwd=cwd, timeout=300)
    if r.timed_out:
        return None
    fails, other, notes = set(), set(), {}
    for m in re.finditer(r'^[^\n:]+:(\d+):\d+: (?:fatal )?error: ([^\n]*)', r.etext(), re.M):
        ln = int(m.group(1))
        msg = m.group(2)
        if 'static_assert failed' in msg or 'static assertion failed' in msg:
            fails.add(ln)
        else:
            other.add(ln)
    for m in re.finditer(r"^[^\n:]+:(\d+):\d+: note: expression evaluates to '(-?\d+) == \d+'", r.etext(), re.M):
        notes[int(m.group(1))] = int(m.group(2))
    return fails, other, r, notes


class Ref:
    """what the reference compiler says about one sub-expression"""
    __slots__ = ('value', 'size', 'unsigned', 'neg')

    def __init__(self, bits, info):
        self.size = info // 1000
        self.neg = (info // 100) % 10 == 1
        self.unsigned = info % 10 == 1
        self.value = bits - (1 << 64) if self.neg and bits >= (1 << 63) else bits


def reference_values(ctx, d, name, u, lang, plat, nodes):
    """nodes: list of (line, node, text). One clang-16 run; values are read from the notes of deliberately failing
    static_asserts (`expression evaluates to 'V == …'`). -> {id(node): Ref}"""
    sa = 'static_assert' if lang == 'c++' else '_Static_assert'
    ty = 'decltype' if lang == 'c++' else '__typeof__'
    head = u.lines[:u.tail_line - 1]
    tail = u.lines[u.tail_line - 1:]
    body, where = [], {}
    for line, n, txt in nodes:
        E = '(' + txt + ')'
        body.append('  %s((unsigned long long)%s == %dULL, "v");' % (sa, E, SENT))
        body.append('  %s((unsigned long long)(sizeof%s * 1000 + (%s < 0) * 100 + (((%s%s)-1) > 0)) == %dULL, "t");' % (
            sa, E, E, ty, E, SENT))
        where[id(n)] = len(head) + len(body) - 1
    pn = 'ref_' + name
    with open(os.path.join(d, pn), 'w') as f:
        f.write('\n'.join(head + body + tail) + '\n')
    ref = run_reference([platforms.CLANG16, '-fsyntax-only', '-w', '-ferror-limit=0', '-x', 'c++' if lang == 'c++' else 'c',
                         '-std=' + ('c++17' if lang == 'c++' else 'c11')] + plat.clang_args() + [pn], d)
    if ref is None:
        return None
    out = {}
    for line, n, txt in nodes:
        l1 = where[id(n)]
        if l1 in ref[3] and (l1 + 1) in ref[3]:
            out[id(n)] = Ref(ref[3][l1], ref[3][l1 + 1])
    stray = [l for l in ref[1] if l <= len(head) or l > len(head) + len(body)]
    if stray:
        ctx.sample({'reference-error': ref[2].etext()[:300]})
        return None
    return out


def _child_vals(n, refs):
    vs = []
    for c in n.ch:
        r = refs.get(id(c))
        if r is None:
            return None
        vs.append(r)
    return vs


def pat_unsigned_wrap(n, refs, lang, plat):
    """unsigned arithmetic narrower than 64 bits whose mathematical result does not fit the type"""
    if n.k == 'bin' and n.op != ',':
        # `~x` with x unsigned and narrower than 64 bits is computed correctly on its own (and is judged), but carries
        # the unreduced 64-bit complement when it is an operand of a binary operator (witness `1 + ~65535u`)
        for c in n.ch:
            rc = refs.get(id(c))
            if c.k == 'pre' and c.op == '~' and rc is not None and rc.unsigned and rc.size < 8:
                return True
    r = refs.get(id(n))
    if r is None or not r.unsigned:
        return False
    cv = _child_vals(n, refs)
    if not cv:
        return False
    try:
        if n.k == 'bin' and n.op in ('+', '-', '*', '<<'):
            a, b = cv[0].value, cv[1].value
            m = {'+': a + b, '-': a - b, '*': a * b, '<<': a << b if 0 <= b < 64 else None}[n.op]
        elif n.k == 'pre' and n.op == '-':
            m = -cv[0].value
        else:
            return False
    except Exception:
        return False
    return m is not None and m != r.value


def pat_mixed_sign(n, refs, lang, plat):
    """binary operator with one negative signed operand and one unsigned operand at least as wide"""
    if n.k == 'cond':
        cv = _child_vals(n, refs)
        cv = cv[1:] if cv else None
    elif n.k == 'bin' and n.op != ',':
        cv = _child_vals(n, refs)
    else:
        return False
    if not cv:
        return False
    isz = plat.sizes['int']
    for x, y in ((cv[0], cv[1]), (cv[1], cv[0])):
        if x.unsigned or not y.unsigned:
            continue
        xs, ys = max(x.size, isz), max(y.size, isz)
        # x signed, y unsigned
        if x.neg and ys >= xs:
            return True
        # equal sizes: cppcheck converts to the sign of the *left* operand; an unsigned value with the top bit set
        # then changes
        if ys <= xs and ys < 8 and y.value >= (1 << (ys * 8 - 1)):
            return True
    return False


def pat_cast_signed_narrow(n, refs, lang, plat):
    """conversion to a signed type narrower than 64 bits that changes the value"""
    if n.k not in ('cast', 'fcast', 'ncast'):
        return False
    r = refs.get(id(n))
    cv = _child_vals(n, refs)
    if r is None or not cv:
        return False
    return (not r.unsigned) and r.size < 8 and cv[0].value != r.value


def _float_child(n):
    if n.k in ('cast', 'fcast', 'ncast') and n.ch and n.ch[0].k == 'leaf' and 'flt' in n.ch[0].flags:
        try:
            return float(n.ch[0].txt.rstrip('fFlL'))
        except ValueError:
            return None
    return None


def msvc_signed_ll(n):
    """non-decimal literal with an ll suffix (no u) whose value needs the top bit of long long: clang in MSVC
    compatibility mode types it signed long long (as MSVC does), ISO C/C++ say unsigned long long — the reference is
    not authoritative for the property on such a literal"""
    if n.k != 'leaf' or 'int' not in n.flags:
        return False
    t = n.txt.replace("'", '')
    suf = t[len(t.rstrip('uUlL')):].lower()
    if suf != 'll':
        return False
    v, base = c09._lit_value(t)
    return v is not None and base != 'dec' and v >= (1 << 63)


def undefined_float_cast(n, refs):
    """conversion of a floating value that the target integer type cannot represent: undefined behaviour, no
    conforming value exists (the C front end of clang folds it anyway)"""
    v = _float_child(n)
    r = refs.get(id(n))
    if v is None or r is None:
        return False
    bits = r.size * 8
    lo, hi = (0, (1 << bits) - 1) if r.unsigned else (-(1 << (bits - 1)), (1 << (bits - 1)) - 1)
    return not (lo - 1 < v < hi + 1)


def undefined_signed_overflow(n, refs):
    """signed + - * or unary - whose mathematical result differs from what the compiler folded: overflow,
    undefined (clang's C front end folds with wrap-around and only warns)"""
    r = refs.get(id(n))
    cv = _child_vals(n, refs)
    if r is None or r.unsigned or not cv:
        return False
    if n.k == 'bin' and n.op in ('+', '-', '*'):
        a, b = cv[0].value, cv[1].value
        m = {'+': a + b, '-': a - b, '*': a * b}[n.op]
    elif n.k == 'pre' and n.op == '-':
        m = -cv[0].value
    else:
        return False
    return m != r.value


def undefined_shift(n, refs, plat):
    """<< whose count is not below the width of the promoted left operand, or signed << whose mathematical result
    is not representable: undefined in C (clang's C front end folds it anyway)"""
    if n.k != 'bin' or n.op not in ('<<', '>>'):
        return False
    r = refs.get(id(n))
    cv = _child_vals(n, refs)
    if r is None or not cv:
        return False
    if cv[1].value < 0 or cv[1].value >= r.size * 8:
        return True
    if n.op == '<<' and not r.unsigned:
        return cv[0].value < 0 or (cv[0].value << cv[1].value) != r.value
    return False


def pat_cast_char_negative(n, refs, lang, plat):
    """conversion to plain char with a negative result (char signed on the platform)"""
    if n.k == 'cast':
        ty = n.extra
    elif n.k == 'fcast':
        ty = n.op
    elif n.k == 'ncast':
        ty = n.txt
    else:
        return False
    r = refs.get(id(n))
    return ty == 'char' and r is not None and r.value < 0


def pat_truth_as_value(n, refs, lang, plat):
    """operand in a boolean context (condition of ?:, operand of ! or &&) that contains an unsigned 64-bit value
    >= 2^63: cppcheck does not store such values ("too big, ambiguous") and then reports the truth value 1 of the
    operand as its known value"""
    if n.k == 'cond':
        ops = n.ch[:1]
    elif n.k == 'pre' and n.op == '!':
        ops = n.ch
    elif n.k == 'bin' and n.op in ('&&', '||'):
        ops = n.ch
    else:
        return False
    for o in ops:
        for x in o.walk():
            r = refs.get(id(x))
            if r is not None and r.unsigned and r.size == 8 and r.value >= (1 << 63):
                return True
            if x.k == 'sze' and x.ch and 'raw' in x.ch[0].flags:
                return True      # sizeof of a non-trivial expression: often without a value in cppcheck
    return False


def pat_float_cast_large(n, refs, lang, plat):
    """floating literal >= 2^31 converted to an integer type that can hold it"""
    v = _float_child(n)
    return v is not None and abs(v) >= 2147483648.0


def pat_ulong32_highbit(n, refs, lang, plat):
    """literal of type unsigned long where long is 32 bit, with bit 31 set"""
    if n.k != 'leaf' or 'int' not in n.flags:
        return False
    r = refs.get(id(n))
    m = re.search(r'[uUlL]+$', n.txt)
    suf = m.group(0).lower() if m else ''
    if r is None or not r.unsigned or r.size >= 8 or r.value < (1 << (r.size * 8 - 1)):
        return False
    # unsigned int of 32 bit is handled correctly; unsigned long of 32 bit and unsigned int of 16 bit are not
    return (r.size == 4 and plat.sizes['long'] == 4 and suf.count('l') == 1) or (r.size == 2)


def pat_u64_complement(n, refs, lang, plat):
    """`~x` with x an unsigned 64-bit value that has the top bit set"""
    if n.k != 'pre' or n.op != '~':
        return False
    r = refs.get(id(n.ch[0]))
    return r is not None and r.unsigned and r.size >= 8 and r.value >= (1 << 63)


def _cast_type(n):
    return n.extra if n.k == 'cast' else (n.op if n.k == 'fcast' else (n.txt if n.k == 'ncast' else None))


def _sign_unknown_to_cppcheck(c):
    if c.k == 'leaf':
        return 'bool' in c.flags or ('chr' in c.flags and c.txt[:1] in 'LuU')
    if c.k == 'bin':
        return c.op in ('<', '<=', '>', '>=', '==', '!=', '&&', '||')
    if c.k == 'pre':
        return c.op == '!'
    t = _cast_type(c)
    return t in ('char', 'bool', '_Bool', 'wchar_t', 'char16_t', 'char32_t')


def pat_narrow_operands(n, refs, lang, plat):
    """binary operator whose operands are both narrower than int and of different types: cppcheck converts one
    operand's value to the other operand's narrow type instead of promoting both to int"""
    if n.k != 'bin' or n.op == ',':
        return False
    cv = _child_vals(n, refs)
    if not cv:
        return False
    isz = plat.sizes['int']
    for x, y, cx, cy in ((cv[0], cv[1], n.ch[0], n.ch[1]), (cv[1], cv[0], n.ch[1], n.ch[0])):
        if x.unsigned or x.value >= 0:
            continue
        # x is a negative signed operand
        if x.size < isz and _cast_type(cx) != _cast_type(cy):
            return True         # narrower than int: converted to the other operand's type instead of promoted
        if _sign_unknown_to_cppcheck(cy):
            return True         # the other operand's type has no sign in cppcheck (bool, plain char, wide characters)
    if cv[0].size >= isz or cv[1].size >= isz:
        return False
    if cv[0].unsigned != cv[1].unsigned or cv[0].size != cv[1].size:
        return True
    ts = [_cast_type(c) for c in n.ch]
    return ts[0] != ts[1]


def pat_u64_compare(n, refs, lang, plat):
    """relational comparison with an unsigned 64-bit operand >= 2^63 (cppcheck compares the 64-bit signed images)"""
    if n.k != 'bin' or n.op not in ('<', '<=', '>', '>='):
        return False
    cv = _child_vals(n, refs)
    if not cv:
        return False
    return any(c.unsigned and c.size >= 8 and c.value >= (1 << 63) for c in cv)


def pat_type_follows_c09_finding(n, refs, lang, plat):
    """`~x` where cppcheck's *type* of x is wrong by a listed C09 finding, so the complement is taken in the wrong
    type: (a) x = a op b with operands of the same size and different signedness (C09 same-size-rank: cppcheck keeps
    the signed type); (b) x of type unsigned short / char16_t where short is as wide as int (C09
    ushort-promotion-16bit-int: promotes to unsigned int, cppcheck says int)"""
    if n.k != 'pre' or n.op != '~':
        return False
    c = n.ch[0]
    isz = plat.sizes['int']
    if c.k == 'bin' and c.op in ('+', '-', '*', '/', '%', '&', '|', '^'):
        cv = _child_vals(c, refs)
        if cv and max(cv[0].size, isz) == max(cv[1].size, isz) and cv[0].unsigned != cv[1].unsigned:
            return True
    rc = refs.get(id(c))
    if rc is not None and rc.unsigned and rc.size == isz and plat.sizes['short'] == isz:
        t = _cast_type(c)
        if t in ('unsigned short', 'char16_t') or (c.k == 'leaf' and 'chr' in c.flags and c.txt[:1] == 'u' and c.txt[:2] != 'u8'):
            return True
    return False


def pat_lit(n, refs, lang, plat):
    return c09.pat_hex_literal(n, None, lang, plat) or c09.pat_octal_literal(n, None, lang, plat)


# name -> (finding key of the witness, predicate); a statement containing a matching node is not used
FINDING_PATTERNS = [
    ('unsigned-wrap', 'expr:0u-1:unix64', pat_unsigned_wrap),
    ('mixed-sign-operands', 'expr:EM:unix32 expr:EM<1u:unix64 expr:0x80000001ul:unix32 expr:0X8001:avr', pat_mixed_sign),
    ('literal-type', 'expr:0x100000001u:unix64 expr:0X100000000Lu:msp430 (C09 expr:0x100000000:unix64, expr:037777777777:unix64)', pat_lit),
    ('float-cast-large', 'expr:(longlong)4e9:unix64', pat_float_cast_large),
    ('truth-as-value', 'expr:sizeof(st1)+9:unix64', pat_truth_as_value),
    ('cast-char-negative', "expr:(char)-'\\r':unix64", pat_cast_char_negative),
    ('u64-complement', 'expr:~0xFFFFFFFFFFFFFFFF<=0:unix64', pat_u64_complement),
    ('type-follows-c09-finding', 'C09 expr:l1+u1:unix32, expr:~us1:msp430', pat_type_follows_c09_finding),
    ('u64-compare', 'expr:62-((8L>=~145LLu)+8u):unix64', pat_u64_compare),
    ('narrow-operands', 'expr:(unsignedchar)214:unix64 expr:(unsignedshort)65000:unix64 expr:(signedchar)254:unix64 expr:~0177777:unix32 expr:(signedchar)255:unix32', pat_narrow_operands),
]


def check_unit(ctx, d, name, u, lang, plat, use_gcc, use_patterns=True):
    text = u.text()
    path = os.path.join(d, name)
    with open(path, 'w') as f:
        f.write(text)
    parg = plat.cppcheck_arg(d)
    r = vrun.cppcheck(['--dump', '-q', '--language=' + lang, parg, name], cwd=d)
    if r.timed_out:
        ctx.inconclusive('watchdog fired on %s' % name)
        return
    try:
        dump = cdump.load(path + '.dump')
    except Exception as e:
        ctx.count('dropped', 'unit: dump missing/unreadable (%s)' % type(e).__name__)
        return
    os.unlink(path + '.dump')
    if b'syntaxError' in r.err or not dump.ok:
        m = re.search(r':(\d+):\d+: error: [^\n]*\n([^\n]*)', r.etext())
        ctx.count('dropped', 'unit: cppcheck does not accept the unit')
        ctx.count('cppcheck_rejects', (m.group(2).strip()[:80] if m else r.etext()[:80]))
        return
    bad = platforms.check_dump_platform(plat, dump.platform)
    if bad:
        ctx.inconclusive('platform pairing broken for %s: %s' % (plat.name, '; '.join(bad)))
        return
    nums = [(x.pos[0], x.pos[1], len(x.txt)) for st in u.stmts.values() for x in st.walk()
            if x.k == 'leaf' and 'raw' not in x.flags and exprgen.leaftext(x.txt) == '#']
    seps = [(x.pos[0], x.pos[1], x.txt.count("'")) for st in u.stmts.values() for x in st.walk()
            if x.k == 'leaf' and 'int' in x.flags and "'" in x.txt]
    nums = [(l, c - sum(n for (l2, c2, n) in seps if l2 == l and c2 < c), ln) for (l, c, ln) in nums]
    pu = exprcmp.CppUnit(dump, (), nums)
    ti = c09.TokIndex(pu, seps)
    probes = collect(u, dump, pu, ti, ctx, lang, plat)
    if not probes:
        return
    # ---- reference values of every integer node of the statements (clang-16 constant evaluator)
    inodes = []
    for line, st in sorted(u.stmts.items()):
        if st.cat != 'I':
            continue
        for n in st.ch[1].walk():
            if n.k == 'leaf' and ('raw' in n.flags or 'var' in n.flags or 'flt' in n.flags):
                continue
            inodes.append((line, n, u.lines[line - 1][n.span[0] - 1:n.span[1] - 1]))
    refs = reference_values(ctx, d, name, u, lang, plat, inodes)
    if refs is None:
        ctx.count('dropped', 'unit: reference compiler reports errors outside probes')
        return
    excluded_lines = {}
    unref = set(line for line, n, _t in inodes if id(n) not in refs)
    for line, st in u.stmts.items():
        if line in unref:
            # the finding patterns are decided with the reference's value and type of *every* operand
            excluded_lines[line] = None
            ctx.count('dropped', 'statement: the reference does not evaluate every sub-expression (not a constant there)')
            continue
        if 'msvc' in plat.triple and any(msvc_signed_ll(x) for x in st.ch[1].walk()):
            excluded_lines[line] = None
            ctx.count('dropped', 'statement: LL-suffixed literal above LLONG_MAX on an MSVC target (reference types it signed '
                                 'for MSVC compatibility, the standard says unsigned)')
            continue
        if any(undefined_float_cast(x, refs) for x in st.ch[1].walk()):
            excluded_lines[line] = None
            ctx.count('dropped', 'statement: floating value not representable in the target type (undefined)')
        elif any(undefined_signed_overflow(x, refs) for x in st.ch[1].walk()):
            excluded_lines[line] = None
            ctx.count('dropped', 'statement: signed overflow (undefined)')
        elif any(undefined_shift(x, refs, plat) for x in st.ch[1].walk()):
            excluded_lines[line] = None
            ctx.count('dropped', 'statement: shift count out of range or signed left shift overflow (undefined)')
    if use_patterns:
        for line, st in u.stmts.items():
            if line in excluded_lines:
                continue
            for x in st.ch[1].walk():
                for pname, pkey, pred in FINDING_PATTERNS:
                    if pred(x, refs, lang, plat):
                        excluded_lines[line] = pname
                        break
                if line in excluded_lines:
                    break
        for pname in excluded_lines.values():
            if pname:
                ctx.count('excluded_by_finding_pattern', pname)
    # ---- floating probes: boolean assertions with tolerance, compiled as C++
    fprobe, fbody = {}, ['void fp() {']
    iresults = []
    for p in probes:
        line, n, txt, kind, vk, vv, tok = p
        if line in excluded_lines:
            continue
        if vk == 'intvalue':
            rf = refs.get(id(n))
            if rf is None:
                ctx.count('dropped', 'reference does not accept the expression as a constant')
                continue
            try:
                v = int(vv)
            except ValueError:
                ctx.count('dropped', 'unparsable intvalue')
                continue
            ok = (v == rf.value) or (rf.unsigned and rf.size >= 8 and (v - rf.value) % (1 << 64) == 0)
            if not ok and n.k in ('cast', 'fcast', 'ncast') and n.ch and n.ch[0].k == 'leaf' and 'flt' in n.ch[0].flags \
                    and (n.ch[0].txt[-1:] in 'fF' or plat.sizes.get('double', 8) < 8):
                # the value of an f-suffixed literal is only compared with float precision (see level_note)
                ok = abs(v - rf.value) <= abs(rf.value) * 1e-6
            iresults.append((p, rf, ok))
        else:
            if any(x.k in ('sze', 'szt') or (x.k == 'leaf' and ('var' in x.flags or 'raw' in x.flags or 'enumerator' in x.flags))
                   for x in n.walk()):
                ctx.count('dropped', 'floating probe not self-contained')
                continue
            try:
                v = float(vv)
            except ValueError:
                ctx.count('dropped', 'unparsable floatvalue')
                continue
            tol = 1e-6 if any((x.k == 'leaf' and x.txt[-1:] in 'fF' and 'flt' in x.flags) or
                              (x.k == 'cast' and x.extra == 'float') for x in n.walk()) else 1e-10
            if plat.sizes.get('double', 8) < 8:
                # double is a 32-bit type on this platform (avr): the compiler rounds every operation to float
                # precision; cppcheck computes in the host's double — compared with float precision (level_note)
                tol = 1e-6
            mag = 0.0
            if any(x.k == 'bin' and x.op in ('+', '-') for x in n.walk()):
                for x in n.walk():
                    if x.k == 'leaf' and 'flt' in x.flags:
                        try:
                            mag = max(mag, abs(float(x.txt.rstrip('fFlL'))))
                        except ValueError:
                            pass
            cond = flt_cond(txt, v, tol, mag)
            if cond is None:
                ctx.count('dropped', 'value not representable in a probe')
                continue
            fbody.append('  static_assert(%s, "p");' % cond)
            fprobe[len(fbody)] = p
    results = []     # (probe, failed, description of the reference)
    # gcc second opinion (native data model): gcc must agree with clang's value
    if use_gcc and iresults:
        sa = 'static_assert' if lang == 'c++' else '_Static_assert'
        head = u.lines[:u.tail_line - 1]
        tail = u.lines[u.tail_line - 1:]
        body, where = [], {}
        for p, rf, ok in iresults:
            cond = int_cond(p[2], rf.value)
            if cond is None:
                continue
            body.append('  %s(%s, "g");' % (sa, cond))
            where[len(head) + len(body)] = p
        pn = 'gcc_' + name
        with open(os.path.join(d, pn), 'w') as f:
            f.write('\n'.join(head + body + tail) + '\n')
        g = run_reference([platforms.GCC, '-fsyntax-only', '-w', '-fmax-errors=0', '-x', 'c++' if lang == 'c++' else 'c',
                           '-std=' + ('c++17' if lang == 'c++' else 'c11'), pn], d)
        disagree = set()
        if g is not None:
            for ln, p in where.items():
                if ln in g[0] or ln in g[1]:
                    disagree.add(id(p[1]))
        kept = []
        for p, rf, ok in iresults:
            if id(p[1]) in disagree:
                ctx.count('dropped', 'clang and gcc disagree (or gcc does not accept the constant)')
                continue
            kept.append((p, rf, ok))
        iresults = kept
    for p, rf, ok in iresults:
        results.append((p, not ok, 'clang-16 --target=%s evaluates it to %d (%s, %d bytes)' % (
            plat.triple, rf.value, 'unsigned' if rf.unsigned else 'signed', rf.size)))
    if len(fbody) > 1:
        pn = 'fprobe_' + name.rsplit('.', 1)[0] + '.cpp'
        with open(os.path.join(d, pn), 'w') as f:
            f.write('\n'.join(fbody + ['}']) + '\n')
        ref = run_reference([platforms.CLANG, '-fsyntax-only', '-w', '-ferror-limit=0', '-x', 'c++', '-std=c++17']
                            + plat.clang_args() + [pn], d)
        gref = None
        if use_gcc:
            gref = run_reference([platforms.GCC, '-fsyntax-only', '-w', '-fmax-errors=0', '-x', 'c++', '-std=c++17', pn], d)
        if ref is None:
            ctx.inconclusive('watchdog fired on reference compiler')
            return
        for ln, p in fprobe.items():
            if ln in ref[1] or (gref and ln in gref[1]):
                ctx.count('dropped', 'reference does not accept the expression as a constant')
                continue
            if gref and ((ln in gref[0]) != (ln in ref[0])):
                ctx.count('dropped', 'clang and gcc disagree (or gcc does not accept the constant)')
                continue
            results.append((p, ln in ref[0], 'static_assert(|expr - value| <= tolerance) compiled by clang --target=%s %s' % (
                plat.triple, 'FAILS' if ln in ref[0] else 'holds')))
    # root causes only: a failing node is reported unless one of its descendants fails too
    failing = set(id(p[1]) for p, bad_, why in results if bad_)
    for p, bad_, why in results:
        line, n, txt, kind, vk, vv, tok = p
        ctx.ev()
        if bad_ and any(id(x) in failing for c in n.ch for x in c.walk()):
            ctx.count('mismatch', 'propagated from an operand (not reported)')
            continue
        ctx.count('judged_by_kind', kind)
        ctx.count('judged_by_platform', plat.name)
        if n.k != 'leaf' or 'chr' in n.flags or len(n.txt) > 3:
            ctx.trivial_or(sha1(txt + plat.name + lang))
        if bad_:
            what = ('%s, platform %s\n  expression: %s\n  in statement: %s\n'
                    '  cppcheck known %s = %s (token `%s` at column %d, valueType %s)\n  reference: %s'
                    % (lang, plat.name, txt, u.lines[line - 1].strip(), vk, vv, tok.str, tok.col, cdump.vtype(tok), why))
            if DBG is not None:
                DBG.append((kind, plat.name, lang, txt, vv, str(cdump.vtype(tok)), why))
            exprcmp.report(ctx, keyof(txt, plat, lang), what, files={name: text},
                          cmd='cppcheck --dump -q --language=%s %s %s   # line %d' % (
                              lang, parg if not plat.generated else '--platform=<generated %s.xml>' % plat.name, name, line))


def witnesses():
    """(platform, language, right-hand side of `ll1 = …;`) — one per listed finding, replayed on every run through
    the same pipeline as generated statements (finding patterns off)"""
    from ..gen.exprgen import L, B, U, CAST, Q, SZE
    I = lambda t: L(t, 'I', ('int',))
    C = lambda t: L(t, 'I', ('chr',))
    EMn = lambda: L('EM', 'I', ('enumerator',))
    return [
        ('unix64', 'c', B('||', I('5'), I('7'))),
        ('unix64', 'c++', B('||', I('0'), I('7'))),
        ('unix64', 'c', CAST('_Bool', I('9'))),
        ('unix64', 'c++', CAST('bool', I('9'))),
        ('unix64', 'c', B('-', I('0u'), I('1'))),
        ('unix64', 'c', B('+', I('1'), U('~', I('65535u')))),
        ('unix64', 'c', CAST('char', I('200'))),
        ('win64', 'c++', B('-', I('1000ul'), CAST('int', I('0x80000001uLL')))),
        ('unix64', 'c', CAST('long long', L('4e9', 'F', ('flt',)))),
        ('unix64', 'c', CAST('char', U('-', C("'\\r'")))),
        ('unix64', 'c', Q(B('+', SZE(L('st1', 'S', ('var',))), I('9')), I('2'), I('3'))),
        ('unix32', 'c', B('+', I('224UL'), EMn())),
        ('unix64', 'c', B('<', EMn(), I('1u'))),
        ('unix64', 'c++', B('&&', I('12093u'), EMn())),
        ('aarch64', 'c', C("'\\x80'")),
        ('avr', 'c', L("'abc'", 'I', ('chr', 'multi'))),
        ('unix32', 'c', B('/', L('E2', 'I', ('enumerator',)), I('0x80000001ul'))),
        ('avr', 'c', B('+', L('E1', 'I', ('enumerator',)), I('0X8001'))),
        ('unix64', 'c', B('+', I('0x100000001u'), I('0'))),
        ('msp430', 'c', B('+', I('0X100000000Lu'), I('0'))),
        ('unix64', 'c', B('<=', U('~', I('0xFFFFFFFFFFFFFFFF')), I('0'))),
        ('unix64', 'c', B('-', I('62'), B('+', B('>=', I('8L'), U('~', I('145LLu'))), I('8u')))),
        ('unix64', 'c', B('+', CAST('signed char', I('1')), CAST('unsigned char', I('214')))),
        ('unix64', 'c', B('+', CAST('short', I('1')), CAST('unsigned short', I('65000')))),
        ('unix64', 'c', B('<', CAST('unsigned char', I('1')), CAST('signed char', I('254')))),
        ('unix32', 'c', B('&', L("L'0'", 'I', ('chr', 'L')), U('~', I('0177777')))),
        ('unix32', 'c', B('+', B('&&', I('50'), I('255')), CAST('signed char', I('255')))),
    ]


def replay_witnesses(ctx, plats):
    from ..gen.exprgen import A, L
    byname = {p.name: p for p in plats}
    groups = {}
    for pl, lang, rhs in witnesses():
        st = A('=', L('ll1', 'I', ('var',)), rhs)
        st.cat = 'I'
        groups.setdefault((pl, lang), []).append(st)
    for (pl, lang), sts in sorted(groups.items()):
        u = exprgen.unit_from(lang, sts)
        d = ctx.tmpdir('w_%s_%s' % (pl, 'cxx' if lang == 'c++' else 'c'))
        check_unit(ctx, d, 'w' + u.ext(), u, lang, byname[pl], pl in ('native', 'unix64'), use_patterns=False)
        ctx.count('witness', 'statements replayed', len(sts))


def _case(ctx, idx, plats, nst):
    rng = ctx.subrng('unit', idx)
    lang = 'c' if idx % 2 == 0 else 'c++'
    plat = plats[(idx // 2) % len(plats)]
    u = litgen.gen_unit(rng, lang, nstmts=nst, excl=excl_for(lang, plat))
    d = ctx.tmpdir('u%d' % idx)
    check_unit(ctx, d, 'u%d%s' % (idx, u.ext()), u, lang, plat, plat.name in ('native', 'unix64'))
    ctx.count('units', '%s/%s' % (plat.name, lang))
    if idx < 4:
        ln = sorted(u.stmts)[idx]
        ctx.sample({'platform': plat.name, 'lang': lang, 'statement': u.lines[ln - 1].strip()})
    shutil.rmtree(d, ignore_errors=True)


def run(ctx):
    ctx.rule = ('case = one literal or constant sub-expression with a known value in the dump, turned into a '
                'static_assert for the matching target; non-trivial = judged probe that is an operator node, a '
                'character literal or a literal longer than 3 characters')
    plats = [platforms.get(n) for n in platforms.ALL]
    for p in plats:
        if not p.ok:
            ctx.inconclusive('clang target %s unavailable' % p.triple)
            return
    ctx.cov['finding_exclusions'] = {k: v[0] for k, v in FINDING_EXCLUSIONS.items()}
    ctx.cov['finding_patterns'] = {p[0]: p[1] for p in FINDING_PATTERNS}
    ctx.cov['platforms'] = {p.name: p.triple for p in plats}
    replay_witnesses(ctx, plats)
    nlit = ctx.n(2000, 100000)
    per = 40          # statements per unit; each statement yields several judged tokens
    units = max(len(plats) * 2, (nlit // 3 + per - 1) // per)
    vrun.pmap(lambda i: _case(ctx, i, plats, per), range(units), workers=8)
    if DBG is not None:
        for x in sorted(DBG):
            print('DBG %-12s %-8s %-3s cppcheck=%-22s vt=%-28s %-60s %s' % (x[0], x[1], x[2], x[4], x[5], x[3][:60], x[6][-40:]))
