"""C11 — Preprocessing matches a conforming preprocessor.

Differential run monitor: for a generated source + option set the preprocessing-token sequence of
`cppcheck -E <opts> file` must equal that of `gcc -E -undef -nostdinc -P <same opts> file`; clang-14
is the tie-breaker (a difference is only asserted when gcc and clang agree).  Sources gcc rejects
are only checked for "cppcheck does not crash".
"""
import os
import shutil

from .. import cases
from ..core import sha1, VERIF
from ..run import pmap, run as run_cmd, base_env
from ..gen._retry import cppcheck
from ..gen import ppgen
from ..models import pptok

PID = 'C11'
FLAVOURS = ['mon']
META = {
    'technique': 'differential run monitor: cppcheck -E vs gcc -E -undef -nostdinc -P (clang-14 -E tie-breaker), '
                 'outputs re-lexed into preprocessing tokens',
    'level_text': 'Sampled exploration: ppgen sources (object-/function-like/variadic macros, #, ##, nested and '
                  'self-referential expansion, __VA_ARGS__/__VA_OPT__, #if arithmetic/defined/short-circuit, '
                  '#elif/#else, #undef, #include "" and <> of generated headers with and without -I, forced '
                  'includes, -D/-U sets) are preprocessed by the real cppcheck binary and by gcc/clang; the '
                  'token sequences must be equal.',
    'level_note': 'Reference = gcc 12 and clang 14 in agreement; sources gcc rejects are only crash-checked; nothing '
                  'depends on predefined macros; -U is only placed after -D (cppcheck treats both as sets).',
    'design_ref': 'DESIGN.md §3 C11',
}

KNOWN_DIR = os.path.join(VERIF, 'known', 'C11')
CC_BASE = ['-E', '-undef', '-nostdinc', '-P']


def preprocess_both(d, case):
    """-> (gcc Result, cppcheck Result) for the case written to directory d"""
    g = run_cmd(['gcc'] + CC_BASE + case.cc_args() + [case.main], cwd=d, env=base_env(), timeout=60)
    c = cppcheck(['-E'] + case.cppcheck_args() + [case.main], cwd=d, timeout=120)
    return g, c


def judge(ctx, d, case, origin):
    """run one case -> (verdict, reference tokens or None)"""
    g, c = preprocess_both(d, case)
    if g.timed_out or c.timed_out:
        ctx.inconclusive('watchdog fired on %s' % origin)
        return 'timeout', None
    ctx.ev()
    digest = sha1(case.digest_text())
    cmd = 'cd case && %s\n# reference: gcc %s' % (c.cmdline(), ' '.join(CC_BASE + case.cc_args() + [case.main]))
    if cases.crashed(c):
        ctx.violation('pp:crash:' + digest, 'cppcheck -E crashed (rc=%s)\n%s' % (c.rc, c.etext()[-1200:]),
                      files={'case': '@' + d}, cmd=cmd)
        return 'crash', None
    if g.rc != 0:
        ctx.count('cases', 'gcc-rejects (crash-check only)')
        return 'gcc-error', None
    tg = pptok.lex(g.out, case.cpp)
    tc = pptok.lex(c.out, case.cpp)
    if tg == tc:
        ctx.count('cases', 'equal')
        ctx.count('hist', 'tokens_compared', len(tg))
        return 'equal', tg
    k = run_cmd(['clang-14'] + CC_BASE + case.cc_args() + [case.main], cwd=d, env=base_env(), timeout=60)
    if k.timed_out:
        ctx.inconclusive('clang watchdog fired on %s' % origin)
        return 'timeout', None
    tk = pptok.lex(k.out, case.cpp) if k.rc == 0 else None
    if tk != tg:
        ctx.count('cases', 'gcc-and-clang-disagree (not asserted)')
        return 'disagree', None
    ctx.count('cases', 'DIFFERENT')
    what = ('cppcheck -E token sequence differs from gcc and clang (which agree) [%s]\n%s\ncppcheck stderr: %s'
            % (origin, pptok.show_diff(tg, tc, 'gcc     ', 'cppcheck'), c.etext()[-400:]))
    ctx.violation(getattr(case, 'key', None) or 'pp:' + digest, what, files={'case': '@' + d}, cmd=cmd)
    return 'different', tg


def _case(ctx, idx):
    rng = ctx.subrng('case', idx)
    case = ppgen.gen(rng, size=1.0 if ctx.quick() else rng.choice([1.0, 1.0, 2.0]))
    d = ctx.tmpdir('c%d' % idx)
    case.write(d)
    v, tg = judge(ctx, d, case, 'seed=%d case=%d' % (ctx.seed, idx))
    if v == 'equal':
        for f in case.features:
            ctx.count('features_in_equal_cases', f)
        # non-trivial: the reference expanded something (its output is not the source text itself)
        src_toks = pptok.lex(case.files[case.main], case.cpp)
        if 'call' in case.features and len(case.features) >= 4 and len(tg) >= 8 and tg != src_toks:
            ctx.trivial_or(sha1(case.digest_text()))
        if idx < 3:
            ctx.sample({'options': case.cppcheck_args(), 'main.c': case.files[case.main][:600],
                        'features': sorted(case.features)})
    shutil.rmtree(d, ignore_errors=True)


def load_witness(wdir):
    """a witness directory: files + OPTS (one abstract option per line: D X=1 / U X / I dir / include f) + KEY"""
    case = ppgen.Case()
    for root, _, files in os.walk(wdir):
        for fn in files:
            p = os.path.join(root, fn)
            rel = os.path.relpath(p, wdir)
            if rel in ('OPTS', 'KEY', 'README.txt'):
                continue
            case.files[rel] = open(p).read()
    for line in open(os.path.join(wdir, 'OPTS')).read().splitlines():
        if line.strip():
            k, v = line.split(' ', 1)
            case.opts.append((k, v))
    case.key = open(os.path.join(wdir, 'KEY')).read().strip()
    return case


def replay_known(ctx):
    if not os.path.isdir(KNOWN_DIR):
        return
    for name in sorted(os.listdir(KNOWN_DIR)):
        wdir = os.path.join(KNOWN_DIR, name)
        if not os.path.exists(os.path.join(wdir, 'KEY')):
            continue
        case = load_witness(wdir)
        d = ctx.tmpdir('known_' + name)
        case.write(d)
        v, _ = judge(ctx, d, case, 'known witness ' + name)
        ctx.count('known_witness_replay', '%s: %s' % (name, v))
        shutil.rmtree(d, ignore_errors=True)


def run(ctx):
    ctx.rule = ('case = generated source + headers + -D/-U/-I/--include set, preprocessed by cppcheck -E, gcc -E and '
                '(on a difference) clang -E; non-trivial = gcc accepted the case, it contains >=1 function-like '
                'macro invocation and >=4 generator features, the reference output has >=8 tokens, differs from the '
                'unpreprocessed token sequence, and was compared token by token')
    ctx.assumptions.append('gcc 12 -E -undef -nostdinc -P and clang-14 agreeing define the conforming token sequence')
    ctx.assumptions.append('generator exclusions in force: %s' % (
        sorted(k for k, v in ppgen.EXCL.items() if not v[0]) or 'none'))
    replay_known(ctx)
    n = ctx.n(200, 8000)
    pmap(lambda i: _case(ctx, i), range(n), workers=8)
