"""C01 — Value-flow facts hold in every UB-free execution.

Monitor: cppcheck --dump on the plain rendering of a generated program; every known / impossible
integer fact on a probed expression becomes an online assertion in the probe runtime of the
instrumented rendering, which is executed under ASan+UBSan over many input vectors. Only
executions that end sanitizer-clean contribute observations.
"""
import json
import os
import shutil

from .. import dumpread, probe
from ..core import sha1
from ..gen import progen
from ..run import pmap, cppcheck

PID = 'C01'
FLAVOURS = ['mon']
META = {
    'technique': 'runtime assertion monitor: cppcheck value-flow facts (dump, hook H1) asserted inside sanitizer-clean '
                 'executions of generated programs (ASan+UBSan probe runtime)',
    'level_text': 'Sampled exploration over generated C and C++ programs x input vectors: each known/impossible integer '
                  'fact cppcheck attaches to a probed expression is checked against every value that expression takes in '
                  'executions that finish without a sanitizer report. Evidence lists facts by kind, how many were hit at '
                  'run time, executions discarded for UB.',
    'level_note': 'Trusts gcc 12 x86-64 (= --platform=unix64, signed char) as the execution semantics and ASan+UBSan as '
                  'the UB filter; speaks only about expressions actually evaluated; possible/inconclusive values, '
                  'non-zero path, float/lifetime/tok values are not judged; a symbolic relation is judged only when the '
                  'other expression is a probed token evaluated earlier in the text and ref+delta does not wrap.',
    'design_ref': 'DESIGN.md §3 C01',
}

KIND_NAMES = ['known', 'impossible-point', 'impossible-upper', 'impossible-lower',
              'symbolic-known', 'symbolic-impossible-point', 'symbolic-impossible-upper', 'symbolic-impossible-lower']
SYMBOLIC = os.environ.get('VERIF_C01_SYMBOLIC', '1') == '1'


def analyse_program(ctx, prog, d, extra_args=(), lang='c', attr='intvalue'):
    """-> (facts [(pid, kind, K)], desc {(pid,kind,K): text}, stats) or None if cppcheck failed"""
    ext = '.c' if lang == 'c' else '.cpp'
    src = os.path.join(d, 'p' + ext)
    with open(src, 'w') as f:
        f.write(prog.plain)
    with open(os.path.join(d, 'p_i' + ext), 'w') as f:
        f.write(prog.inst)
    r = cppcheck(['--dump', '-q', '--platform=unix64'] + list(extra_args) + ['p' + ext], cwd=d)
    dump = src + '.dump'
    if r.timed_out or r.rc != 0 or not os.path.exists(dump):
        return None
    try:
        _toks, by_pos, values, _d = dumpread.read(dump)
    except Exception:
        return None
    facts = []
    desc = {}
    joined = unjoined = 0
    tok_by_id = {t.id: t for t in _toks}
    probe_at = {(l, c): p for p, (l, c, _s, _k) in prog.probes.items()}
    for pid, (line, col, tokstr, kind) in prog.probes.items():
        cands = [t for t in by_pos.get((line, col), []) if t.str == tokstr or (tokstr == '.' and t.str == '.')]
        if not cands:
            unjoined += 1
            continue
        joined += 1
        tok = cands[0]
        for kidx, k, text in probe.int_facts_for_token(tok, values, attr=attr):
            facts.append((pid, kidx, k))
            desc[(pid, kidx, k)] = '%s @ %d:%d (token %r, %s expression)' % (text, line, col, tokstr, kind)
        if attr == 'intvalue' and SYMBOLIC:
            for kidx, d, rp, text in probe.symbolic_facts_for_token(tok, values, tok_by_id, probe_at):
                facts.append((pid, kidx, d, rp))
                desc[(pid, kidx, d, rp)] = '%s @ %d:%d (token %r, %s expression)' % (text, line, col, tokstr, kind)
    return facts, desc, {'joined': joined, 'unjoined': unjoined}


def check_program(prog, d, vecs, extra_args=(), lang='c', counter=None, attr='intvalue'):
    """Run the whole monitor pipeline on one program in directory d.
    -> dict(status, facts, viols [(pid,kidx,K,bad,vec,viol,hits,desc)], hit, obs, stats)"""
    cnt = counter or (lambda *a: None)
    res = analyse_program(None, prog, d, extra_args, lang, attr)
    if res is None:
        return {'status': 'cppcheck-failed'}
    facts, desc, st = res
    ext = '.c' if lang == 'c' else '.cpp'
    exe, cr = probe.compile_inst(d, 'p_i' + ext, lang)
    if exe is None:
        return {'status': 'compile-failed', 'err': cr.etext()}
    obs = probe.run_inputs(exe, d, facts, vecs)
    viols = []
    hit = {}
    for fk, (hits, viol, bad, vec) in obs.facts.items():
        pid, kidx, K = fk[0], fk[1], fk[2]
        if hits:
            hit[fk] = hits
        if viol:
            viols.append((pid, kidx, K, bad, vec, viol, hits, desc.get(fk, '?')))
    return {'status': 'ok', 'facts': facts, 'viols': viols, 'hit': hit, 'obs': obs, 'stats': st}


def one_program(ctx, idx, lang, nvec, extra_args=()):
    rng = ctx.subrng('prog', idx)
    prog = progen.gen(rng, lang=lang, bias='value')
    d = ctx.tmpdir('p%d' % idx)
    try:
        vecs = prog.input_vectors(rng, nvec)
        res = check_program(prog, d, vecs, extra_args, lang)
        ctx.ev()
        if res['status'] != 'ok':
            ctx.count('programs', res['status'])
            if 'err' in res and res['err'].strip():
                ctx.count('compile_errors', res['err'].strip().splitlines()[0][:120])
            return
        facts, obs, st = res['facts'], res['obs'], res['stats']
        ctx.count('probes', 'joined', st['joined'])
        ctx.count('probes', 'unjoined', st['unjoined'])
        for fct in facts:
            ctx.count('facts_by_kind', KIND_NAMES[fct[1]])
        ext = '.c' if lang == 'c' else '.cpp'
        ctx.count('executions', 'clean', obs.ok_runs)
        ctx.count('executions', 'discarded', obs.discarded)
        for k, v in obs.discard_reasons.items():
            ctx.count('discard_reasons', k, v)
        for fk, hits in res['hit'].items():
            kidx = fk[1]
            ctx.count('facts_hit_by_kind', KIND_NAMES[kidx])
            ctx.count('fact_hits_total', 'observations', hits)
        for pid, kidx, K, bad, vec, viol, hits, dsc in res['viols']:
            what = ('cppcheck states %s, but a sanitizer-clean execution observed the value %d there '
                    '(input vector %r, %d of %d observations disagree)' % (dsc, bad, vec, viol, hits))
            line, col = prog.probes[pid][0], prog.probes[pid][1]
            key = 'witness:%s:%s@%d:%d' % (sha1(prog.plain), KIND_NAMES[kidx] + '=' + str(K), line, col)
            ctx.violation(key, what, files={'p' + ext: prog.plain, 'p_i' + ext: prog.inst,
                                            'meta.json': json.dumps({'probes': prog.probes, 'vecs': vecs, 'lang': lang,
                                                                     'extra_args': list(extra_args)}),
                                            'trace.h': '@' + os.path.join(probe.HARNESS, 'trace.h')},
                          cmd='cppcheck --dump --platform=unix64 %s p%s   # look at the token at %d:%d\n'
                              'gcc -fsanitize=address,undefined -I. p_i%s -o prog && ./prog %s'
                              % (' '.join(extra_args), ext, line, col, ext, ' '.join(str(v) for v in vec)))
        for f, c in prog.features.items():
            ctx.count('constructs', f, c)
        if res['hit']:
            ctx.trivial_or(sha1(prog.plain))
            ctx.count('programs', 'with-facts-hit')
        else:
            ctx.count('programs', 'no-fact-hit')
        ctx.sample({'lang': lang, 'probes': len(prog.probes), 'facts': len(facts), 'facts_hit': len(res['hit']),
                    'clean_runs': obs.ok_runs, 'first_lines': prog.plain.splitlines()[3:12]}, limit=3)
    finally:
        shutil.rmtree(d, ignore_errors=True)


WITNESS_VECS = [[0] * 8, [1] * 8, [-1] * 8, [65535] * 8, [12] * 8, [3] * 8, [255] * 8, [-128] * 8]


def replay_known(ctx, pid='C01', check=None):
    """Replay every committed witness of a listed finding; the KNOWN-FINDING line is printed because the
    defect was re-observed on this tree, not from the file alone."""
    import glob
    from .. import witness
    from ..build import VERIF
    n = 0
    listed = sorted(glob.glob(os.path.join(VERIF, 'known', pid, '*.c')) + glob.glob(os.path.join(VERIF, 'known', pid, '*.cpp')))
    # witnesses of repaired defects are replayed too: their keys are not listed, so a defect that returns alarms
    repaired = sorted(glob.glob(os.path.join(VERIF, 'known', 'fixed', pid, '*.c')) +
                      glob.glob(os.path.join(VERIF, 'known', 'fixed', pid, '*.cpp')))
    for f in listed + repaired:
        lang = 'cpp' if f.endswith('.cpp') else 'c'
        prog = witness.from_annotated(open(f).read(), lang)
        d = ctx.tmpdir('w_' + os.path.basename(f))
        res = (check or check_program)(prog, d, WITNESS_VECS, (), lang)
        shutil.rmtree(d, ignore_errors=True)
        name = os.path.splitext(os.path.basename(f))[0]
        if res['status'] != 'ok':
            ctx.inconclusive('witness %s could not be replayed (%s)' % (name, res['status']))
            continue
        if not res['viols']:
            ctx.count('known_witnesses', ('repaired-and-silent:' if f in repaired else 'no-longer-failing:') + name)
            continue
        ctx.count('known_witnesses', 'replayed-and-failing')
        for pid_, kidx, K, bad, vec, viol, hits, dsc in res['viols']:
            line, col = prog.probes[pid_][0], prog.probes[pid_][1]
            key = 'witness:%s:%s@%d:%d' % (sha1(prog.plain), KIND_NAMES[kidx] + '=' + str(K), line, col)
            ctx.violation(key, '[%s] cppcheck states %s but the execution observed %d' % (name, dsc, bad),
                          files={'witness' + ('.cpp' if lang == 'cpp' else '.c'): prog.plain})
        n += 1
    return n


def run(ctx):
    replay_known(ctx)
    ctx.rule = ('case = one generated program (progen: integer arithmetic of all widths/signedness, casts, compound '
                'assignment, ++/--, if/else, for/while/do, switch, early return, calls, globals, pointer alias writes, '
                'arrays, structs) x N input vectors; non-trivial = at least one cppcheck known/impossible fact on a '
                'probed expression was evaluated at run time in a sanitizer-clean execution; distinct by program text')
    ctx.cov['generator_exclusions'] = progen.EXCLUSIONS
    ctx.assumptions += ['gcc x86-64 execution == --platform=unix64', 'ASan+UBSan-clean execution == UB-free execution']
    n = ctx.n(160, 12000)
    nvec = 12 if ctx.quick() else 48
    jobs = []
    for i in range(n):
        lang = 'c' if i % 4 != 3 else 'cpp'
        extra = ()
        if not ctx.quick() and i % 2 == 1:
            extra = ('--check-level=exhaustive',)
        jobs.append((i, lang, extra))
    pmap(lambda j: one_program(ctx, j[0], j[1], nvec, j[2]), jobs, workers=16)
