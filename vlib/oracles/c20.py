"""C20 — An interrupted run never corrupts later incremental results (fault enumeration).

For a generated project (seeded findings, whole-program findings, inline suppressions that stay
unmatched and so drive AnalyzerInformation::reopen) and each executor configuration (-j1, thread
-j4, process -j4) the monitor
  1. takes the reference: a run without build dir,
  2. checks the fault-free baseline (fresh build dir run + fully cached re-run equal the reference),
  3. dry-runs with VERIF_CRASH_LOG (hook H3) from three start states of the build dir (fresh, stale =
     populated from an edited variant of the project, full = completely cached) to list every crash
     point "<scope> <k> <kind>" (scope = main or the forked worker's file),
  4. for EVERY point, plain and :flush: copy the start state, run with VERIF_CRASH_AT (the hook kills
     the whole process group with SIGKILL; the run must die with -9 and VERIF_CRASH_FIRED records the
     kind), then a complete run on the same build dir must equal the reference (findings, exit
     status, well-formed XML, no crash), and so must one more (now cached) run.
Thorough tier adds kills at every K-th write syscall with strace fault injection (no hook involved)
and sampled second-order histories (kill, kill again, complete).
"""
import os
import shutil
import threading

from .. import cases, findings
from .. import run as vrun
from ..run import pmap
from ..core import sha1
from ..gen import projgen, supprgen

PID = 'C20'
FLAVOURS = ['mon']
LEVEL = 'fault_enumeration'
META = {
    'technique': 'fault enumeration with hook H3 (counted kill points, whole process group SIGKILL) + '
                 'strace write-syscall kill injection; differential against a run without build dir',
    'level_text': 'Exhaustive over the crash points of the enumerated workload: every H3 point (cache '
                  'open/header/error/fileinfo/close, reopen, files.txt, every reported finding, file '
                  'boundaries, whole-program phase, unmatched-suppression and checkers-report phase) of every '
                  'scope (main process, each forked worker), with and without flushing the open cache stream, '
                  'for -j1, thread -j4 and process -j4, from a fresh, a stale and a fully cached build dir. '
                  'Thorough tier: every K-th write syscall (strace inject) and sampled double kills.',
    'level_note': 'Projects are sampled (projgen); the enumeration is exhaustive per project/config/start state. '
                  'In thread mode the k->kind mapping depends on the interleaving of the killed run; every k is '
                  'tried once and the kind that fired is recorded. A kill is SIGKILL of the process group; power '
                  'loss (unsynced page cache) is out of scope.',
    'design_ref': 'DESIGN.md §3 C20',
}

CONFIGS = [('j1', ['-j1']),
           ('thread', ['-j4', '--executor=thread']),
           ('process', ['-j4', '--executor=process'])]
STATES = ['fresh', 'stale', 'full']
CACHE_KINDS = ('cache-', 'filestxt-')
TIMEOUT = 90


def _cmp(ref, a):
    """-> None if equal, else (aspect, text, only_in_ref, only_in_run)"""
    if a.res.timed_out:
        return ('timeout', 'watchdog', [], [])
    if not a.xml_ok or cases.crashed(a.res):
        return ('crash-or-bad-xml', 'rc=%s\n%s' % (a.rc, a.res.etext()[-1500:]), [], [])
    oa, ob = findings.diff(ref.findings, a.findings)
    if oa or ob:
        return ((oa or ob)[0][0], cases.fmt_diff(oa, ob, 'no-build-dir', 'after-kill'), oa, ob)
    if a.rc != ref.rc:
        return ('exitcode', 'exit status %s, reference %s' % (a.rc, ref.rc), [], [])
    return None


def _valid_caches(P, bd):
    """source files whose cache file in bd is a complete, well-formed analyzerinfo document (such a file
    is skipped by the next run if its hash is current). Mapping source -> cache file name is the one
    cppcheck writes into files.txt (taken from the fault-free baseline)."""
    import xml.etree.ElementTree as ET
    ok = set()
    for srcfile, afile in P.afile.items():
        try:
            root = ET.parse(os.path.join(bd, afile)).getroot()
            if root.tag == 'analyzerinfo':
                ok.add(srcfile)
        except (ET.ParseError, OSError):
            pass
    return ok


KNOWN_LOST_UNMATCHED = 'unmatched-suppression-lost-after-kill'


def _classify(bad, valid):
    """Known defect (known/C20.txt): a file's cache entry is closed at the end of the file's analysis, its
    unmatchedSuppression findings are appended only in the final unmatched-suppression phase (reopen).
    A kill in between leaves a valid cache entry without them; the next runs skip the file and never
    report them. Exactly that shape -> the known key; anything else keeps its specific key."""
    aspect, _text, oa, ob = bad
    if ob or not oa:
        return False
    for x in oa:
        if x[0] != 'unmatchedSuppression' or not x[5] or x[5][0][0] not in valid:
            return False
    return True


def _read_points(path):
    pts = []
    if os.path.exists(path):
        for line in open(path, errors='replace'):
            t = line.rstrip('\n').rsplit(' ', 2)
            if len(t) == 3 and t[1].isdigit():
                pts.append((t[0], int(t[1]), t[2]))
    return pts


class _Proj:
    pass


def _project(ctx, pi):
    """generate until the reference has what the monitor needs (bounded)"""
    for attempt in range(12):
        rng = ctx.subrng('proj', pi, attempt)
        P = _Proj()
        P.pi = pi
        P.lock = threading.Lock()
        P.seen = set()
        P.dir = ctx.tmpdir('p%d_%d' % (pi, attempt))
        P.src = os.path.join(P.dir, 'src')
        proj = projgen.gen(rng, nfiles=3 if ctx.quick() else (3, 6), headers=True, ctu=True,
                           nsnip=(2, 3) if ctx.quick() else (2, 6))
        proj.write(P.src)
        # quick tier: no missingInclude (each missingIncludeSystem is one more report-finding point of no
        # interest); thorough: --enable=all
        P.opts = ['-q', '--enable=' + ('warning,style,performance,portability,information,unusedFunction'
                                       if ctx.quick() else 'all'), '--inline-suppr', '--error-exitcode=3']
        if rng.random() < 0.5:
            P.opts.append('--inconclusive')
        a0 = cases.analyse(P.src, P.opts + ['-j1'] + proj.sources, timeout=TIMEOUT)
        # inline suppressions only in source files: an unmatched inline suppression inside a *header* is
        # dropped by a fault-free cached re-run already (cache replay issue, C18's domain), which would
        # make the fault-free baseline differ from the reference
        proj2, inserted = supprgen.add_inline(rng, proj, a0.findings, frac=0.3, unmatched=0, in_headers=False)
        for _ in range(rng.randint(2, 4)):
            victim = rng.choice(proj2.sources)
            lines = proj2.files[victim].split('\n')
            lines.insert(rng.randint(1, len(lines) - 1), '// cppcheck-suppress %s' % rng.choice(supprgen.UNLIKELY_IDS))
            proj2.files[victim] = '\n'.join(lines)
        shutil.rmtree(P.src)
        proj2.write(P.src)
        P.proj = proj2
        P.digest = proj2.digest()
        P.ref = cases.analyse(P.src, P.opts + ['-j1'] + proj2.sources, timeout=TIMEOUT)
        ids = [f.id for f in P.ref.findings]
        ok = (P.ref.xml_ok and not cases.crashed(P.ref.res) and not P.ref.res.timed_out
              and 'unmatchedSuppression' in ids and len(ids) >= 4)
        if ok:
            # stale variant: one source edited (different hash for that file, shifted lines)
            P.var = os.path.join(P.dir, 'var')
            proj2.write(P.var)
            victim = rng.choice(proj2.sources)
            with open(os.path.join(P.var, victim), 'w') as f:
                f.write('/* edited */\n\n' + proj2.files[victim] +
                        '\nint stale_%d(void) {\n    int z = 0;\n    return 7 / z;\n}\n' % pi)
            P.victim = victim
            return P
        ctx.count('skipped', 'project-without-unmatched-suppression-or-findings')
        shutil.rmtree(P.dir, ignore_errors=True)
    return None


def _bdargs(bd):
    return ['--cppcheck-build-dir=' + bd]


def _complete(P, cfgargs, bd, env=None):
    return cases.analyse(P.src, P.opts + cfgargs + _bdargs(bd) + P.proj.sources, env=env, timeout=TIMEOUT)


def _kill_run(P, cfgargs, bd, at, fired):
    env = {'VERIF_CRASH_AT': at, 'VERIF_CRASH_FIRED': fired}
    return vrun.cppcheck(['--xml'] + P.opts + cfgargs + _bdargs(bd) + P.proj.sources, cwd=P.src, env=env,
                        timeout=TIMEOUT)


def _mkstate(P, cfgname, cfgargs, state, dst):
    """create the start state of the build dir in dst"""
    os.makedirs(dst)
    if state == 'fresh':
        return True
    src = P.var if state == 'stale' else P.src
    a = cases.analyse(src, P.opts + cfgargs + _bdargs(dst) + P.proj.sources, timeout=TIMEOUT)
    return a.xml_ok and not cases.crashed(a.res) and not a.res.timed_out


def _report(ctx, P, cfgname, state, kind, mode, stage, bad, cmd, valid=()):
    aspect, text = bad[0], bad[1]
    if aspect == 'timeout':
        ctx.inconclusive('watchdog fired in the complete run after kill (%s %s %s %s)' % (cfgname, state, kind, mode))
        return
    if _classify(bad, valid):
        ctx.count('known_defect_reobserved', '%s:%s:%s' % (KNOWN_LOST_UNMATCHED, cfgname, kind))
        key = '%s:%s' % (KNOWN_LOST_UNMATCHED, cfgname)
    else:
        key = 'crash-point:%s:%s:%s:%s:%s:%s' % (kind, mode, cfgname, state, P.digest, aspect)
    what = ('after a kill at crash point kind=%s (%s) of a %s run starting from a %s build dir, the %s complete '
            'run on the same build dir differs from a run without build dir (%s)\n%s'
            % (kind, mode, cfgname, state, stage, aspect, text))
    ctx.violation(key, what, files={'project': '@' + P.src}, cmd=cmd)


FLUSHABLE = ('cache-opened', 'cache-header', 'cache-error', 'cache-fileinfo', 'cache-close-pre',
             'cache-close-mid', 'cache-reopen-truncated', 'cache-reopen-content', 'filestxt-opened',
             'filestxt-written')


def _bdhash(bd):
    """identity of the on-disk state a kill left behind"""
    parts = []
    for root, _dirs, files in os.walk(bd):
        for f in sorted(files):
            p = os.path.join(root, f)
            try:
                parts.append(os.path.relpath(p, bd).encode() + b'\0' + cases.read(p))
            except OSError:
                parts.append(os.path.relpath(p, bd).encode() + b'\0<unreadable>')
    return sha1(*sorted(parts))


def _new_state(P, cfgname, bd):
    """True if this on-disk state has not been followed by a complete run yet (same project+config).
    The complete run is a function of inputs + build dir content, so equal states need one follow-up."""
    h = (cfgname, _bdhash(bd))
    with P.lock:
        if h in P.seen:
            return False
        P.seen.add(h)
        return True


def _trial(ctx, P, cfgname, cfgargs, state, statedir, scope, k, mode, tag):
    d = os.path.join(P.dir, 'tr_' + tag)
    bd = os.path.join(d, 'bd')
    os.makedirs(d)
    try:
        shutil.copytree(statedir, bd)
        fired = os.path.join(d, 'fired')
        at = '%s:%d%s' % (scope, k, ':flush' if mode == 'flush' else '')
        r1 = _kill_run(P, cfgargs, bd, at, fired)
        ctx.ev()
        fp = _read_points(fired)
        if r1.timed_out:
            ctx.inconclusive('watchdog fired in the killed run (%s %s %s)' % (cfgname, state, at))
            return None
        if not fp or r1.rc != -9:
            ctx.count('unfired', '%s:%s' % (cfgname, state))
            return None
        kind = fp[0][2]
        ctx.count('fired_by_kind', '%s:%s:%s' % (cfgname, kind, mode))
        ctx.count('fired_by_state', '%s:%s' % (cfgname, state))
        if not _new_state(P, cfgname, bd):
            ctx.count('followup_runs', 'skipped:build-dir-state-identical-to-an-already-followed-kill')
            return kind
        ctx.count('followup_runs', 'distinct-build-dir-state:%s' % cfgname)
        cmd = ('cd project && mkdir bd   # start state: %s\nVERIF_CRASH_AT=%s %s\nthen: %s'
               % (state, at, r1.cmdline(), r1.cmdline()))
        valid = _valid_caches(P, bd)
        a2 = _complete(P, cfgargs, bd)
        ctx.ev()
        bad = _cmp(P.ref, a2)
        if bad:
            _report(ctx, P, cfgname, state, kind, mode, 'next', bad, cmd, valid)
            return kind
        if not ctx.quick():
            a3 = _complete(P, cfgargs, bd)
            bad = _cmp(P.ref, a3)
            if bad:
                _report(ctx, P, cfgname, state, kind, mode, 'second',
                        (bad[0] + ':second-run',) + tuple(bad[1:]), cmd, valid)
        return kind
    finally:
        shutil.rmtree(d, ignore_errors=True)


def _double(ctx, P, cfgname, cfgargs, state, statedir, p1, p2, tag):
    """kill, kill again, complete"""
    d = os.path.join(P.dir, 'dbl_' + tag)
    bd = os.path.join(d, 'bd')
    os.makedirs(d)
    try:
        shutil.copytree(statedir, bd)
        kinds = []
        for n, (scope, k, mode) in enumerate((p1, p2)):
            fired = os.path.join(d, 'fired%d' % n)
            at = '%s:%d%s' % (scope, k, ':flush' if mode == 'flush' else '')
            r = _kill_run(P, cfgargs, bd, at, fired)
            ctx.ev()
            fp = _read_points(fired)
            kinds.append(fp[0][2] if fp and r.rc == -9 else 'none')
        if kinds[0] == 'none' or kinds[1] == 'none':
            ctx.count('double_kill', 'second-or-first-not-fired')
            return
        ctx.count('double_kill', 'both-fired:' + cfgname)
        valid = _valid_caches(P, bd)
        a = _complete(P, cfgargs, bd)
        bad = _cmp(P.ref, a)
        if bad:
            _report(ctx, P, cfgname, state, '+'.join(kinds), 'double', 'next', bad,
                    'kill at %r then %r, then complete run' % (p1, p2), valid)
    finally:
        shutil.rmtree(d, ignore_errors=True)


def _strace_ok():
    r = vrun.run(['strace', '-f', '-o', '/dev/null', '-e', 'trace=write', '-e',
                 'inject=write:signal=SIGKILL:when=1', '/bin/echo', 'x'], env=vrun.base_env())
    return r.rc == -9


def _strace_one(ctx, P, cfgname, cfgargs, state, statedir, K):
    """-> True if the K-th write kill fired"""
    from .. import build
    d = os.path.join(P.dir, 'st_%s_%s_%d' % (cfgname, state, K))
    bd = os.path.join(d, 'bd')
    os.makedirs(d)
    try:
        shutil.copytree(statedir, bd)
        argv = (['strace', '-f', '-o', '/dev/null', '-e', 'trace=write', '-e',
                 'inject=write:signal=SIGKILL:when=%d' % K, build.binary('mon'), '--xml'] + P.opts + cfgargs
                + _bdargs(bd) + P.proj.sources)
        r = vrun.run(argv, cwd=P.src, env=vrun.base_env(), timeout=TIMEOUT)
        ctx.ev()
        if r.timed_out:
            ctx.inconclusive('watchdog fired under strace (%s %s K=%d)' % (cfgname, state, K))
            return False
        if r.rc != -9:
            return False   # fewer than K writes in every thread of the run
        ctx.count('strace_write_kills', '%s:%s' % (cfgname, state))
        if not _new_state(P, cfgname, bd):
            ctx.count('followup_runs', 'skipped:build-dir-state-identical-to-an-already-followed-kill')
            return True
        ctx.count('followup_runs', 'distinct-build-dir-state-strace:%s' % cfgname)
        valid = _valid_caches(P, bd)
        a = _complete(P, cfgargs, bd)
        bad = _cmp(P.ref, a)
        if bad:
            _report(ctx, P, cfgname, state, 'write-syscall', 'strace', 'next', bad,
                    'cd project && ' + r.cmdline() + '\nthen the same cppcheck command without strace', valid)
        return True
    finally:
        shutil.rmtree(d, ignore_errors=True)


def _strace_tier(ctx, P, cfgname, cfgargs, state, statedir):
    """kill at every K-th write syscall (counted per traced thread) until the run survives"""
    K0 = 1
    while K0 < 4000:
        ks = list(range(K0, K0 + 16))
        res = pmap(lambda K: _strace_one(ctx, P, cfgname, cfgargs, state, statedir, K), ks, workers=ctx.workers)
        if not all(res):
            return
        K0 += 16


def _do_project(ctx, pi, strace_ok):
    P = _project(ctx, pi)
    if P is None:
        ctx.count('skipped', 'no-suitable-project')
        return
    rng = ctx.subrng('order', pi)
    for f in P.ref.findings:
        ctx.count('reference_finding_ids', f.id)
    for cfgname, cfgargs in CONFIGS:
        # ---- fault-free baseline: a fresh build-dir run and a cached re-run equal the reference
        base = os.path.join(P.dir, 'base_' + cfgname)
        os.makedirs(base)
        b1 = _complete(P, cfgargs, base)
        b2 = _complete(P, cfgargs, base)
        bb = _cmp(P.ref, b1) or _cmp(P.ref, b2)
        if bb:
            # not this property's business (C18/C22): a kill cannot be blamed if the fault-free run differs
            ctx.count('baseline', 'fault-free-build-dir-run-differs:%s:%s' % (cfgname, bb[0]))
            continue
        ctx.count('baseline', 'ok:' + cfgname)
        P.afile = {}
        for line in open(os.path.join(base, 'files.txt'), errors='replace'):
            t = line.rstrip('\n').split(':', 3)
            if len(t) == 4:
                P.afile[t[3]] = t[0]
        for state in STATES:
            if ctx.quick() and cfgname != 'j1' and (state == 'full' or (state == 'stale' and pi >= 1)):
                continue   # quick tier: -j1 gets all start states; thread/process fresh (+ stale on project 0)
            statedir = os.path.join(P.dir, 'state_%s_%s' % (cfgname, state))
            if not _mkstate(P, cfgname, cfgargs, state, statedir):
                ctx.count('skipped', 'state-setup-failed:%s:%s' % (cfgname, state))
                continue
            # ---- dry run: list the crash points reachable from this start state
            dry = os.path.join(P.dir, 'dry_%s_%s' % (cfgname, state))
            shutil.copytree(statedir, dry)
            log = os.path.join(P.dir, 'points_%s_%s.log' % (cfgname, state))
            ad = _complete(P, cfgargs, dry, env={'VERIF_CRASH_LOG': log})
            shutil.rmtree(dry, ignore_errors=True)
            pts = _read_points(log)
            if _cmp(P.ref, ad) or not pts:
                ctx.count('skipped', 'dry-run-unusable:%s:%s' % (cfgname, state))
                continue
            per_scope = {}
            for scope, k, kind in pts:
                per_scope[scope] = max(per_scope.get(scope, 0), k)
                ctx.count('points_listed_by_kind', '%s:%s' % (cfgname, kind))
            kind_of = {(scope, k): kind for scope, k, kind in pts}
            # ':flush' differs from plain only where the hook has a stream to flush; in thread mode the
            # k -> kind mapping varies with the interleaving, so both modes are tried for every k
            trials = [(scope, k, mode) for scope, n in sorted(per_scope.items())
                      for k in range(1, n + 1) for mode in ('plain', 'flush')
                      if mode == 'plain' or cfgname == 'thread' or kind_of.get((scope, k)) in FLUSHABLE]
            kinds = pmap(lambda t: _trial(ctx, P, cfgname, cfgargs, state, statedir, t[0], t[1], t[2],
                                          '%s_%s_%s_%d_%s' % (cfgname, state, abs(hash(t[0])) % 9973, t[1], t[2])),
                         trials, workers=ctx.workers)
            nfired = sum(1 for x in kinds if x)
            with ctx.lock:
                e = ctx.cov.setdefault('enumeration', {'exhaustive': True, 'points_listed': 0, 'trials': 0,
                                                       'trials_fired': 0, 'workloads': 0})
                e['points_listed'] += len(pts)
                e['trials'] += len(trials)
                e['trials_fired'] += nfired
                e['workloads'] += 1
                if nfired < len(trials) and cfgname != 'thread':
                    e['exhaustive'] = False
            cache_kinds = set(x for x in kinds if x and x.startswith(CACHE_KINDS))
            if nfired >= 0.9 * len(trials) and len(cache_kinds) >= 2:
                ctx.trivial_or('%s:%s:%s' % (P.digest, cfgname, state))
            if nfired < 0.9 * len(trials):
                ctx.inconclusive('only %d of %d enumerated crash points fired (%s %s project %d)'
                                 % (nfired, len(trials), cfgname, state, pi))
            ctx.sample({'project_files': len(P.proj.sources), 'config': cfgname, 'start_state': state,
                        'scopes': {s: n for s, n in per_scope.items()}, 'trials': len(trials), 'fired': nfired,
                        'reference_findings': len(P.ref.findings), 'options': P.opts})
            if not ctx.quick():
                # ---- second-order histories (sampled)
                pairs = [(i, rng.choice(trials), rng.choice(trials)) for i in range(ctx.n(0, 24))]
                pmap(lambda t: _double(ctx, P, cfgname, cfgargs, state, statedir, t[1], t[2],
                                       '%s_%s_%d' % (cfgname, state, t[0])), pairs, workers=ctx.workers)
                # ---- write-syscall kills, no hook involved (a killed worker process alone is C21's
                # fault model, so only the single-process configurations are enumerated here)
                if strace_ok and cfgname in ('j1', 'thread'):
                    _strace_tier(ctx, P, cfgname, cfgargs, state, statedir)
            shutil.rmtree(statedir, ignore_errors=True)
        shutil.rmtree(base, ignore_errors=True)
    shutil.rmtree(P.dir, ignore_errors=True)


def _witness(ctx):
    """replay the witness of the known finding on every run (all three executors)"""
    from ..core import VERIF
    wdir = os.path.join(VERIF, 'known', 'C20', 'unmatched-lost')
    if not os.path.isdir(wdir):
        return
    P = _Proj()
    P.pi = -1
    P.lock = threading.Lock()
    P.seen = set()
    P.dir = ctx.tmpdir('witness')
    P.src = os.path.join(P.dir, 'src')
    proj = projgen.Project()
    for name in ('a.c', 'b.c'):
        proj.files[name] = open(os.path.join(wdir, name)).read()
        proj.sources.append(name)
    proj.write(P.src)
    P.proj = proj
    P.digest = proj.digest()
    P.opts = ['-q', '--enable=information', '--inline-suppr']
    P.ref = cases.analyse(P.src, P.opts + ['-j1'] + proj.sources, timeout=TIMEOUT)
    P.afile = {'a.c': 'a.a1', 'b.c': 'b.a1'}
    for cfgname, cfgargs in CONFIGS:
        fresh = os.path.join(P.dir, 'fresh_' + cfgname)
        dry = os.path.join(P.dir, 'dry_' + cfgname)
        os.makedirs(fresh)
        os.makedirs(dry)
        log = os.path.join(P.dir, 'pts_%s.log' % cfgname)
        _complete(P, cfgargs, dry, env={'VERIF_CRASH_LOG': log})
        ks = [k for scope, k, kind in _read_points(log) if scope == 'main' and kind == 'wholeprogram-begin']
        if not ks:
            ctx.count('witness_replay', 'crash-point-not-listed:' + cfgname)
            continue
        kind = _trial(ctx, P, cfgname, cfgargs, 'fresh', fresh, 'main', ks[0], 'plain', 'w_' + cfgname)
        ctx.count('witness_replay', '%s:killed-at:%s' % (cfgname, kind))
    shutil.rmtree(P.dir, ignore_errors=True)


def run(ctx):
    ctx.rule = ('case = (project, executor config, start state of the build dir); every H3 crash point of every '
                'scope is killed once plain and once after flushing the open cache stream, then two complete runs '
                'are compared with the run without build dir; non-trivial = >=90% of the enumerated points really '
                'fired (process group died with SIGKILL and VERIF_CRASH_FIRED names the kind), among them >=2 '
                'distinct cache-writing kinds, and the reference contains an unmatchedSuppression (reopen path) '
                'and >=4 findings')
    ctx.workers = 12
    strace_ok = (not ctx.quick()) and _strace_ok()
    if not ctx.quick() and not strace_ok:
        ctx.assumptions.append('strace write injection unavailable: write-syscall tier skipped')
    _witness(ctx)
    # quick: one project (7 enumerated workloads, about 1000 kills) + the witness; DESIGN's two projects
    # do not fit the 3 minute budget when the machine is shared (measured 0.5 s per cppcheck start under load)
    for pi in range(ctx.n(1, 20)):
        _do_project(ctx, pi, strace_ok)

