"""C07 — Expression trees follow the C/C++ operator grammar.

Differential monitor: random well-typed expression statements (vlib/gen/exprgen.py, minimal
parentheses, C and C++) are analysed by `cppcheck --dump`; the operand structure read from
astOperand1/astOperand2/astParent is brought to a canonical S-expression (vlib/models/exprcmp.py) and
must equal the generator's own tree.  The same text is parsed by clang (-ast-dump=json); a statement
is asserted only when clang's tree equals the generator's (otherwise it is dropped and counted).
Also asserted per statement: exactly one tree (no operator token left outside it) and parent/child
edges agree.
"""
import os
import re

from .. import run as vrun
from ..core import sha1
from ..gen import exprgen
from ..models import cdump, exprcmp

PID = 'C07'
FLAVOURS = ['mon']
META = {
    'technique': 'differential monitor: cppcheck --dump AST vs generator tree vs clang JSON AST',
    'level_text': 'Sampled exploration: random expression trees over the C and C++ operator grammar (all binary '
                  'levels, prefix/postfix unary, casts, sizeof, ?:, calls, subscripts, member access, comma, all '
                  'assignments; C++ adds ::, new/delete, functional and named casts, explicit template arguments), '
                  'depth <= 7, printed with minimal parentheses in several statement contexts; cppcheck\'s operand '
                  'structure must equal the generator\'s tree, which is asserted only if clang parses the same tree.',
    'level_note': 'Sampled, not exhaustive. Forms whose token-level normalisation by cppcheck changes the tree '
                  'shape while preserving meaning are not generated (fixed list in the evidence); generator '
                  'exclusions that exist because of a listed finding are named after the finding.',
    'design_ref': 'DESIGN.md §3 C07',
}

KNOWN_DIR = os.path.join(os.path.dirname(os.path.dirname(os.path.dirname(os.path.abspath(__file__)))), 'known', 'C07')

# generator exclusions that exist because of a listed finding (name -> finding key / note)
FINDING_EXCLUSIONS = {
    'xor-incdec': 'cppcheck rejects valid `a ^ ++b`, `a ^ --b`, `a ^ &b` with syntaxError '
                  '(Tokenizer::findGarbageCode `^ %op%`); not a C07 violation (input not accepted) but the whole '
                  'unit would be lost; reported separately',
    'stmt-name-comma': 'expr:a,b=3;:c',
    'return-name-op-cast': 'expr:returnull1&(long)us2;:c',
    'sizeof-unparen': 'expr:r=sizeof-a;:c (and the other sizeof-without-parentheses witnesses)',
    'enum-cast-unary': 'expr:a=(enumE)-b;:c',
    'delete-prefix-op': 'expr:delete--pc1;:c++',
    'new-less': 'expr:if(newdouble<pd){}:c++',
    'andassign-decl-heuristic': 'expr:returnf2(c2&=E0);:c',
    'paren-decl-heuristic': 'expr:if(i1&&pf(i2)){}:c',
    'enumerator-angle-chain': 'expr:i1=E1<b2>(i3);:c++',
    'new-comma': 'expr:pi1=(int*)newdouble[u1],static_cast<longdouble>(ull1);:c++',
}


def keyof(text, lang):
    return 'expr:%s:%s' % (re.sub(r'\s+', '', text), lang)


def _numeric_leaves(u):
    out = []
    for st in u.stmts.values():
        for x in st.walk():
            if x.k == 'leaf' and exprgen.leaftext(x.txt) == '#':
                out.append((x.pos[0], x.pos[1], len(x.txt)))
    return out


def _ops(st):
    n = 0
    for x in st.walk():
        if x.k not in ('leaf', 'qual', 'szt'):
            n += 1
    return n


def _opname(x):
    if x.k in ('bin', 'assign'):
        return x.op
    if x.k in ('pre', 'post'):
        return x.k + x.op
    if x.k == 'mem':
        return x.op
    if x.k == 'kw':
        return x.op
    if x.k == 'new':
        return x.op
    return x.k


def check_unit(ctx, d, name, text, lang, stmts=None, szt=(), nums=(), witness_keys=None):
    """stmts: line -> generator Node (None for witness files: clang is then the only reference).
    -> number of asserted statements"""
    path = os.path.join(d, name)
    with open(path, 'w') as f:
        f.write(text)
    r = vrun.cppcheck(['--dump', '-q', '--language=' + lang, name], cwd=d)
    if r.timed_out:
        ctx.inconclusive('watchdog fired on %s' % name)
        return 0
    root, cerr = exprcmp.clang_ast(path, lang)
    if root is None:
        ctx.count('dropped', 'unit: clang rejects the generated unit')
        ctx.sample({'clang-rejected-unit': cerr[:300]})
        return 0
    dump_path = path + '.dump'
    if not os.path.exists(dump_path):
        ctx.count('dropped', 'unit: no dump written')
        return 0
    try:
        dump = cdump.load(dump_path)
    except Exception as e:   # malformed XML is C14's business; here the unit is unusable
        ctx.count('dropped', 'unit: dump unreadable (%s)' % type(e).__name__)
        return 0
    os.unlink(dump_path)
    if b'syntaxError' in r.err or b'syntax error' in r.err or not dump.ok:
        m = re.search(r':(\d+):\d+: error: [^\n]*\n([^\n]*)', r.etext())
        ctx.count('dropped', 'unit: cppcheck does not accept the unit (syntax error)')
        ctx.count('cppcheck_rejects', (m.group(2).strip() if m else r.etext()[:120]))
        return 0
    cu = exprcmp.ClangUnit(root, text)
    pu = exprcmp.CppUnit(dump, szt, nums)
    lines = text.split('\n')
    asserted = 0
    for line in sorted(stmts if stmts is not None else witness_keys):
        stxt = lines[line - 1].strip()
        cst = cu.stmts.get(line)
        if cst is None:
            ctx.count('dropped', 'statement: clang has no statement on the line')
            continue
        cl = cu.canon(cst)
        if stmts is not None:
            g = exprgen.canon(stmts[line])
            if g != cl:
                ctx.count('dropped', 'statement: clang tree != generator tree')
                if ctx.cov.get('dropped', {}).get('statement: clang tree != generator tree', 0) <= 3:
                    ctx.sample({'generator-vs-clang': stxt, 'gen': g, 'clang': cl})
                continue
        else:
            g = cl
            if '<' in re.sub(r'<<=?|<=?', '', g) and re.search(r'<[A-Z]\w+>', g):
                ctx.count('dropped', 'witness: clang node kind without canonical form')
                continue
        ctx.ev()
        asserted += 1
        key = witness_keys[line] if witness_keys else keyof(stxt, lang)
        roots = pu.roots(line)
        if stmts is not None and stmts[line].k == 'decl':
            # cppcheck links the declarator part `T * name` as a tree of its own (representation of
            # declarations, not an expression): trees lying entirely before the initialiser are not judged
            eqcol = stmts[line].pos[1]
            roots = [t for t in roots if not all(x.col < eqcol for x in pu.tree_tokens(t))]
        cps = [pu.canon(t) for t in roots]
        le = pu.link_errors(line)
        if stmts is not None:
            for x in stmts[line].walk():
                if x.k not in ('leaf', 'qual', 'szt'):
                    ctx.count('operators_asserted', _opname(x))
            nops = _ops(stmts[line])
            ctx.count('hist_operator_nodes', min(nops, 20))
            if nops >= 3 and cps == [g] and not le:
                ctx.trivial_or(sha1(stxt))
        else:
            ctx.count('witness', 'replayed')
        if cps != [g]:
            what = ('%s statement: %s\n  expected (generator == clang): %s\n  cppcheck --dump (%d tree(s) on the line):\n%s'
                    % (lang, stxt, g, len(cps), '\n'.join('    ' + c for c in cps) or '    (no tree)'))
            exprcmp.report(ctx, key, what, files={name: text},
                          cmd='cppcheck --dump -q --language=%s %s   # line %d' % (lang, name, line))
        elif le:
            exprcmp.report(ctx, key + ':links', '%s statement: %s\n  AST links inconsistent: %s' % (lang, stxt, '; '.join(le[:4])),
                          files={name: text}, cmd='cppcheck --dump -q --language=%s %s   # line %d' % (lang, name, line))
    return asserted


def _case(ctx, idx, excl, nst):
    rng = ctx.subrng('unit', idx)
    lang = 'c' if idx % 2 == 0 else 'c++'
    u = exprgen.gen_unit(rng, lang, nstmts=nst, per_func=50, excl=excl, maxdepth=7)
    d = ctx.tmpdir('u%d' % idx)
    szt = [x.pos for st in u.stmts.values() for x in st.walk() if x.k == 'szt']
    n = check_unit(ctx, d, 'u%d%s' % (idx, u.ext()), u.text(), lang, u.stmts, szt, _numeric_leaves(u))
    ctx.count('units', lang)
    ctx.count('statements_asserted', lang, n)
    if idx < 2:
        ln = sorted(u.stmts)[0]
        ctx.sample({'lang': lang, 'statement': u.lines[ln - 1].strip(), 'tree': exprgen.canon(u.stmts[ln])})
    import shutil
    shutil.rmtree(d, ignore_errors=True)


def replay_witnesses(ctx):
    """every listed finding's witness is re-checked on every run (clang is the reference)"""
    idx = os.path.join(KNOWN_DIR, 'INDEX')
    if not os.path.exists(idx):
        return
    files = {}
    for l in open(idx):
        l = l.strip()
        if not l or l.startswith('#'):
            continue
        fn, line, key = l.split(None, 2)
        files.setdefault(fn, {})[int(line)] = key
    for fn, keys in sorted(files.items()):
        text = open(os.path.join(KNOWN_DIR, fn)).read()
        lang = 'c++' if fn.endswith('.cpp') else 'c'
        d = ctx.tmpdir('w_' + fn.replace('.', '_'))
        # positions of `sizeof(` type operands and numeric literals are not known for hand-written
        # witnesses; witnesses therefore avoid sizeof(type) and floating literals
        check_unit(ctx, d, fn, text, lang, None, (), (), keys)


def run(ctx):
    ctx.rule = ('case = one generated expression statement; asserted only if clang\'s tree equals the generator\'s; '
                'non-trivial = asserted statement with >= 3 operator nodes whose cppcheck tree was found and compared')
    excl = sorted(FINDING_EXCLUSIONS)
    ctx.cov['normalisation_exclusions'] = list(exprgen.NORMALISATION_EXCLUSIONS)
    ctx.cov['finding_exclusions'] = dict(FINDING_EXCLUSIONS)
    replay_witnesses(ctx)
    nexpr = ctx.n(3000, 300000)
    per = 50
    units = max(2, (nexpr + per - 1) // per)
    vrun.pmap(lambda i: _case(ctx, i, excl, per), range(units), workers=8)
