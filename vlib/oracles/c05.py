"""C05 — Results are invariant under meaning-preserving rewrites.

Metamorphic monitor: findings(P), mapped through the rewrite's exact position/name map, must equal
findings(R(P)) for R in {re-indentation/trailing blanks, blank+comment lines between statements,
consistent renaming of user identifiers, permutation of already-declared top-level definitions}.
"""
import collections
import os
import re
import shutil

from .. import cases, findings
from ..core import sha1
from ..gen import progen, projgen, rewrite
from ..run import pmap

PID = 'C05'
FLAVOURS = ['mon']
META = {
    'technique': 'metamorphic run monitor: findings of a program vs findings of its meaning-preserving rewrite, compared '
                 'through the exact location/name map of the rewrite',
    'level_text': 'Sampled exploration: programs with seeded defects (projgen snippets) and progen programs, each rewritten '
                  'by four rewrite families; canonical findings (id, severity, certainty, message, all locations, symbols) '
                  'must be equal after remapping. Evidence counts pairs per rewrite and finding ids compared.',
    'level_note': 'Layout/name-purpose checks excluded exactly as DESIGN.md lists; rewrites are restricted to forms whose '
                  'meaning preservation is guaranteed by construction (comments only between statements, fresh identifiers '
                  'that collide with nothing, definitions all declared above).',
    'design_ref': 'DESIGN.md §3 C05',
}

LIB_NAMES = set('malloc calloc free fopen fclose fgetc FILE memset memcpy strdup strlen printf size_t std vector string '
                'begin end size const_iterator push_back EOF NULL main strtoll argc argv memset'.split())
LAYOUT_CERTAINTY = {'unreachableCode', 'duplicateBreak'}
EXCLUDE = {
    'reindent': {'suspiciousSemicolon', 'commaSeparatedReturn'},
    'comments': {'suspiciousSemicolon', 'commaSeparatedReturn'},
    'rename': {'shadowVariable', 'shadowFunction', 'shadowArgument', 'shadowVar', 'funcArgNamesDifferent',
               'funcArgOrderDifferent'},
    'reorder': set(),
}


# groups of functions that call each other: every function becomes its own top-level definition (all are declared by
# prototypes above), so the reorder rewrite also permutes callers against callees
CALLGRAPH = [
    ('cpp', 'static int thr_{n}(int x) {{\n    if (x > {k})\n        throw x;\n    return x;\n}}\n\n'
            'int nt1_{n}(int x) noexcept {{\n    return thr_{n}(x) + 1;\n}}\n\n'
            'int nt2_{n}(int x) noexcept {{\n    return thr_{n}(x) + 2;\n}}\n'),
    ('cpp', 'static int mid_{n}(int x);\n\nstatic int leaf_{n}(int x) {{\n    if (x == {k})\n        throw 1;\n    return x;\n}}\n\n'
            'static int mid_{n}(int x) {{\n    return leaf_{n}(x) * 2;\n}}\n\n'
            'int top1_{n}(int x) noexcept {{\n    return mid_{n}(x);\n}}\n\n'
            'int top2_{n}(int x) noexcept {{\n    return mid_{n}(x) + leaf_{n}(x);\n}}\n'),
    ('any', 'static int hlp_{n}(int *p) {{\n    return *p + {k};\n}}\n\n'
            'int usea_{n}(void) {{\n    int v = {k};\n    return hlp_{n}(&v);\n}}\n\n'
            'int useb_{n}(void) {{\n    int *q = 0;\n    return hlp_{n}(q);\n}}\n'),
    ('any', 'static int rec_{n}(int d) {{\n    if (d <= 0)\n        return {k};\n    return rec_{n}(d - 1) + 1;\n}}\n\n'
            'int recuser_{n}(void) {{\n    int a[{k4}];\n    a[{k4}] = rec_{n}(3);\n    return a[0];\n}}\n'),
    ('any', 'static int div_{n}(int a, int b) {{\n    return a / b;\n}}\n\n'
            'int divzero_{n}(int a) {{\n    return div_{n}(a, 0);\n}}\n\n'
            'int divok_{n}(int a) {{\n    return div_{n}(a, {k});\n}}\n'),
    ('cpp', 'int pterm_{n}(int d) noexcept {{\n    if (d <= 0)\n        return 0;\n    return pexpr_{n}(d - 1);\n}}\n\n'
            'int pexpr_{n}(int d) noexcept {{\n    int r = pterm_{n}(d);\n    if (r > {k})\n        throw r;\n    return r;\n}}\n'),
    ('any', 'int even_{n}(int d) {{\n    if (d == 0)\n        return 1;\n    return odd_{n}(d - 1);\n}}\n\n'
            'int odd_{n}(int d) {{\n    int a[{k4}];\n    if (d == 0)\n        return 0;\n    a[{k4}] = even_{n}(d - 1);\n    return a[0];\n}}\n'),
    ('cpp', 'class CG_{n} {{\npublic:\n    int run_{n}(int x) {{ return priv_{n}(x) + {k}; }}\nprivate:\n    int priv_{n}(int x) {{ return x * 2; }}\n    int never_{n}(int x) {{ return x * 3; }}\n}};\n\n'
            'int cguser_{n}(int x) {{\n    CG_{n} c;\n    return c.run_{n}(x);\n}}\n'),
]


def snippet_program(rng, lang):
    """-> (prelude lines, blocks (lists of lines), tail lines, rename candidates)"""
    pool = [s for s in projgen.SNIPPETS if s[1] in ('any', lang)]
    prelude = (projgen.C_PRELUDE if lang == 'c' else projgen.CPP_PRELUDE).strip().split('\n')
    blocks = []
    protos = []
    cg = [c for c in CALLGRAPH if c[0] in ('any', lang)]
    for k in range(rng.randint(3, 9)):
        if rng.random() < 0.3:
            txt = projgen._fmt(rng.choice(cg)[1], 's%d' % k, rng)
            parts = [x for x in txt.split('\n\n') if x.strip()]
        else:
            sn = rng.choice(pool)
            txt = projgen._fmt(sn[2], 's%d' % k, rng)
            txt = txt.replace(' get()', ' get_s%d()' % k).replace(' calc(', ' calc_s%d(' % k)   # exclusion unique-member-names
            parts = [txt]
        for part in parts:
            lines = part.rstrip('\n').split('\n') + ['']
            head = lines[0]
            if head.rstrip().endswith(';') and len(lines) == 2:
                protos.append(head)         # a forward declaration of the group goes to the prelude
                continue
            blocks.append(lines)
            if not head.startswith(('class', 'struct')) and head.rstrip().endswith('{'):
                protos.append(head.rstrip()[:-1].rstrip() + ';')
    prelude = prelude + [''] + protos + ['']
    tail = ['int main(void) {', '    return 0;', '}', '']
    return prelude, blocks, tail


def progen_program(rng, lang):
    prog = progen.gen(rng, lang=lang, profile='full')
    lines = prog.plain.rstrip('\n').split('\n')
    # split at top-level function definitions
    starts = [i for i, l in enumerate(lines) if l.startswith('static ') and l.rstrip().endswith('{')]
    main_i = next(i for i, l in enumerate(lines) if l.startswith('long long strtoll'))
    prelude = lines[:starts[0]] if starts else lines[:main_i]
    blocks = []
    protos = []
    for a, b in zip(starts, starts[1:] + [main_i]):
        blocks.append(lines[a:b])
        protos.append(lines[a].rstrip()[:-1].rstrip() + ';')
    prelude = prelude + protos + ['']
    tail = lines[main_i:] + ['']
    return prelude, blocks, tail


def candidates(text):
    body = '\n'.join(l for l in text.split('\n') if not l.lstrip().startswith('#'))
    names = set(rewrite.IDENT.findall(re.sub(r'"(\\.|[^"\\])*"|\'(\\.|[^\'\\])*\'|//.*', ' ', body)))
    # only identifiers that cannot be mistaken for a word of a message text (they contain a digit or '_')
    return {n for n in names if n not in rewrite.C_KEYWORDS and n not in LIB_NAMES and not n.startswith('__')
            and not n.isupper() and re.search(r'[0-9_]', n)}


def remap(fs, pos, names, file_old, file_new):
    pat = re.compile(r'\b(' + '|'.join(re.escape(k) for k in sorted(names, key=len, reverse=True)) + r')\b') if names else None

    def rn(s):
        if pat is not None:
            s = pat.sub(lambda m: names[m.group(1)], s)
        return re.sub(r'\bline (\d+)\b', lambda m: 'line %d' % pos(int(m.group(1)), 1)[0], s)
    out = []
    for f in fs:
        locs = []
        for (fl, line, col, info) in f.locs:
            if fl == file_old:
                line, col = pos(line, col)
                fl = file_new
            locs.append((fl, line, col, rn(info)))
        out.append(f._replace(msg=rn(f.msg), verbose=rn(f.verbose), locs=tuple(locs),
                              symbols=tuple(rn(s) for s in f.symbols), file0=file_new))
    return out


def one_case(ctx, idx):
    rng = ctx.subrng('case', idx)
    lang = rng.choice(['c', 'cpp'])
    ext = '.c' if lang == 'c' else '.cpp'
    src_kind = rng.choice(['snippets', 'snippets', 'progen'])
    prelude, blocks, tail = (snippet_program if src_kind == 'snippets' else progen_program)(rng, lang)
    lines = list(prelude)
    for b in blocks:
        lines += b
    lines += tail
    text = '\n'.join(lines)
    d = ctx.tmpdir('c%d' % idx)
    opts = ['-q', '--enable=all', '--inconclusive', '--platform=unix64', '--library=std']
    try:
        with open(os.path.join(d, 'p' + ext), 'w') as f:
            f.write(text)
        a0 = cases.analyse(d, opts + ['p' + ext])
        if not a0.xml_ok or a0.res.timed_out or cases.crashed(a0.res):
            ctx.count('skipped', 'reference-unusable')
            return
        if any(f.id in ('syntaxError', 'internalAstError', 'internalError', 'unknownMacro') for f in a0.findings):
            ctx.count('skipped', 'reference-has-syntaxError')
            return
        rewrites = []
        t, pos, names = rewrite.reindent(rng, text)
        rewrites.append(('reindent', t, pos, names))
        t, pos, names = rewrite.insert_lines(rng, text, rewrite.statement_boundary)
        rewrites.append(('comments', t, pos, names))
        t, pos, names = rewrite.rename(rng, text, candidates(text))
        rewrites.append(('rename', t, pos, names))
        t, pos, names, order = rewrite.reorder(rng, prelude, blocks, tail)
        rewrites.append(('reorder', t, pos, names))
        for kind, t2, pos, names in rewrites:
            name2 = 'r_%s%s' % (kind, ext)
            with open(os.path.join(d, name2), 'w') as f:
                f.write(t2)
            a1 = cases.analyse(d, opts + [name2])
            ctx.ev()
            ctx.count('pairs', kind)
            if a1.res.timed_out:
                ctx.inconclusive('watchdog on case %d %s' % (idx, kind))
                continue
            if not a1.xml_ok or cases.crashed(a1.res):
                ctx.violation('pair:%s:%s:crash' % (sha1(text), kind), 'rewritten program crashes cppcheck (rc=%s)' % a1.rc,
                              files={'p' + ext: text, name2: t2})
                continue
            excl = EXCLUDE[kind]
            exp = [f for f in remap(a0.findings, pos, names, 'p' + ext, name2) if f.id not in excl]
            got = [f for f in a1.findings if f.id not in excl]
            if kind in ('reindent', 'comments'):
                # layout heuristic of checkUnreachableCode (blank/comment lines in between => inconclusive):
                # the *certainty* of these two ids depends on layout by design; everything else is compared
                exp = [f._replace(inconclusive=False) if f.id in LAYOUT_CERTAINTY else f for f in exp]
                got = [f._replace(inconclusive=False) if f.id in LAYOUT_CERTAINTY else f for f in got]
            oa, ob = findings.diff(exp, got)
            if oa or ob:
                first = (oa or ob)[0][0]
                ctx.violation('pair:%s:%s:%s' % (sha1(text), kind, first),
                              'findings change under rewrite %s (source: %s, %s)\n%s' % (
                                  kind, src_kind, lang, cases.fmt_diff(oa, ob, 'expected(mapped)', 'rewritten')),
                              files={'p' + ext: text, name2: t2},
                              cmd='cppcheck %s p%s ; cppcheck %s %s' % (' '.join(opts), ext, ' '.join(opts), name2))
            for f in got:
                ctx.count('finding_ids_compared', f.id)
        if len(a0.findings) >= 3:
            ctx.trivial_or(sha1(text))
        ctx.sample({'source': src_kind, 'lang': lang, 'lines': len(lines), 'findings': len(a0.findings),
                    'ids': sorted(set(f.id for f in a0.findings))[:12]}, limit=4)
    finally:
        shutil.rmtree(d, ignore_errors=True)


def replay_known(ctx):
    import glob
    import json
    from ..build import VERIF
    opts = ['-q', '--enable=all', '--inconclusive', '--platform=unix64', '--library=std']
    for wd in sorted(glob.glob(os.path.join(VERIF, 'known', PID, '*', 'map.json'))):
        wd = os.path.dirname(wd)
        meta = json.load(open(os.path.join(wd, 'map.json')))
        ext = '.cpp' if os.path.exists(os.path.join(wd, 'p.cpp')) else '.c'
        d = ctx.tmpdir('w_' + os.path.basename(wd))
        shutil.copy(os.path.join(wd, 'p' + ext), d)
        shutil.copy(os.path.join(wd, 'r' + ext), os.path.join(d, 'r_%s%s' % (meta['kind'], ext)))
        text = open(os.path.join(wd, 'p' + ext)).read().rstrip('\n')
        a0 = cases.analyse(d, opts + ['p' + ext])
        a1 = cases.analyse(d, opts + ['r_%s%s' % (meta['kind'], ext)])
        lm = {int(k): v for k, v in meta['linemap'].items()}
        exp = remap(a0.findings, lambda line, col: (lm.get(line, line), col), {}, 'p' + ext, 'r_%s%s' % (meta['kind'], ext))
        oa, ob = findings.diff(exp, a1.findings)
        shutil.rmtree(d, ignore_errors=True)
        if oa or ob:
            ctx.count('known_witnesses', 'replayed-and-failing')
            ctx.violation('pair:%s:%s:%s' % (sha1(text), meta['kind'], (oa or ob)[0][0]),
                          '[%s] %s' % (os.path.basename(wd), meta['what']))
        else:
            ctx.count('known_witnesses', 'no-longer-failing:' + os.path.basename(wd))


def run(ctx):
    replay_known(ctx)
    ctx.cov['generator_exclusions'] = {
        'unique-member-names': 'two unused member functions never share a name in generated inputs '
                               '[finding unusedfunction-same-name]'}
    ctx.rule = ('case = program (projgen defect snippets or progen full profile, C or C++) x 4 rewrites; non-trivial = the '
                'original has >= 3 findings to carry across; distinct by program text')
    ctx.cov['excluded_ids_per_rewrite'] = {k: sorted(v) for k, v in EXCLUDE.items()}
    pmap(lambda i: one_case(ctx, i), range(ctx.n(120, 5000)), workers=16)
