"""C02 — Container-size facts hold in every UB-free execution.

Same pipeline as C01 on C++ programs over standard containers (contgen): cppcheck --dump
--library=std; every known / impossible container-size value on a container token becomes an online
assertion on c.size() evaluated right before that use in the instrumented program.
"""
import json
import os
import shutil

from .. import probe
from ..core import sha1
from ..gen import contgen
from ..run import pmap
from . import c01

PID = 'C02'
FLAVOURS = ['mon']
META = {
    'technique': 'runtime assertion monitor: cppcheck container-size facts (dump) asserted on c.size() inside '
                 'sanitizer-clean executions of generated C++ container programs',
    'level_text': 'Sampled exploration over generated sequences of construction, push/pop, insert/erase, resize, clear, '
                  'assign, swap, +=, copy-assignment, passing by (const) reference, loops and size-dependent branches on '
                  'std::vector/string/deque/list/set x input vectors; every known/impossible size fact on a container use '
                  'is checked against the real size at that point.',
    'level_note': 'Trusts libstdc++ (gcc 12) + ASan/UBSan; moved-from containers and std::array are not generated; possible '
                  'values are not judged.',
    'design_ref': 'DESIGN.md §3 C02',
}


def one_program(ctx, idx, nvec):
    rng = ctx.subrng('prog', idx)
    prog = contgen.gen(rng)
    d = ctx.tmpdir('p%d' % idx)
    try:
        vecs = [[rng.randint(-1, 6) for _ in range(8)] for _ in range(nvec)]
        vecs[0] = [0] * 8
        res = c01.check_program(prog, d, vecs, ('--library=std',), 'cpp', attr='container-size')
        ctx.ev()
        if res['status'] != 'ok':
            ctx.count('programs', res['status'])
            if res.get('err', '').strip():
                ctx.count('compile_errors', res['err'].strip().splitlines()[0][:140])
            return
        facts, obs, st = res['facts'], res['obs'], res['stats']
        ctx.count('probes', 'joined', st['joined'])
        ctx.count('probes', 'unjoined', st['unjoined'])
        for fct in facts:
            ctx.count('facts_by_kind', c01.KIND_NAMES[fct[1]])
        ctx.count('executions', 'clean', obs.ok_runs)
        ctx.count('executions', 'discarded', obs.discarded)
        for fk, hits in res['hit'].items():
            ctx.count('facts_hit_by_kind', c01.KIND_NAMES[fk[1]])
            ctx.count('fact_hits_total', 'observations', hits)
        for pid, kidx, K, bad, vec, viol, hits, dsc in res['viols']:
            line, col = prog.probes[pid][0], prog.probes[pid][1]
            what = ('cppcheck states container-size %s, but a sanitizer-clean execution observed size %d there '
                    '(input %r, %d of %d observations disagree); line: %s'
                    % (dsc, bad, vec, viol, hits, prog.plain.split('\n')[line - 1].strip()))
            key = 'witness:%s:%s@%d:%d' % (sha1(prog.plain), c01.KIND_NAMES[kidx] + '=' + str(K), line, col)
            ctx.violation(key, what, files={'p.cpp': prog.plain, 'p_i.cpp': prog.inst,
                                            'meta.json': json.dumps({'probes': prog.probes, 'vecs': vecs, 'lang': 'cpp',
                                                                     'extra_args': ['--library=std'], 'attr': 'container-size'}),
                                            'trace.h': '@' + os.path.join(probe.HARNESS, 'trace.h')},
                          cmd='cppcheck --dump --library=std --platform=unix64 p.cpp')
        for f, c in prog.features.items():
            ctx.count('operations', f, c)
        if res['hit']:
            ctx.trivial_or(sha1(prog.plain))
        ctx.sample({'probes': len(prog.probes), 'facts': len(facts), 'facts_hit': len(res['hit']),
                    'clean_runs': obs.ok_runs, 'body': prog.plain.split('\n')[38:48]}, limit=3)
    finally:
        shutil.rmtree(d, ignore_errors=True)


def run(ctx):
    c01.replay_known(ctx, PID, check=lambda prog, d, vecs, extra, lang: c01.check_program(
        prog, d, vecs, ('--library=std',), 'cpp', attr='container-size'))
    ctx.rule = ('case = one generated C++ program (contgen) x N input vectors; non-trivial = at least one known/impossible '
                'container-size fact on a container use was evaluated in a sanitizer-clean execution; distinct by text')
    ctx.cov['generator_exclusions'] = contgen.EXCLUSIONS
    n = ctx.n(100, 5000)
    nvec = 8 if ctx.quick() else 24
    pmap(lambda i: one_program(ctx, i, nvec), range(n), workers=16)
