"""C14 — Dump output is well-formed and self-consistent.

Two monitors on every `--dump` file the real CLI writes for an *accepted* input:
 1. vlib/dump.py — an independent strict checker (well-formed XML; every reference attribute resolves,
    per configuration, to an element of the right kind; links symmetric / properly nested; AST parent
    and operand edges agree, forest; values lists 1:1);
 2. /repo/addons/cppcheckdata.py `parsedump` loads the same file (harness/dumpcmp.py, own process) and
    the object graph it builds is compared edge by edge with the one the checker resolved.

Inputs: progen programs (both profiles, C and C++), featgen programs (typedef/using/macros/templates/
operators/strings with XML specials/containers/#if structure), samples, test/cfg slices, a few
/repo/lib/*.cpp, accepted token-level mutants; several -D sets (multi-configuration dumps),
platforms, standards, libraries, inline suppressions.
"""
import json
import os
import re
import shutil
import sys

from .. import build, sanreport
from ..core import sha1
from ..gen import mutate, featgen
from ..run import pmap, run as run_cmd, cppcheck, base_env

PID = 'C14'
FLAVOURS = ['mon']
META = {
    'technique': 'output invariant monitor: independent strict dump checker + edge-by-edge comparison with the '
                 'object graph built by the shipped cppcheckdata.py',
    'level_text': 'Sampled exploration: every dump written by the real CLI for generated programs (progen both '
                  'profiles, featgen), corpora (samples, test/cfg slices, lib/*.cpp) and accepted mutants, under '
                  'several -D sets/platforms/standards/libraries, is checked by an independent XML/reference/link/'
                  'AST/value-list invariant checker and loaded by the shipped addon library whose resolved object '
                  'graph must equal ours. Evidence counts tokens, links, AST edges, value lists and addon edges '
                  'actually compared, and dumps with more than one configuration.',
    'level_note': 'Only accepted inputs (no syntaxError/internal error) are judged, as the property says; the checker '
                  'knows the reference attributes written by Tokenizer::dump, SymbolDatabase::printXml and '
                  'Token::printValueFlow at the pinned revision.',
    'design_ref': 'DESIGN.md §3 C14',
}

KNOWN_DIR = os.path.join(build.VERIF, 'known', 'C14')
DUMPCMP = os.path.join(build.VERIF, 'harness', 'dumpcmp.py')
REJECT_IDS = {'syntaxError', 'unknownMacro', 'internalAstError', 'internalError', 'preprocessorErrorDirective',
              'unhandledChar', 'cppcheckError', 'noValidConfiguration', 'invalidCode'}
TEMPLATE = 'F:{file}:{line}:{id}'


class Case:
    def __init__(self, name, files, main, opts, origin):
        self.name = name
        self.files = files      # relative name -> bytes
        self.main = main
        self.opts = opts
        self.origin = origin

    def digest(self):
        return sha1(*([self.main] + [k + '\0' + sha1(v) for k, v in sorted(self.files.items())] + self.opts))


def _opts(rng, lang, macros=()):
    o = []
    if macros and rng.random() < 0.7:
        r = rng.random()
        if r < 0.4:
            for m in rng.sample(list(macros), rng.randint(1, len(macros))):
                o.append('-D%s%s' % (m, rng.choice(['', '=1', '=2', '=0'])))
        elif r < 0.7:
            o.append('--force')
        else:
            o.append('--max-configs=%d' % rng.choice([2, 3, 12]))
    if rng.random() < 0.3:
        o.append('--std=' + rng.choice(['c89', 'c99', 'c11', 'c23'] if lang == 'c' else ['c++03', 'c++11', 'c++17', 'c++20', 'c++23']))
    if rng.random() < 0.3:
        o.append('--platform=' + rng.choice(['unix32', 'unix64', 'win32A', 'win32W', 'win64', 'avr8', 'pic8', 'mips32']))
    if rng.random() < 0.5:
        o.append('--library=' + rng.choice(['posix', 'gnu', 'std', 'zlib', 'bsd'] if lang == 'c' else ['posix', 'qt', 'boost', 'std', 'googletest']))
    if rng.random() < 0.25:
        o.append('--check-level=' + rng.choice(['exhaustive', 'reduced']))
    if rng.random() < 0.25:
        o += ['--enable=all', '--inconclusive']
    if rng.random() < 0.2:
        o.append('--inline-suppr')
    if rng.random() < 0.15:
        o.append('--suppress=' + rng.choice(['nullPointer', 'unusedVariable:*', '*:t.c:3', 'uninitvar:*:2']))
    return o


def _suppress_comments(rng, text):
    lines = text.split('\n')
    for _ in range(rng.randint(1, 3)):
        i = rng.randrange(len(lines))
        lines.insert(i, rng.choice(['// cppcheck-suppress unusedVariable', '// cppcheck-suppress [nullPointer, uninitvar]',
                                    '/* cppcheck-suppress variableScope ; a <b> & "c" */',
                                    '// cppcheck-suppress-begin constVariable', '// cppcheck-suppress-end constVariable',
                                    '// cppcheck-suppress-file unreadVariable', '// cppcheck-suppress shadowVariable symbolName=a<b']))
    return '\n'.join(lines)


def make_cases(ctx):
    from ..gen import progen
    n = ctx.n(150, 6000)
    cfgfiles = mutate.cfg_test_files()
    samples = mutate.sample_files()
    libfiles = sorted(os.path.join(build.REPO, 'lib', f) for f in os.listdir(os.path.join(build.REPO, 'lib'))
                      if f.endswith('.cpp'))
    small_lib = [f for f in libfiles if os.path.getsize(f) < 30000]
    cases = []
    for k in range(n):
        rng = ctx.subrng('case', k)
        r = rng.random()
        macros = ()
        if r < 0.25:
            lang = rng.choice(['c', 'cpp'])
            p = progen.gen(rng, lang, size=rng.choice([0.4, 0.7, 1.0]), profile=rng.choice(['full', 'calibrated']))
            text, origin, name = p.plain, 'progen', 'progen'
        elif r < 0.60:
            lang = rng.choice(['c', 'cpp', 'cpp'])
            win = rng.random() < 0.15
            p = featgen.gen(rng, lang, winapi=win)
            text, origin, name, macros = p.text, 'featgen', 'featgen:' + '+'.join(p.features), p.macros
        elif r < 0.75:
            s = mutate.cfg_slice(rng, rng.choice(cfgfiles), maxbytes=6000)
            text, origin, name, lang = s.data.decode('utf-8', 'replace'), 'cfg', s.name, ('c' if s.lang == 'c' else 'cpp')
        elif r < 0.85:
            s = rng.choice(samples)
            text, origin, name, lang = s.data.decode('utf-8', 'replace'), 'samples', s.name, ('c' if s.lang == 'c' else 'cpp')
        elif r < 0.90:
            f = rng.choice(small_lib if ctx.quick() else libfiles)
            text, origin, name, lang = open(f, errors='replace').read(), 'lib', 'lib/' + os.path.basename(f), 'cpp'
        else:
            lang = rng.choice(['c', 'cpp'])
            if rng.random() < 0.5:
                p = featgen.gen(rng, lang)
                base, macros, what = p.text, p.macros, 'featgen'
            else:
                base, what = progen.gen(rng, lang, size=0.5, profile='full').plain, 'progen'
            if rng.random() < 0.5:
                text, kinds = mutate.mutate_tokens(rng, base, None, nmut=rng.choice([1, 1, 2]))
            else:
                text, kinds = mutate.mutate_gentle(rng, base)
                kinds = ['gentle-' + x for x in kinds]
            origin, name = 'mutant', '%s-mutant:%s' % (what, '+'.join(kinds))
        opts = _opts(rng, lang, macros)
        if 'winapi' in name:
            opts = [o for o in opts if not o.startswith('--platform')] + ['--platform=' + rng.choice(['win32A', 'win32W', 'win64'])]
        if '--inline-suppr' in opts:
            text = _suppress_comments(rng, text)
        if origin == 'cfg':
            lib = re.match(r'test/cfg/([\w+-]+)\.', name)
            if lib and os.path.exists(os.path.join(os.path.dirname(build.binary('mon')), 'cfg', lib.group(1) + '.cfg')):
                opts.append('--library=' + lib.group(1))
        if origin == 'lib':
            opts = [o for o in opts if not o.startswith('--check-level')]
        main = 't.c' if lang == 'c' else 't.cpp'
        cases.append(Case(name, {main: text.encode('utf-8', 'replace')}, main, opts, origin))
    return cases


def known_cases():
    """witnesses of listed findings: directories known/C14/<name>/ with cmd.json {main, opts}"""
    out = []
    if not os.path.isdir(KNOWN_DIR):
        return out
    for d in sorted(os.listdir(KNOWN_DIR)):
        p = os.path.join(KNOWN_DIR, d)
        if not os.path.isfile(os.path.join(p, 'cmd.json')):
            continue
        meta = json.load(open(os.path.join(p, 'cmd.json')))
        files = {}
        for f in os.listdir(p):
            if f not in ('cmd.json', 'README.txt'):
                files[f] = open(os.path.join(p, f), 'rb').read()
        out.append(Case('known/C14/' + d, files, meta['main'], meta['opts'], 'known'))
    return out


def one(ctx, case):
    d = ctx.tmpdir()
    for f, data in case.files.items():
        with open(os.path.join(d, f), 'wb') as fh:
            fh.write(data)
    res = cppcheck(['-q', '--dump', '--template=' + TEMPLATE] + case.opts + [case.main], flavour='mon', cwd=d, timeout=300)
    ctx.count('cases_by_origin', case.origin)
    digest = case.digest()
    cmd = 'cd <replay dir> && ' + res.cmdline()
    try:
        if res.timed_out:
            ctx.count('outcome', 'watchdog')
            ctx.inconclusive('watchdog fired while dumping %s' % case.name)
            return
        if sanreport.classify(res) is not None or res.rc != 0:
            # robustness is C13's property; a run that did not end normally has no dump to judge
            ctx.count('outcome', 'abnormal-end(rc=%s)' % res.rc)
            return
        ids = set(re.findall(r'^F:.*:(\w+)$', res.etext(), re.M))
        dump = os.path.join(d, case.main + '.dump')
        if ids & REJECT_IDS:
            ctx.count('outcome', 'input-rejected')
            for i in ids & REJECT_IDS:
                ctx.count('rejected_by', i)
            return
        if not os.path.exists(dump):
            ctx.count('outcome', 'no-dump-file')
            ctx.violation('dump:missing:' + digest, 'accepted input but no dump file written (%s)' % case.name,
                          files={k: v for k, v in case.files.items()}, cmd=cmd)
            return
        ctx.ev()
        r = run_cmd([sys.executable or '/usr/bin/python3', DUMPCMP, build.REPO, dump], cwd=d, env=base_env(), timeout=600)
        try:
            out = json.loads(r.out.decode().splitlines()[-1])
        except Exception:
            ctx.inconclusive('dump comparator failed on %s: rc=%s %s' % (case.name, r.rc, r.etext()[-300:]))
            return
        if 'harness_error' in out:
            ctx.inconclusive('dump comparator error on %s: %s' % (case.name, out['harness_error'][-400:]))
            return
        files = dict(case.files)
        seen = set()
        for inv, det, cfg in out['violations']:
            if inv == 'xml-wellformed':
                key = 'dump:xml-wellformed:' + (out.get('xml_culprit') or '?')
                det = '%s; offending text: %s' % (det, out.get('xml_context'))
            else:
                key = 'dump:%s:%s' % (inv, digest)
            if key in seen:
                continue
            seen.add(key)
            ctx.count('checker_violations', inv)
            ctx.violation(key, '%s: %s (configuration "%s", input %s, options %s)' % (inv, det, cfg, case.name, case.opts),
                          files=files, cmd=cmd)
        if out['wellformed']:
            if out['addon_error']:
                ctx.count('addon', 'raised')
                ctx.violation('dump:addon-error:%s:%s' % (out['addon_error'].split(':')[0], digest),
                              'cppcheckdata.parsedump raised on a dump our checker %s: %s (input %s, options %s)' % (
                                  'accepts' if not out['violations'] else 'also rejects', out['addon_error'], case.name, case.opts),
                              files=files, cmd=cmd + '\npython3 -c "import sys; sys.path.insert(0, \'/repo/addons\'); '
                              'import cppcheckdata; [c for c in cppcheckdata.parsedump(\'%s.dump\').iterconfigurations()]"' % case.main)
            elif out['mismatch']:
                ctx.count('addon', 'graph-differs')
                first = out['mismatch'][0]
                edge = (first[1] or first[2])
                ename = edge[2] if isinstance(edge, list) else 'configs'
                ctx.violation('dump:addon-mismatch:%s:%s' % (ename, digest),
                              'object graph of cppcheckdata.py differs from the resolved references: %s' % (
                                  '; '.join('cfg#%s checker=%s addon=%s' % tuple(m) for m in out['mismatch'][:6])),
                              files=files, cmd=cmd)
            else:
                ctx.count('addon', 'graph-equal')
        st = out['stats']
        for k in ('configs', 'token', 'scope', 'function', 'var', 'values', 'links', 'ast_edges'):
            ctx.count('observed', k, st.get(k, 0))
        ctx.count('observed', 'addon_edges_compared', out.get('addon_edges', 0))
        if st.get('configs', 0) > 1:
            ctx.count('observed', 'multi_configuration_dumps')
        raw = open(dump, 'rb').read()
        for a in ('originalName=', 'macroName=', '<info name=', 'alignas=', '&lt;', '&amp;', '<suppression ', 'isTemplateArg'):
            if a.encode() in raw:
                ctx.count('dump_features', a)
        ctx.count('outcome', 'dump-checked')
        if st.get('token', 0) >= 20 and st.get('links', 0) >= 1 and st.get('ast_edges', 0) >= 1 and out.get('addon_edges', 0) > 0:
            ctx.trivial_or(digest)
        if len(ctx.samples) < 6 and case.origin != 'known':
            ctx.sample({'input': case.name, 'options': case.opts, 'stats': st, 'addon_edges': out.get('addon_edges', 0)})
    finally:
        shutil.rmtree(d, ignore_errors=True)


def run(ctx):
    ctx.rule = ('case = one --dump run of the real CLI on an accepted input; non-trivial = the dump has >= 20 tokens, '
                '>= 1 bracket link pair, >= 1 AST edge, the independent checker evaluated all invariants on it AND '
                'cppcheckdata.py loaded it so that its object graph was compared edge by edge (addon edges > 0)')
    ctx.assumptions.append('inputs reported as syntaxError/internalError/unknownMacro/... are outside the quantifier '
                           '("inputs cppcheck accepts") and only counted')
    cases = known_cases() + make_cases(ctx)
    pmap(lambda c: one(ctx, c), cases, workers=8)
