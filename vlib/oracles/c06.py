"""C06 — Typedef, alias, macro and template expansion is transparent.

Metamorphic monitor over program pairs (absgen): form A uses the abstraction (typedef / using / macro /
explicitly instantiated template), form B the generator's own expansion. Compared on the *using*
code: findings (ids, severities, certainty, messages, lines; columns where the line is identical in
both forms) and the dump's known/impossible integer facts on tokens shared by both forms.
"""
import collections
import os
import shutil

from .. import cases, dumpread, findings, probe
from ..core import sha1
from ..gen import absgen
from ..run import pmap, cppcheck

PID = 'C06'
FLAVOURS = ['mon']
META = {
    'technique': 'metamorphic run monitor: abstracted vs generator-expanded program, findings and value-flow facts of the '
                 'using code compared through the segment-exact position map',
    'level_text': 'Sampled exploration over generated pairs for typedef, using-alias, object-/function-/statement-like '
                  'macros and explicitly instantiated function/class templates used in initialisers, conditions, indices, '
                  'casts, parameters, struct members and calls; definition lines and findings about the abstraction itself '
                  'are excluded; the macro leg compares error/warning findings and facts only (style findings inside macros '
                  'are suppressed by documented behaviour).',
    'level_note': 'The expansion is produced by the generator (trusted, simple textual forms); columns are compared only on '
                  'lines that are textually identical in both forms.',
    'design_ref': 'DESIGN.md §3 C06',
}

DECL_STYLE_IDS = {'constVariablePointer', 'constParameterPointer', 'constVariable', 'constParameter',
                  'constVariableReference', 'constParameterReference', 'constParameterCallback'}
OPTS = ['-q', '--enable=warning,style', '--platform=unix64', '--library=std']


def canon(fs, pair, shared_lines_only_cols):
    out = collections.Counter()
    for f in fs:
        if not f.locs:
            continue
        line = f.locs[0][1]
        if line in pair.deflines:
            continue
        text = f.msg + f.verbose + ''.join(i for (_a, _b, _c, i) in f.locs)
        if any(n in text for n in pair.names):
            continue
        if pair.kind.startswith('macro') and f.severity not in ('error', 'warning'):
            continue
        if f.id in DECL_STYLE_IDS and pair.kind.startswith(('typedef', 'using')):
            # "can be declared as pointer to const" is a suggestion about the *spelled* declaration; cppcheck
            # deliberately does not make it when the pointer type comes from a typedef (checkConstPointer)
            continue
        locs = []
        for (_fl, l, c, info) in f.locs:
            locs.append((l, c if l in shared_lines_only_cols else None, info))
        out[(f.id, f.severity, f.inconclusive, f.msg, tuple(locs))] += 1
    return out


def facts(dump_path):
    toks, by_pos, values, _d = dumpread.read(dump_path)
    out = {}
    for t in toks:
        fs = probe.int_facts_for_token(t, values)
        # every token at a position is kept: a simplification that duplicates or drops a token of the using code
        # (e.g. a declaration split into declaration + assignment in one form only) shows as a different list
        out.setdefault((t.line, t.col), []).append((t.str, sorted((k, v) for k, v, _d in fs)))
    return out


def one_pair(ctx, idx):
    rng = ctx.subrng('pair', idx)
    pair = absgen.gen(rng)
    A, B, shared = pair.render()
    ext = '.c' if pair.lang == 'c' else '.cpp'
    d = ctx.tmpdir('c%d' % idx)
    try:
        for name, text in (('a', A), ('b', B)):
            with open(os.path.join(d, name + ext), 'w') as f:
                f.write(text)
        ra = cases.analyse(d, OPTS + ['a' + ext])
        rb = cases.analyse(d, OPTS + ['b' + ext])
        ctx.ev()
        ctx.count('pairs', pair.kind)
        if not ra.xml_ok or not rb.xml_ok or cases.crashed(ra.res) or cases.crashed(rb.res) or ra.res.timed_out or rb.res.timed_out:
            ctx.count('skipped', 'cppcheck-failed')
            return
        if any(f.id in ('syntaxError', 'unknownMacro') for f in ra.findings + rb.findings):
            ctx.count('skipped', 'syntaxError')
            return
        same_lines = set(n for n, segs in enumerate(pair.lines, 1) if not any(isinstance(s, tuple) for s in segs))
        ca, cb = canon(ra.findings, pair, same_lines), canon(rb.findings, pair, same_lines)
        for k in ca:
            ctx.count('finding_ids_compared', k[0], ca[k])
        if ca != cb:
            oa = sorted((ca - cb).elements(), key=repr)
            ob = sorted((cb - ca).elements(), key=repr)
            first = (oa or ob)[0][0]
            ctx.violation('pair:%s:%s:%s' % (sha1(A), pair.kind, first),
                          'findings differ between the abstracted (a) and the expanded (b) form [%s]\nonly in a: %r\nonly in b: %r'
                          % (pair.kind, oa[:4], ob[:4]), files={'a' + ext: A, 'b' + ext: B},
                          cmd='cppcheck %s a%s; cppcheck %s b%s' % (' '.join(OPTS), ext, ' '.join(OPTS), ext))
        # value-flow facts on shared tokens
        cppcheck(['--dump', '-q', '--platform=unix64', '--library=std', 'a' + ext], cwd=d)
        cppcheck(['--dump', '-q', '--platform=unix64', '--library=std', 'b' + ext], cwd=d)
        try:
            fa = facts(os.path.join(d, 'a' + ext + '.dump'))
            fb = facts(os.path.join(d, 'b' + ext + '.dump'))
        except Exception:
            ctx.count('skipped', 'dump-unreadable')
            return
        nfacts = 0
        alines = A.split('\n')
        for (line, col), la in fa.items():
            if line in pair.deflines:
                continue
            cb_ = absgen.Pair.map_col(shared, line, col)
            if cb_ is None:
                continue
            lb = fb.get((line, cb_))
            if lb is None:
                continue
            # tokens spelled in the source at this position (expansions put further tokens at the same position)
            src = alines[line - 1][col - 1:]
            la = [x for x in la if src.startswith(x[0])]
            lb = [x for x in lb if src.startswith(x[0])]
            if not la or not lb or la[0][0] != lb[0][0]:
                continue
            tok = la[0][0]
            fl, other = sorted(la, key=repr), (None, sorted(lb, key=repr))
            nfacts += sum(len(x[1]) for x in la)
            if len(la) != len(lb):
                # the using code has a different number of tokens spelled here: a declaration that stays split into
                # declaration + assignment in one form only
                ctx.violation('split-decl:%s:%s' % (pair.kind, pair.lang),
                              'token %r at %d:%d exists %d time(s) in the abstracted form and %d time(s) in the expanded form '
                              '[%s]\nline: %s' % (tok, line, col, len(la), len(lb), pair.kind, alines[line - 1]),
                              files={'a' + ext: A, 'b' + ext: B})
            elif fl != other[1]:
                ctx.violation('pair:%s:%s:fact@%d:%d' % (sha1(A), pair.kind, line, col),
                              'value-flow facts on token %r at %d:%d differ [%s]: abstracted %r, expanded %r\nline: %s'
                              % (tok, line, col, pair.kind, fl, other[1], A.split('\n')[line - 1]),
                              files={'a' + ext: A, 'b' + ext: B})
        ctx.count('facts_compared', pair.kind, nfacts)
        if sum(ca.values()) >= 1 and nfacts >= 3:
            ctx.trivial_or(sha1(A))
        ctx.sample({'kind': pair.kind, 'lang': pair.lang, 'findings_compared': sum(ca.values()), 'facts_compared': nfacts,
                    'lines': A.split('\n')[1:8]}, limit=4)
    finally:
        shutil.rmtree(d, ignore_errors=True)


def run(ctx):
    ctx.rule = ('case = one (abstracted, expanded) program pair; non-trivial = at least one finding of the using code and at '
                'least 3 known/impossible facts on shared tokens were compared; distinct by text')
    pmap(lambda i: one_pair(ctx, i), range(ctx.n(200, 5000)), workers=16)
