"""C26 — Reports are faithful in every output format.

Monitor: the scripted addon (harness/scripted_addon.py) injects findings with arbitrary message texts,
symbol names, file names, locations, cwe/hash into runs over small real sources (which contribute
real findings incl. multi-location and inconclusive ones).  The same input is reported as
  * text with a full-field template whose separator occurs in no field (parsed back exactly),
  * text with a random lossy template (renderings computed from the documented field list),
  * XML (strict parse, RelaxNG validation against /repo/cppcheck-errors.rng),
  * SARIF (json.loads, required SARIF 2.1.0 members),
and every format must carry each finding exactly once (modulo the documented duplicate filter:
findings whose rendering under the run's template is identical are shown once).
"""
import collections
import json
import os
import re
import shutil
import threading

from .. import build, cases
from ..core import sha1
from ..gen import addongen as AG
from ..run import pmap, cppcheck

PID = 'C26'
FLAVOURS = ['mon', 'asan']
META = {
    'technique': 'conservation monitor: scripted-addon injected + real findings reported as text (full and lossy '
                 'templates), XML (strict parse + RelaxNG) and SARIF, each read back and compared with the injected set',
    'level_text': 'Sampled exploration: finding sets with control characters, quotes, <>&, CDATA terminators, '
                  'backslashes, {}-sequences, invalid UTF-8, long texts, awkward file and symbol names, 0-4 locations, '
                  'cwe/hash, exact and near duplicates, mixed with real findings; every format of every case is read back '
                  'completely. Evidence counts findings compared per format and character classes injected.',
    'level_note': 'Ids are kept NCName-like (the statement quantifies over messages, symbol names and file names). SARIF '
                  'omits findings without location by design (comment in sarifreport.cpp) - those are not required '
                  'there. Texts that trigger a listed known finding are kept out of the affected format only '
                  '(generator exclusions named in known/C26.txt).',
    'design_ref': 'DESIGN.md §3 C26',
}

KNOWN_DIR = os.path.join(os.path.dirname(os.path.dirname(os.path.dirname(os.path.abspath(__file__)))), 'known', 'C26')
RNG_PATH = os.path.join(build.REPO, 'cppcheck-errors.rng')
ADDONS = ['scr', 'my.addon', 'x_y']

REAL = {
    'arr': 'int f(int x) {\n    int a[2];\n    a[2] = x;\n    return a[0];\n}\n',
    'np': 'void g(int *p)\n{\n    *p = 3;\n}\n\nint main(void)\n{\n    int *p = 0;\n    g(p);\n    return 0;\n}\n',
    'inc': '#include <string.h>\nchar *cast(float *f)\n{\n    return (char *)f;\n}\n\tint tabbed(int v) { return v / 0; }\n',
    'ok': 'int fine(int v)\n{\n    return v + 1;\n}\n',
}
# names of the real (analysed) files: no shell metacharacters ( ; ' & | $ ` ( ) < > ) - known finding C34
# witness:shell-metachar-in-file-name: the addon command line is handed to sh unquoted, so the addon does not run
# for such files (injected, not analysed, file names may contain anything)
REAL_NAMES = ['arr.c', 'sp ace.c', 'unié.c', 'comma,dot..c', 'br{ace}.c', 'dir/sub file.c', 'pct%41.c',
              'plus+eq=.c', 'at@hash#.c', 'tilde~caret^.c', '[br]acket.c']

_real_cache = {}
_real_lock = threading.Lock()


# ------------------------------------------------------------------ file names
def _segment(rng, awkward):
    n = rng.randint(1, 10)
    alpha = 'abcdefghijklmnopqrstuvwxyzABCXYZ0123456789_-'
    if not awkward:
        return rng.choice('abcxyz') + ''.join(rng.choice(alpha) for _ in range(n))
    pool = [' ', "'", '"', '<', '>', '&', ';', ':', '{', '}', '[', ']', '(', ')', '%', '#', '$', '*', '?', '~', '!', '+',
            '=', ',', '@', '^', '`', '|', 'é', '中', 'Ω', '&amp;', ']]>', '{id}', '%s']
    s = rng.choice('abcxyz')
    for _ in range(n):
        s += rng.choice(pool) if rng.random() < 0.4 else rng.choice(alpha)
    return s


def fname(rng, hostile=False):
    """file name as an addon may give it, already in the simplified form cppcheck reports ('/'-joined
    segments, no '.', '..' or empty segment, no backslash).
    hostile=True adds control characters / invalid UTF-8 (these trigger known findings in XML and SARIF)."""
    segs = [_segment(rng, rng.random() < 0.6) for _ in range(rng.randint(1, 3))]
    if hostile:
        k = rng.randrange(len(segs))
        segs[k] += rng.choice([chr(rng.choice([1, 2, 7, 8, 9, 10, 11, 13, 27, 31, 127])),
                               AG.dec(rng.choice([b'\xe9', b'\xff', b'\xc3', b'\xed\xa0\x80']))])
    name = '/'.join(segs) + rng.choice(['.c', '.h', '.cpp', ''])
    if rng.random() < 0.1:
        name = '/' + name
    return name


# ------------------------------------------------------------------ injected findings
class Profile:
    def __init__(self, rng):
        # each 'hostile' class keeps the case out of the format(s) hit by the named known finding
        self.hostile_files = rng.random() < 0.15      # -> no XML, no SARIF (known: xml-file-name-*, sarif-invalid-utf8)
        self.hostile_symbols = rng.random() < 0.1     # -> no XML, no SARIF
        self.invalid_utf8_msgs = rng.random() < 0.3   # -> no SARIF (known: sarif-invalid-utf8)

    def xml_ok(self):
        return not (self.hostile_files or self.hostile_symbols)

    def sarif_ok(self):
        return not (self.hostile_files or self.hostile_symbols or self.invalid_utf8_msgs)


def gen_injected(rng, prof, primary_files, n):
    """-> list of JSON objects (addon output lines), with deliberate exact / near duplicates"""
    out = []
    tag = rng.randint(0, 9) * 100
    for _ in range(n):
        tag += 1
        msg = '#%d %s' % (tag, AG.text(rng, maxlen=rng.choice([40, 80, 200, 3000]), invalid=prof.invalid_utf8_msgs,
                                         long_p=0.06))
        if rng.random() < 0.25:
            msg += '\n' + AG.text(rng, maxlen=100, invalid=prof.invalid_utf8_msgs, newline=True).rstrip('\n') + '!'
        if rng.random() < 0.2:
            syms = []
            for _k in range(rng.randint(1, 2)):
                s = rng.choice(['sym', 'A::b', 'operator<', 'v&w', 'x"y', "it's", 'ünï', 'a b']) + str(rng.randint(0, 9))
                if prof.hostile_symbols and rng.random() < 0.7:
                    s += rng.choice(['\x01', '\x1b[0m', '\t', AG.dec(b'\xff'), AG.dec(b'\xe9')])
                syms.append(s)
            msg = ''.join('$symbol:%s\n' % s for s in syms) + msg
        o = {}
        pf = rng.choice(primary_files) if rng.random() < 0.5 else fname(rng, prof.hostile_files and rng.random() < 0.6)
        line = rng.choice([0, 1, 2, 3, 4, 5, 6, rng.randint(7, 100000), 2 ** 31 - 1])
        col = rng.choice([0, 1, 2, 5, rng.randint(1, 200), 2000])
        form = rng.random()
        if form < 0.6:
            o.update(file=pf, linenr=line, column=col)
        elif form < 0.94:
            locs = []
            for _k in range(rng.randint(0, 3)):
                locs.append({'file': rng.choice(primary_files) if rng.random() < 0.5 else fname(rng, prof.hostile_files and rng.random() < 0.3),
                             'linenr': rng.randint(0, 12), 'column': rng.randint(0, 40),
                             'info': rng.choice(['', AG.text(rng, maxlen=40, invalid=prof.invalid_utf8_msgs)])})
            locs.append({'file': pf, 'linenr': line, 'column': col,
                         'info': rng.choice(['', AG.text(rng, maxlen=40, invalid=prof.invalid_utf8_msgs)])})
            o['loc'] = locs
        o['severity'] = rng.choice(AG.SEVERITIES)
        o['message'] = msg
        o['addon'] = rng.choice(ADDONS)
        o['errorId'] = rng.choice(['e', 'rule', 'R_']) + str(rng.randint(1, 40)) + rng.choice(['', '.x', '-y'])
        if rng.random() < 0.35:
            o['cwe'] = rng.randint(1, 1400)
        if rng.random() < 0.35:
            o['hash'] = rng.randint(2, 2 ** 62)
        out.append(o)
        r = rng.random()
        if r < 0.06:
            out.append(dict(o))                                    # exact duplicate
        elif r < 0.10:
            d = dict(o)
            d['hash'] = rng.randint(2, 2 ** 62)                    # differs in hash only
            out.append(d)
        elif r < 0.14:
            d = dict(o)
            d['cwe'] = rng.randint(1, 1400)                        # differs in cwe only
            out.append(d)
        elif r < 0.17:
            d = dict(o)
            d['message'] = o['message'].split('\n')[-1] + '\nanother verbose text'  # may differ in verbose only
            out.append(d)
        elif r < 0.27 and 'column' in o:
            d = dict(o)
            d['column'] = o['column'] + rng.choice([1, 7, 40])   # differs in the column only: two distinct findings
            out.append(d)
        elif r < 0.32 and 'linenr' in o and o['linenr'] < 2 ** 31 - 1:
            d = dict(o)
            d['linenr'] = o['linenr'] + 1                          # differs in the line only
            out.append(d)
    return out


# ------------------------------------------------------------------ renderings (documented template fields)
def _callstack(ef):
    return ' -> '.join('[%s:%d]' % (l[0], l[1]) for l in ef.locs)


def read_code(src_dir, file, line, col, endl='\n'):
    """the {code} field: the source line (trailing blanks removed, tabs as spaces) and a caret line"""
    text = ''
    try:
        with open(AG.enc(os.path.join(src_dir, file)) if not file.startswith('/') else AG.enc(file), 'rb') as f:
            data = f.read()
        lines = data.split(b'\n')
        if data.endswith(b'\n'):
            lines.pop()
            beyond = b''
        else:
            beyond = lines[-1] if lines else b''
        if line <= 0:
            cur = b''
        elif line <= len(lines):
            cur = lines[line - 1]
        else:
            cur = beyond
        text = AG.dec(cur)
    except (OSError, ValueError):
        text = ''
    text = text.rstrip('\r\n\t ').replace('\t', ' ')
    return text + endl + ' ' * (col - 1 if col > 0 else 0) + '^'


def fields_of(ef, verbose, src_dir, inc_text):
    p = ef.primary()
    d = {'{id}': ef.id, '{severity}': ef.severity, '{cwe}': str(ef.cwe),
         '{message}': ef.verbose if verbose else ef.short, '{remark}': ef.remark}
    if p:
        d.update({'{callstack}': _callstack(ef), '{file}': p[0], '{line}': str(p[1]), '{column}': str(p[2])})
        d['{code}'] = lambda: read_code(src_dir, p[0], p[1], p[2])
    else:
        d.update({'{callstack}': '', '{file}': 'nofile', '{line}': '0', '{column}': '0', '{code}': ''})
    return d


_FIELD_RE = re.compile(r'\{inconclusive:([^}]*)\}|\{[a-z]+\}')


def render(ef, tpl, tpl_loc, verbose, src_dir):
    """text of one finding under --template=tpl [--template-location=tpl_loc]: every documented field
    is replaced once by its value (tpl has its \\n \\t already converted)"""
    d = fields_of(ef, verbose, src_dir, None)
    p = ef.primary()

    def endl_of(t):
        # the manual does not say how the two lines of {code} are separated; ErrorMessage::toString uses the
        # line ending found in the rest of the rendered text ('\r\n' / '\r'), else '\n' - mirrored here
        i = t.find('\r')
        if i < 0:
            return '\n'
        return '\r\n' if t[i + 1:i + 2] == '\n' else '\r'

    def sub(m):
        if m.group(0).startswith('{inconclusive:'):
            return m.group(1) if ef.inconclusive else ''
        if m.group(0) == '{code}':
            return '{code}' if p else ''
        v = d.get(m.group(0))
        if v is None:
            return m.group(0)
        return v
    out = _FIELD_RE.sub(sub, tpl)
    if p and '{code}' in tpl:
        out = out.replace('{code}', read_code(src_dir, p[0], p[1], p[2], endl_of(out)))
    if tpl_loc and len(ef.locs) >= 2:
        for l in ef.locs:
            dl = {'{file}': l[0], '{line}': str(l[1]), '{column}': str(l[2]), '{info}': l[3] if l[3] else ef.short}
            t = _FIELD_RE.sub(lambda m, dl=dl: dl.get(m.group(0), m.group(0)), tpl_loc)
            if '{code}' in tpl_loc:
                t = t.replace('{code}', read_code(src_dir, l[0], l[1], l[2], endl_of(t)))
            out += '\n' + t
    return out


def dedupe_default(ef):
    """what the default template shows of a finding (the duplicate filter of XML / SARIF runs)"""
    p = ef.primary() or ('nofile', 0, 0, '')
    locs = tuple((l[0], l[1], l[2], l[3] or ef.short) for l in ef.locs) if len(ef.locs) >= 2 else ()
    return (p[0], p[1], p[2], ef.severity, ef.inconclusive, ef.short, ef.id, locs)


def sarif_level(ef):
    return {'error': 'error', 'warning': 'error', 'style': 'warning', 'portability': 'warning',
            'performance': 'warning', 'information': 'note'}[ef.severity]


CRITICAL_IDS = {'cppcheckError', 'cppcheckLimit', 'internalAstError', 'instantiationError', 'internalError',
                'premium-internalError', 'premium-invalidArgument', 'premium-invalidLicense', 'preprocessorErrorDirective',
                'syntaxError', 'unknownMacro', 'includeNestedTooDeeply', 'missingFile', 'noValidConfiguration',
                'invalidLicense', 'invalidArgument'}


def sarif_key(ef):
    lvl = 'error' if ef.id in CRITICAL_IDS else sarif_level(ef)
    return (ef.id, lvl, ef.short, tuple((l[0], max(1, l[1]), max(1, l[2])) for l in ef.locs),
            str(ef.hash) if ef.hash else None)


def ef_from_xml(t):
    """expected finding from an XML tuple of a *real* finding (plain ASCII messages)"""
    (fid, sev, inc, msg, verbose, locs, syms, cwe, h, remark, file0) = t
    unfix = lambda s: s.replace('\\012', '\n').replace('\\011', '\t')   # noqa
    return AG.EF(fid, sev, unfix(msg), unfix(verbose), list(syms),
                 [(l[0], l[1], l[2], unfix(l[3])) for l in reversed(locs)], int(cwe) if cwe else 0,
                 int(h) if h else 0, file0, inconclusive=inc, remark=unfix(remark))


# ------------------------------------------------------------------ exactly-once matcher
def match_groups(expected, dedupe_key, format_key, got):
    """expected: list of EF in report order; got: list of format keys read back.
    -> (missing [(EF, key)], extra [key]).  Findings with equal dedupe_key are shown once (any member)."""
    groups = collections.OrderedDict()
    for ef in expected:
        groups.setdefault(dedupe_key(ef), []).append(ef)
    remaining = collections.Counter(got)
    missing = []
    for members in groups.values():
        cands = []
        for m in members:
            k = format_key(m)
            if k not in cands:
                cands.append(k)
        hit = next((k for k in cands if remaining[k] > 0), None)
        if hit is None:
            missing.append((members[0], cands[0]))
        else:
            remaining[hit] -= 1
    extra = list(remaining.elements())
    return missing, extra


def _first_diff(a, b, names):
    for n, x, y in zip(names, a, b):
        if x != y:
            return n
    return 'count'


# ------------------------------------------------------------------ case
class Case:
    pass


def make_case(d, real_files, inj, prof, rng=None, real_sig=None):
    """real_files: [(name, text)], inj: {name or '' (whole-program call): [addon output objects]}"""
    c = Case()
    c.d = d
    c.src = os.path.join(d, 'src')
    os.makedirs(c.src)
    c.prof = prof
    c.names = []
    for n, text in real_files:
        path = os.path.join(c.src, n)
        os.makedirs(os.path.dirname(path), exist_ok=True)
        with open(path, 'wb') as f:
            f.write(AG.enc(text))
        c.names.append(n)
    c.real_sig = real_sig
    script = AG.Script()
    c.inj = inj
    for n in c.names:
        script.files[n] = ([AG.jdump(o, rng) for o in inj.get(n, [])], 0)
    script.ctu = ([AG.jdump(o, rng) for o in inj.get('', [])], 0)
    c.script = script
    c.script_path = os.path.join(d, 'script.json')
    script.write(c.script_path)
    c.addon_json = AG.write_addon_json(d)
    enabled = set(AG.SEVERITIES)
    c.expected = []
    for n in c.names + ['']:
        out = AG.model_invocation(script.files[n][0] if n else script.ctu[0], 0, n, enabled)
        assert out.internal_error is None, out.internal_error
        c.expected += out.findings
    c.base = ['-q', '--enable=all', '--inconclusive', '--addon=' + c.addon_json]
    return c


def build_case(ctx, rng, d):
    prof = Profile(rng)
    kinds = rng.sample(sorted(REAL), rng.randint(1, 2))
    names = rng.sample(REAL_NAMES, len(kinds))
    inj = {}
    for n in names:
        inj[n] = gen_injected(rng, prof, names, rng.choice([0, 1, 3, 6, 10]))
    inj[''] = gen_injected(rng, prof, names, rng.choice([0, 0, 1, 3]))
    return make_case(d, [(n, REAL[k]) for k, n in zip(kinds, names)], inj, prof, rng,
                     real_sig=tuple(zip(kinds, names)))


def real_findings(ctx, c, flavour):
    """real findings of the case's sources (XML run without the addon), cached per source set"""
    with _real_lock:
        hit = _real_cache.get(c.real_sig) if c.real_sig else None
    if hit is not None:
        return hit
    res = cppcheck(['-q', '--enable=all', '--inconclusive', '--xml'] + c.names, cwd=c.src)
    if res.timed_out or cases.crashed(res):
        return None
    try:
        r = [ef_from_xml(t) for t in AG.parse_results_xml(res.err)]
    except Exception:   # noqa
        return None
    if c.real_sig:
        with _real_lock:
            _real_cache[c.real_sig] = r
    return r


def real_findings_short(c):
    """real findings as created when neither -v, --xml nor --template-location is given (see judge_case)"""
    key = ('short',) + tuple(c.real_sig or ())
    with _real_lock:
        hit = _real_cache.get(key) if c.real_sig else None
    if hit is not None:
        return hit
    sep = '<@short@>'
    tpl = sep.join(['REC', '{file}', '{line}', '{column}', '{severity}', '{inconclusive:INC}', '{id}', '{cwe}', '{message}',
                    '{callstack}', '{remark}', 'END'])
    res = cppcheck(['-q', '--enable=all', '--inconclusive', '--template=' + tpl] + c.names, cwd=c.src)
    if res.timed_out or cases.crashed(res):
        return None
    out = []
    for chunk in AG.dec(res.err).split('REC' + sep)[1:]:
        f = chunk.partition(sep + 'END')[0].split(sep)
        if len(f) != 10:
            return None
        if f[5] == 'checkersReport':
            continue
        locs = []
        if f[8]:
            for ent in f[8].split(' -> '):
                name, _, line = ent[1:-1].rpartition(':')
                locs.append((name, int(line), 0, ''))
            locs[-1] = (f[0], int(f[1]), int(f[2]), '')
        out.append(AG.EF(f[5], f[3], f[7], f[7], [], locs, int(f[6]), 0, '', inconclusive=f[4] == 'INC', remark=f[9]))
    if c.real_sig:
        with _real_lock:
            _real_cache[key] = out
    return out


def _run(c, flavour, opts, to_file, tag):
    """-> (Result, report bytes)"""
    args = list(c.base) + opts
    outp = None
    if to_file:
        outp = os.path.join(c.d, 'out-%s.txt' % tag)
        args.append('--output-file=' + outp)
    res = cppcheck(args + c.names, flavour=flavour, cwd=c.src,
                   env={'VERIF_ADDON_SCRIPT': c.script_path}, timeout=300)
    data = res.err
    if outp:
        data = open(outp, 'rb').read() if os.path.exists(outp) else b''
    return res, data


def judge_case(ctx, c, flavour, rng, label, lossy=True, formats=('text', 'xml', 'sarif'), real_override=None):
    real = real_findings(ctx, c, flavour) if real_override is None else real_override
    compare = real_override is None
    if real is None:
        ctx.count('skipped', 'reference-run-unusable')
        return None
    expected = real + c.expected
    files = {'src': '@' + c.src, 'script.json': '@' + c.script_path, 'scr.json': '@' + c.addon_json}
    stats = {'formats': 0, 'compared': 0}

    def viol(fmt, field, ef_or_txt, what, res):
        h = sha1(ef_or_txt.digest_src()) if isinstance(ef_or_txt, AG.EF) else sha1(repr(ef_or_txt))
        ctx.violation('format:%s:%s:%s' % (fmt, field, h), what, files=files,
                      cmd='cd src && VERIF_ADDON_SCRIPT=../script.json %s' % res.cmdline())

    def usable(res, fmt):
        if res.timed_out:
            ctx.inconclusive('watchdog fired on %s %s' % (label, fmt))
            return False
        if cases.crashed(res):
            viol(fmt, 'crash', repr(c.script.digest_text()), 'cppcheck crashed (rc=%s) while reporting\n%s'
                 % (res.rc, res.etext()[-1200:]), res)
            return False
        return True

    # ---------------- text, full-field template
    if 'text' not in formats:
        lossy = False
    alltext = ''.join(c.names) + ''.join(ef.digest_src() for ef in c.expected)
    sep = '<@%s@>' % sha1(str(rng.random()))[:8]
    while sep in alltext:
        sep = '<@%s@>' % sha1(str(rng.random()))[:8]
    verbose = rng.random() < 0.3
    tpl = sep.join(['REC', '{file}', '{line}', '{column}', '{severity}', '{inconclusive:INC}', '{id}', '{cwe}', '{message}',
                    '{callstack}', '{remark}', 'END'])
    tpl_loc = sep.join(['LOC', '{file}', '{line}', '{column}', '{info}', 'LEND'])
    if 'text' in formats:
        res, data = _run(c, flavour, ['--template=' + tpl, '--template-location=' + tpl_loc] + (['-v'] if verbose else []),
                         rng.random() < 0.3, 'text')
    if 'text' in formats and usable(res, 'text'):
        txt = AG.dec(data)
        got = []
        bad = None
        for chunk in txt.split('REC' + sep)[1:]:
            main, _, rest = chunk.partition(sep + 'END')
            f = main.split(sep)
            if len(f) != 10:
                bad = chunk[:300]
                continue
            locs = []
            for lc in rest.split('\nLOC' + sep)[1:]:
                body, _, _tail = lc.partition(sep + 'LEND')
                lf = body.split(sep)
                locs.append(tuple(lf))
            got.append(tuple(f) + (tuple(locs),))
        got = [g for g in got if g[5] != 'checkersReport']

        def text_key(ef):
            p = ef.primary() or ('nofile', 0, 0, '')
            locs = tuple((l[0], str(l[1]), str(l[2]), l[3] or ef.short) for l in ef.locs) if len(ef.locs) >= 2 else ()
            return (p[0], str(p[1]), str(p[2]), ef.severity, 'INC' if ef.inconclusive else '', ef.id, str(ef.cwe),
                    ef.verbose if verbose else ef.short, _callstack(ef), ef.remark, locs)
        missing, extra = match_groups(expected, text_key, text_key, got)
        stats['formats'] += 1
        stats['compared'] += len(got)
        ctx.count('findings_compared', 'text-full-template', len(got))
        names = ('file', 'line', 'column', 'severity', 'inconclusive', 'id', 'cwe', 'message', 'callstack', 'remark',
                 'locations')
        if bad is not None:
            viol('text', 'record', bad, 'record of the full-field template cannot be split into its 10 fields:\n%r' % bad, res)
        for ef, k in missing[:2]:
            near = [g for g in extra if g[7].split(' ')[0] == k[7].split(' ')[0]]
            field = _first_diff(k, near[0], names) if near else 'missing'
            viol('text', field, ef, 'finding not rendered exactly once by the full-field template (-v: %s).\nexpected '
                 'fields: %r\nclosest record: %r' % (verbose, k, near[:1]), res)
        if not missing and extra:
            viol('text', 'extra', extra[0], 'text record that no finding justifies (duplicate or invented): %r' % (extra[0],), res)

    # ---------------- text, lossy template
    tpl2, tpl2_loc, shown = lossy_template(rng)
    verbose2 = rng.random() < 0.2
    if lossy:
        res, data = _run(c, flavour, ['--template=' + shown] + (['--template-location=' + tpl2_loc[1]] if tpl2_loc else []) +
                         (['-v'] if verbose2 else []), rng.random() < 0.3, 'lossy')
    if lossy and usable(res, 'text-lossy'):
        txt = AG.dec(data)
        rend = collections.OrderedDict()
        expected2 = expected
        if not verbose2 and not tpl2_loc:
            # documented in lib/check.cpp getErrorPath(): without -v / --xml / --template-location a value-flow
            # finding is created with its last location only; the reference for the real findings of such a run is
            # the exact read-back of the full-field template used without --template-location
            short = real_findings_short(c)
            if short is None:
                ctx.count('skipped', 'short-reference-run-unusable')
                expected2 = None
            else:
                expected2 = short + c.expected
        for ef in (expected2 or []):
            r = render(ef, tpl2, tpl2_loc[0] if tpl2_loc else '', verbose2, c.src)
            rend.setdefault(r, []).append(ef)
        # checkersReport line (not a finding) is rendered by the same template: remove it by its message
        pieces = sorted(rend, key=len, reverse=True)
        ph = 'PLACEHOLDER%s' % sha1(sep)
        cr = render(AG.EF('checkersReport', 'information', ph, ph, [], []), tpl2, '', verbose2, c.src)
        if expected2 is None:
            ok, leftover, unmatched = True, '', []
        else:
            ok, leftover, unmatched = segment(txt, pieces, re.escape(cr + '\n').replace(ph, 'Active checkers: [^\n]*'))
        stats['formats'] += 1
        stats['compared'] += len(pieces)
        ctx.count('findings_compared', 'text-lossy-template', len(pieces))
        ctx.count('lossy_templates', shown if len(shown) < 60 else shown[:57] + '...')
        if unmatched:
            ef = rend[unmatched[0]][0]
            viol('text', 'lossy-rendering', ef, 'rendering of a finding under --template=%r --template-location=%r does '
                 'not appear in the output.\nexpected rendering: %r' % (shown, tpl2_loc[1] if tpl2_loc else None,
                                                                       unmatched[0][:600]), res)
        elif not ok:
            viol('text', 'lossy-extra', leftover[:200], 'output under --template=%r has text that is no finding\'s '
                 'rendering (a rendering appears more often than findings map to it?): %r' % (shown, leftover[:400]), res)

    # ---------------- XML
    if 'xml' not in formats:
        pass
    elif c.prof.xml_ok():
        res, data = _run(c, flavour, ['--xml'], rng.random() < 0.3, 'xml')
        if usable(res, 'xml'):
            stats['formats'] += 1
            check_xml(ctx, c, expected, data, res, viol, stats, compare)
    else:
        ctx.count('format_exclusions', 'xml skipped: hostile file/symbol names (known findings)')
    # ---------------- SARIF
    if 'sarif' not in formats:
        pass
    elif c.prof.sarif_ok():
        res, data = _run(c, flavour, ['--output-format=sarif'], rng.random() < 0.3, 'sarif')
        if usable(res, 'sarif'):
            stats['formats'] += 1
            check_sarif(ctx, c, expected, data, res, viol, stats, compare)
    else:
        ctx.count('format_exclusions', 'sarif skipped: non-UTF-8 bytes in texts/names (known finding)')
    stats['injected'] = len(c.expected)
    stats['real'] = len(real)
    return stats


def check_xml(ctx, c, expected, data, res, viol, stats, compare):
    from lxml import etree
    i = data.find(b'<?xml')
    try:
        doc = etree.fromstring(data[i:] if i >= 0 else data)
    except etree.XMLSyntaxError as e:
        viol('xml', 'wellformed', repr(c.script.digest_text()), 'XML report is not well-formed: %s' % e, res)
        return
    rng_ = etree.RelaxNG(etree.parse(RNG_PATH))
    if not rng_.validate(doc):
        err = rng_.error_log[0] if len(rng_.error_log) else None
        msg = err.message if err is not None else '?'
        cls = re.sub(r'[^A-Za-z]+', '-', msg)[:60]
        viol('xml', 'rng-' + cls, cls, 'XML report does not validate against cppcheck-errors.rng: %s' % rng_.error_log, res)
    try:
        got = AG.parse_results_xml(data)
    except Exception as e:   # noqa
        viol('xml', 'wellformed', repr(c.script.digest_text()), 'XML report is not well-formed (ElementTree): %s' % e, res)
        return
    if not compare:
        return
    missing, extra = match_groups(expected, dedupe_default, lambda ef: ef.xml_key(), got)
    stats['compared'] += len(got)
    ctx.count('findings_compared', 'xml', len(got))
    names = ('id', 'severity', 'inconclusive', 'msg', 'verbose', 'locations', 'symbols', 'cwe', 'hash', 'remark', 'file0')
    for ef, k in missing[:2]:
        near = [g for g in extra if g[3].split(' ')[0] == k[3].split(' ')[0]]
        field = _first_diff(k, near[0], names) if near else 'missing'
        viol('xml', field, ef, 'finding not carried exactly once by the XML report.\nexpected: %r\nclosest: %r'
             % (k, near[:1]), res)
    if not missing and extra:
        viol('xml', 'extra', extra[0], 'XML <error> that no finding justifies (duplicate or invented): %r' % (extra[0],), res)


def check_sarif(ctx, c, expected, data, res, viol, stats, compare):
    i = data.find(b'{')
    try:
        doc = json.loads(data[i:].decode('utf-8'))
    except (ValueError, UnicodeDecodeError) as e:
        viol('sarif', 'json', repr(c.script.digest_text()), 'SARIF output is not valid (UTF-8) JSON: %s' % e, res)
        return
    problems = []
    try:
        if doc.get('version') != '2.1.0':
            problems.append('version != 2.1.0')
        if not isinstance(doc.get('$schema'), str):
            problems.append('$schema missing')
        runs = doc['runs']
        if not (isinstance(runs, list) and len(runs) == 1):
            problems.append('runs is not a one-element array')
        run = runs[0]
        drv = run['tool']['driver']
        if not isinstance(drv.get('name'), str) or not drv['name']:
            problems.append('tool.driver.name missing')
        rules = drv.get('rules', [])
        rule_ids = [r['id'] for r in rules]
        if len(set(rule_ids)) != len(rule_ids):
            problems.append('duplicate rule ids')
        results = run['results']
        got = []
        for r in results:
            if r.get('level') not in ('none', 'note', 'warning', 'error'):
                problems.append('bad level %r' % r.get('level'))
            if not isinstance(r['message']['text'], str):
                problems.append('message.text not a string')
            if r['ruleId'] not in rule_ids:
                problems.append('ruleId %r has no rule' % r['ruleId'])
            locs = []
            for l in r['locations']:
                pl = l['physicalLocation']
                reg = pl['region']
                if not (isinstance(reg['startLine'], int) and reg['startLine'] >= 1 and reg.get('startColumn', 1) >= 1):
                    problems.append('region start < 1')
                locs.append((pl['artifactLocation']['uri'], reg['startLine'], reg.get('startColumn')))
            h = r.get('partialFingerprints', {}).get('hash/v1')
            got.append((r['ruleId'], r['level'], r['message']['text'], tuple(locs), h))
        if set(rule_ids) != set(g[0] for g in got):
            problems.append('rules and result ruleIds differ')
    except (KeyError, TypeError, IndexError) as e:
        problems.append('required member missing: %r' % e)
        got = None
    if problems:
        viol('sarif', 'structure', problems[0], 'SARIF 2.1.0 structure problems: %r' % problems[:5], res)
    if got is None or not compare:
        return
    got = [g for g in got if g[0] != 'checkersReport']
    exp_loc = [ef for ef in expected if ef.locs]
    ctx.count('sarif', 'findings-without-location-not-required', len(expected) - len(exp_loc))
    missing, extra = match_groups(exp_loc, dedupe_default, sarif_key, got)
    stats['compared'] += len(got)
    ctx.count('findings_compared', 'sarif', len(got))
    names = ('ruleId', 'level', 'message', 'locations', 'hash')
    for ef, k in missing[:2]:
        near = [g for g in extra if g[2].split(' ')[0] == k[2].split(' ')[0]]
        field = _first_diff(k, near[0], names) if near else 'missing'
        viol('sarif', field, ef, 'finding not carried exactly once by the SARIF report.\nexpected: %r\nclosest: %r'
             % (k, near[:1]), res)
    if not missing and extra:
        viol('sarif', 'extra', extra[0], 'SARIF result that no finding justifies: %r' % (extra[0],), res)


# ------------------------------------------------------------------ lossy templates
def lossy_template(rng):
    """-> (template with escapes converted, (location template converted, as given) | None, template as given)"""
    fields = ['{file}', '{line}', '{column}', '{severity}', '{id}', '{message}', '{cwe}', '{callstack}',
              '{inconclusive:inconclusive}', '{inconclusive:?,}', '{remark}', '{code}']
    lits = [':', ' ', ',', ' - ', '|', '\\t', '\\n', ' [', ']', '(', ')', 'lit', '{bogus}', '%', '"', "'", '<', '>', '&',
            '{', '}', ';', '=', '\\r\\n']
    n = rng.randint(1, 6)
    parts = [rng.choice(['@', 'F:', '* '])]
    for i in range(n):
        parts.append(rng.choice(fields))
        if i < n - 1 or rng.random() < 0.3:
            parts.append(rng.choice(lits))
    shown = ''.join(parts)
    loc = None
    if rng.random() < 0.4:
        lf = ['{file}', '{line}', '{column}', '{info}', '{code}']
        lp = [rng.choice(['note: ', '  at ', '>'])]
        for i in range(rng.randint(1, 4)):
            lp.append(rng.choice(lf))
            lp.append(rng.choice([':', ' ', ',', '\\t']))
        loc_shown = ''.join(lp)
        loc = (_conv(loc_shown), loc_shown)
    # {code} ends its line with the line ending used elsewhere in the template; keep templates with {code} free of \r
    if '{code}' in shown or (loc and '{code}' in loc[1]):
        shown = shown.replace('\\r\\n', ' ')
    return _conv(shown), loc, shown


def _conv(t):
    """replaceSpecialChars of the command line parser: \\b \\n \\r \\t"""
    out = []
    i = 0
    m = {'b': '\b', 'n': '\n', 'r': '\r', 't': '\t'}
    while i < len(t):
        if t[i] == '\\' and i + 1 < len(t) and t[i + 1] in m:
            out.append(m[t[i + 1]])
            i += 2
        else:
            out.append(t[i])
            i += 1
    return ''.join(out)


def segment(text, pieces, checkers_rx):
    """Can `text` be cut into lines '<piece>\\n' using every piece exactly once (plus at most one line matching
    checkers_rx, the checkersReport summary, which is not a finding)?
    -> (ok, leftover text, pieces that occur nowhere)"""
    unmatched = [p for p in pieces if (p + '\n') not in text]
    if unmatched:
        return False, '', unmatched
    rest = text
    for p in pieces:          # longest first
        start = 0
        while True:
            i = rest.find(p + '\n', start)
            if i < 0:
                return False, rest.replace('\x00', ''), [p]
            if i == 0 or rest[i - 1] in '\n\x00':
                break
            start = i + 1
        rest = rest[:i] + '\x00' + rest[i + len(p) + 1:]
    left = ''.join(x for x in rest.split('\x00') if x)
    left = re.sub(checkers_rx, '', left, count=1)
    if left:
        return False, left, []
    return True, '', []


# ------------------------------------------------------------------ known witnesses (replayed every run)
class _AllFormats:
    hostile_files = hostile_symbols = invalid_utf8_msgs = False

    def xml_ok(self):
        return True

    def sarif_ok(self):
        return True


def replay_witnesses(ctx):
    """known/C26/witnesses.json: [{name, files: [{name_b64, text}], inject: {file name or "": [objects with
    *_b64 strings]}, formats: [...]}].  Names/texts that a JSON file or git cannot hold are base64."""
    import base64
    import random
    path = os.path.join(KNOWN_DIR, 'witnesses.json')
    if not os.path.exists(path):
        return

    def unb(o):
        if isinstance(o, dict):
            if set(o) == {'b64'}:
                return AG.dec(base64.b64decode(o['b64']))
            return {k: unb(v) for k, v in o.items()}
        if isinstance(o, list):
            return [unb(x) for x in o]
        return o
    for w in json.load(open(path)):
        w = unb(w)
        d = ctx.tmpdir('w-' + w['name'])
        c = make_case(d, [(f['name'], f['text']) for f in w['files']], w.get('inject', {}), _AllFormats(), None)
        ctx.count('witness_replays', w['name'])
        judge_case(ctx, c, 'mon', random.Random(1), 'witness:' + w['name'], lossy=False, formats=tuple(w['formats']),
                   real_override=[] if w.get('no_real') else None)
        ctx.ev()
        shutil.rmtree(d, ignore_errors=True)


# ------------------------------------------------------------------ driver
def _case(ctx, idx, flavour):
    rng = ctx.subrng('case', flavour, idx)
    d = ctx.tmpdir('%s%d' % (flavour, idx))
    c = build_case(ctx, rng, d)
    label = 'case:%s' % sha1(c.script.digest_text(), repr(c.real_sig))
    st = judge_case(ctx, c, flavour, rng, label)
    if st:
        ctx.ev()
        ctx.count('runs', flavour)
        for k in ('hostile_files', 'hostile_symbols', 'invalid_utf8_msgs'):
            if getattr(c.prof, k):
                ctx.count('profiles', k)
        for ef in c.expected:
            t = ef.short + ef.verbose
            names = ''.join(l[0] for l in ef.locs)
            for cls, hit in (('message: control characters', any(ord(ch) < 0x20 or ord(ch) == 0x7f for ch in t)),
                             ('message: invalid UTF-8 bytes', any(0xdc80 <= ord(ch) <= 0xdcff for ch in t)),
                             ('message: non-ASCII', any(0x80 <= ord(ch) < 0xdc00 or ord(ch) > 0xdfff for ch in t)),
                             ('message: < > & quotes', any(ch in t for ch in '<>&"\'')),
                             ('message: { } sequences', '{' in t),
                             ('message: ]]> or backslash', ']]>' in t or '\\' in t),
                             ('message: longer than 1000 bytes', len(t) > 1000),
                             ('message: verbose differs', ef.short != ef.verbose),
                             ('symbol names', bool(ef.symbols)),
                             ('file name: < > & quotes blanks', any(ch in names for ch in '<>&"\' ')),
                             ('file name: control / invalid UTF-8', any(ord(ch) < 0x20 or 0xdc80 <= ord(ch) <= 0xdcff for ch in names)),
                             ('locations: none', not ef.locs), ('locations: several', len(ef.locs) > 1),
                             ('cwe', bool(ef.cwe)), ('hash', bool(ef.hash))):
                if hit:
                    ctx.count('injected_classes', cls)
        if st['injected'] >= 1 and st['formats'] >= 2 and st['compared'] >= 2:
            ctx.trivial_or(label)
        ctx.sample({'sources': c.names, 'injected_findings': st['injected'], 'real_findings': st['real'],
                    'formats_read_back': st['formats'], 'records_compared': st['compared'],
                    'xml': c.prof.xml_ok(), 'sarif': c.prof.sarif_ok()})
    shutil.rmtree(d, ignore_errors=True)


def run(ctx):
    ctx.rule = ('case = 1-2 real sources + 0-20 addon-injected findings reported with a full-field template, a random '
                'lossy template, --xml and --output-format=sarif (-j1, same input); non-trivial = >= 1 injected finding, '
                '>= 2 formats read back and >= 2 records compared')
    ctx.assumptions.append('ids NCName-like; addon line/column within int range, column <= 2000; file names given in '
                           'simplified form without backslashes; SARIF need not list findings without location')
    replay_witnesses(ctx)
    n_mon = ctx.n(12, 2200)
    n_asan = ctx.n(2, 300)
    items = [('mon', i) for i in range(n_mon)] + [('asan', i) for i in range(n_asan)]
    pmap(lambda it: _case(ctx, it[1], it[0]), items, workers=4 if ctx.quick() else 8)
