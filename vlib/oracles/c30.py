"""C30 — Library configuration semantics are applied as declared.

(a) loading: generated configurations, XML-structure mutants and byte mutants of (subsets of) every
    shipped cfg/*.cfg are loaded with --library=<file> by the ASan+UBSan CLI on a one-line source:
    cppcheck either loads the file or reports a load error; a sanitizer report / abort / fatal signal /
    hang is a violation (key `crash:<top two cppcheck frames>`).
(b) semantics: generated configurations declare functions whose arguments carry <valid> expressions of
    the documented grammar, <not-null/> or <not-bool/>; generated C callers pass constants inside, on
    and outside each boundary. Model (models/validrange.py, exact arithmetic): invalidFunctionArg iff
    the constant is outside every declared range; nullPointer iff a null constant is passed to a
    not-null argument; invalidFunctionArgBool iff a boolean is passed to a not-bool argument.
    Key `valid:<valid expression>:<argument>:<missing|spurious>` / `notnull:...` / `notbool:...`.
"""
import os
import re
import shutil

from .. import build, sanreport, findings
from ..core import sha1
from ..gen import cfggen, mutate
from ..run import pmap, cppcheck

PID = 'C30'
FLAVOURS = ['asan', 'mon']
META = {
    'technique': 'sanitizer gate on the library loader (generated + mutated cfg files) and model-based oracle for '
                 '<valid>/<not-null>/<not-bool> semantics',
    'level_text': 'Sampled exploration: (a) generated, structure-mutated and byte-mutated library files loaded by the '
                  'ASan CLI; (b) generated library files with <valid> expressions over the documented grammar and C '
                  'callers passing boundary constants, findings compared per call with an exact-arithmetic reference '
                  'interpretation. Evidence counts load outcomes, range-item shapes, calls inside/on/outside a '
                  'boundary and expected-vs-reported per id.',
    'level_note': 'Boolean arguments are passed only to arguments without <valid> (cppcheck deliberately checks both 0 '
                  'and 1 for a boolean, which the statement does not speak about); one call per function body, '
                  'constants only.',
    'design_ref': 'DESIGN.md §3 C30',
}

KNOWN_DIR = os.path.join(build.VERIF, 'known', 'C30')
IDS = ('invalidFunctionArg', 'nullPointer', 'invalidFunctionArgBool')
CPU_LIMIT, WALL = 120, 600


# ------------------------------------------------------------------------------------------ (a)
def shipped_cfgs():
    d = os.path.join(build.REPO, 'cfg')
    return [os.path.join(d, f) for f in sorted(os.listdir(d)) if f.endswith('.cfg')]


def load_case(ctx, k, cfgs):
    rng = ctx.subrng('load', k)
    r = rng.random()
    if r < 0.30:
        import xml.etree.ElementTree as ET
        root = ET.fromstring(cfggen.random_cfg(rng))
        for x in cfggen.sanitize(root):
            ctx.count('generator_exclusions_applied(finding)', x)
        data, kind, src = cfggen.to_bytes(root), 'generated', 'cfggen'
    else:
        path = rng.choice(cfgs)
        src = os.path.basename(path)
        root = cfggen.subset_of_shipped(rng, path)
        if r < 0.75:
            kinds = cfggen.structure_mutant(rng, root)
            for x in cfggen.sanitize(root):
                ctx.count('generator_exclusions_applied(finding)', x)
            data, kind = cfggen.to_bytes(root), 'structure-mutant'
        else:
            data, kinds = mutate.mutate_bytes(rng, cfggen.to_bytes(root))
            kind = 'byte-mutant'
        for x in kinds:
            ctx.count('load_mutations', x)
    return data, kind, src


def run_load(ctx, k, data, kind, src, name='m.cfg'):
    d = ctx.tmpdir()
    try:
        with open(os.path.join(d, name), 'wb') as f:
            f.write(data)
        with open(os.path.join(d, 't.c'), 'w') as f:
            f.write('int main(void) { char *p = malloc(10); free(p); return 0; }\n')
        res = _limited_cppcheck(['-q', '--library=' + name, '--enable=warning', 't.c'], 'asan', d)
        ctx.ev()
        ctx.count('load_cases', kind)
        digest = sha1(data)
        cmd = 'cd <replay dir> && ' + res.cmdline()
        if res.timed_out or res.rc in (-24, 152):
            # loader never needs minutes for a few KiB of XML: confirm alone on the optimised build
            r2 = _limited_cppcheck(['-q', '--library=' + name, 't.c'], 'mon', d, cpu=30)
            if r2.rc in (-24, 152):
                ctx.violation('hang:%s:--library' % digest, 'library loading does not terminate (%d CPU-s ASan, 30 CPU-s '
                              'optimised build); %s from %s' % (CPU_LIMIT, kind, src), files={name: data, 't.c': '@' + os.path.join(d, 't.c')}, cmd=cmd)
            else:
                ctx.inconclusive('library load case %d overran its budget on the ASan build only' % k)
            return
        crash = sanreport.classify(res)
        if crash is not None:
            ctx.count('load_outcome', 'crash')
            key = crash.key(digest)
            ctx.violation(key, '%s while loading a %s of %s: %s\n%s' % (
                crash.kind + (' [' + crash.detail + ']' if crash.detail else ''), kind, src, ' <- '.join(crash.frames[:4]), crash.excerpt[:2500]),
                files={name: data, 't.c': '@' + os.path.join(d, 't.c')}, cmd=cmd)
            return
        out = res.otext() + res.etext()
        if res.rc == 0:
            ctx.count('load_outcome', 'loaded')
            ctx.trivial_or('load:' + digest)
        elif res.rc == 1 and re.search(r'Failed to load library|error: ', out):
            m = re.search(r"Failed to load library configuration file '[^']*'\. (.*?)(?:\n|$)", out)
            ctx.count('load_outcome', 'rejected')
            ctx.count('load_errors', (m.group(1)[:40] if m else out.strip()[:40]))
            ctx.trivial_or('load:' + digest)
        else:
            ctx.count('load_outcome', 'odd-exit')
            ctx.violation('load-exit:%s:%s' % (res.rc, digest), 'neither loaded nor reported a load error: rc=%s\n%s' % (res.rc, out[-1500:]),
                          files={name: data}, cmd=cmd)
    finally:
        shutil.rmtree(d, ignore_errors=True)


def _limited_cppcheck(args, flavour, cwd, cpu=CPU_LIMIT):
    from ..run import run as run_cmd, base_env
    return run_cmd(['prlimit', '--cpu=%d' % cpu, build.binary(flavour)] + args, cwd=cwd, env=base_env(), timeout=WALL)


# ------------------------------------------------------------------------------------------ (b)
def sem_case(ctx, k, fixed=None):
    rng = ctx.subrng('sem', k)
    if fixed:
        cfg, src, calls = fixed
    else:
        cfg, src, calls = cfggen.semantic_case(rng, ncalls=ctx.n(20, 40) if ctx.quick() else 40)
    if not calls:
        return
    d = ctx.tmpdir()
    try:
        with open(os.path.join(d, 'v.cfg'), 'w') as f:
            f.write(cfg)
        with open(os.path.join(d, 't.c'), 'w') as f:
            f.write(src)
        res = cppcheck(['-q', '--xml', '--library=v.cfg', '--enable=warning', 't.c'], flavour='mon', cwd=d, timeout=300)
        if res.timed_out:
            ctx.inconclusive('watchdog in semantic case %d' % k)
            return
        if sanreport.classify(res) is not None or res.rc != 0:
            ctx.violation('sem-run:%s' % sha1(cfg, src), 'semantic case did not run normally: rc=%s\n%s' % (res.rc, (res.otext() + res.etext())[-1500:]),
                          files={'v.cfg': cfg, 't.c': src}, cmd='cd <replay dir> && ' + res.cmdline())
            return
        try:
            fs = findings.parse_xml(res.err)
        except findings.XmlError as e:
            ctx.inconclusive('unparsable XML in semantic case %d: %s' % (k, e))
            return
        got = {}
        for f in fs:
            if f.id in IDS and f.locs:
                got.setdefault(f.locs[0][1], set()).add(f.id)
            elif f.id in ('syntaxError', 'internalError', 'internalAstError'):
                ctx.inconclusive('generated caller rejected in case %d: %s' % (k, f.msg))
                return
        ctx.ev()
        nontrivial = 0
        for c in calls:
            exp = c.expect
            rep = got.get(c.line, set())
            cls = c.kind
            if c.kind == 'valid':
                for item in c.detail.split(','):
                    shape = ('float-' if '.' in item else '') + ('single' if ':' not in item else 'le' if item.startswith(':') else
                                                                 'ge' if item.endswith(':') else 'range')
                    ctx.count('valid_item_shapes', shape)
                bs = cfggen.validrange.boundaries(c.detail)
                pos = 'on-boundary' if c.value in bs else 'boundary+-1' if any(abs(c.value - b) <= 1 for b in bs) else 'far'
                ctx.count('valid_calls', '%s/%s' % (pos, 'outside' if exp else 'inside'))
            ctx.count('expected', '%s:%s' % (cls, ','.join(sorted(exp)) or 'none'))
            if exp:
                nontrivial += 1
            if exp == rep:
                ctx.count('agreement', cls)
                continue
            direction = 'missing' if exp - rep else 'spurious'
            what_id = sorted((exp - rep) or (rep - exp))[0]
            if c.kind == 'valid':
                key = 'valid:%s:%s:%s' % (c.detail, c.argtext, direction)
            elif c.kind == 'not-null':
                key = 'notnull:%s:%s' % (c.argtext, direction)
            else:
                key = 'notbool:%s:%s' % (c.argtext, direction)
            ctx.count('disagreement', '%s:%s:%s' % (cls, what_id, direction))
            ctx.violation(key, '%s of %s: call `%s(... arg %d = %s ...)` at t.c:%d, argument declared %s; model expects %s, '
                          'cppcheck reported %s' % (direction, what_id, c.func, c.argnr, c.argtext, c.line,
                                                    ('<valid>%s</valid>' % c.detail) if c.kind == 'valid' else '<%s/>' % c.detail,
                                                    sorted(exp) or 'nothing', sorted(rep) or 'nothing'),
                          files={'v.cfg': cfg, 't.c': src}, cmd='cd <replay dir> && ' + res.cmdline())
        if nontrivial and len(calls) >= 3:
            ctx.trivial_or('sem:' + sha1(cfg, src))
        if len(ctx.samples) < 4:
            ctx.sample({'valid_expressions': sorted({c.detail for c in calls if c.kind == 'valid'})[:6],
                        'calls': ['%s(arg%d=%s) -> %s' % (c.func, c.argnr, c.argtext, sorted(c.expect) or 'none') for c in calls[:6]]})
    finally:
        shutil.rmtree(d, ignore_errors=True)


def known_sem_cases():
    """witnesses: known/C30/<name>/{v.cfg,t.c,expect.txt}; expect.txt lines: <line> <argnr> <kind> <detail>|<argtext>|<expected ids or ->"""
    out = []
    if not os.path.isdir(KNOWN_DIR):
        return out
    for dname in sorted(os.listdir(KNOWN_DIR)):
        p = os.path.join(KNOWN_DIR, dname)
        if not os.path.isfile(os.path.join(p, 'expect.txt')):
            continue
        calls = []
        for line in open(os.path.join(p, 'expect.txt')):
            line = line.rstrip('\n')
            if not line or line.startswith('#'):
                continue
            ln, argnr, kind, rest = line.split(' ', 3)
            detail, argtext, exp = rest.split('|')
            c = cfggen.Call()
            c.line, c.argnr, c.kind, c.detail, c.argtext = int(ln), int(argnr), kind, detail, argtext
            c.func = 'fn'
            c.expect = set() if exp.strip() == '-' else set(exp.strip().split(','))
            from fractions import Fraction
            try:
                c.value = Fraction(argtext)
            except (ValueError, ZeroDivisionError):
                c.value = None
            calls.append(c)
        out.append((open(os.path.join(p, 'v.cfg')).read(), open(os.path.join(p, 't.c')).read(), calls))
    return out


def run(ctx):
    ctx.rule = ('(a) case = one ASan CLI process loading one generated/mutated library file; non-trivial = the process '
                'ended normally with "loaded" or a reported load error. (b) case = one generated library + caller file '
                'analysed by the CLI; non-trivial = >= 3 calls were compared with the model and at least one of them '
                'was expected to be reported (so both verdict directions were exercised)')
    cfgs = shipped_cfgs()
    nload = ctx.n(70, 20000)
    nsem = ctx.n(50, 5000)

    def job(j):
        kind, k = j
        if kind == 'load':
            data, mk, src = load_case(ctx, k, cfgs)
            run_load(ctx, k, data, mk, src)
        elif kind == 'known':
            sem_case(ctx, 'known%d' % k[0], fixed=k[1])
        elif kind == 'known-load':
            run_load(ctx, k[0], k[1], 'known-witness', 'known/C30/' + k[0])
        else:
            sem_case(ctx, k)

    jobs = [('known', (i, kc)) for i, kc in enumerate(known_sem_cases())]
    if os.path.isdir(KNOWN_DIR):
        for dname in sorted(os.listdir(KNOWN_DIR)):
            p = os.path.join(KNOWN_DIR, dname, 'm.cfg')
            if os.path.isfile(p):
                jobs.append(('known-load', (dname, open(p, 'rb').read())))
    jobs += [('sem', k) for k in range(nsem)] + [('load', k) for k in range(nload)]
    pmap(job, jobs, workers=12)
    if not ctx.cov.get('agreement'):
        ctx.inconclusive('no semantic call was compared')
