"""C09 — Expression types follow the language's conversion rules.

Differential monitor: typed random expressions (vlib/gen/exprgen.py) are analysed by
`cppcheck --dump --platform=P`; for every node of the generator's tree whose cppcheck token carries a
value type, (valueType-type, -sign, -pointer) must equal the type clang gives the same node for the
matching --target, reduced to (base, sign, pointer depth).  A statement is used only if clang's tree and
cppcheck's tree both equal the generator's tree (so that nodes correspond one to one); tokens to which
cppcheck assigns no type are not judged.
"""
import os
import re
import shutil

from .. import run as vrun
from ..core import sha1
from ..gen import exprgen
from ..models import cdump, exprcmp, platforms

PID = 'C09'
FLAVOURS = ['mon']
META = {
    'technique': 'differential monitor: cppcheck --dump valueType vs clang expression types per target',
    'level_text': 'Sampled exploration: generated typed expressions over bool, all char kinds, short…long long, '
                  'unsigned variants, enum, float/double/long double, pointers, arrays, struct members and bit-fields '
                  'with every arithmetic, bitwise, shift, comparison, logical, conditional, assignment, cast, call, '
                  'subscript and member operator, in C and C++, on the built-in platforms (native, unix64, unix32, '
                  'win32A, win32W, win64) and on generated platform files mirroring clang targets (avr, msp430, '
                  'mips32, riscv32, arm32, aarch64); every typed token is compared with clang\'s type of the same '
                  'node for the matching target.',
    'level_note': 'Sampled. Only tokens to which cppcheck assigns a type are judged; a node is reported only if '
                  'all its operands agree (root cause), nodes above a mismatch are counted as propagated. Enum '
                  'types are reduced to their underlying type, arrays to pointers, C wchar_t literals to the '
                  'target\'s wchar_t type (representation conventions of cppcheck\'s ValueType).',
    'design_ref': 'DESIGN.md §3 C09',
}

KNOWN_DIR = os.path.join(os.path.dirname(os.path.dirname(os.path.dirname(os.path.abspath(__file__)))), 'known', 'C09')

ENUMS = {'E': 'int'}     # enum E has a negative enumerator: underlying type int in C and C++

NARROW = {'bool', 'char', 'short', 'wchar_t', 'char16_t'}


def _size_t_ok(plat):
    return plat.size_type == ('unsigned long long' if plat.name == 'win64' else 'unsigned long')


# Exclusions of the *generator* that exist because of a listed finding (the construct is not generated):
# name -> (finding key of the witness, condition (lang, plat) under which the exclusion is in force)
FINDING_EXCLUSIONS = {
    'compare': ('expr:i1<i2:unix64', lambda lang, plat: lang == 'c'),
    'sizeof': ('expr:sizeof(int):unix32', lambda lang, plat: not _size_t_ok(plat)),
    'incdec-narrow': ('expr:c1++:unix64', lambda lang, plat: True),
    'ptrdiff': ('expr:pi1-pi2:unix64', lambda lang, plat: plat.ptrdiff_type != 'int'),
    'cxx-char-escape': ("expr:'\\101':unix64/c++", lambda lang, plat: lang == 'c++'),
    'bitfield': ('expr:st1.bf+1:unix64', lambda lang, plat: True),
    'fcast-enum-deref': ('expr:E(*pi1):unix64/c++', lambda lang, plat: lang == 'c++'),
}

# Not findings: what a platform *file* cannot say.  wchar_t is `unsigned int` on arm/aarch64 but a platform file
# only carries its size, so wchar_t arithmetic is not determined by the platform description there.
MODEL_LIMIT_EXCLUSIONS = {
    'no-wchar': lambda lang, plat: plat.generated and plat.wchar_type.startswith('unsigned')
                and plat.sizes['wchar_t'] >= plat.sizes['int'],
}


def _lit_value(txt):
    t = txt.rstrip('uUlL')
    try:
        if t[:2] in ('0x', '0X'):
            return int(t, 16), 'hex'
        if t[:2] in ('0b', '0B'):
            return int(t[2:], 2), 'hex'
        if len(t) > 1 and t[0] == '0' and t.isdigit():
            return int(t, 8), 'oct'
        if t.isdigit():
            return int(t), 'dec'
    except ValueError:
        pass
    return None, None


def _rt(pairs, n):
    cn = pairs.get(id(n))
    if cn is None:
        return None
    return exprcmp.reduce_clang_type(exprcmp.clang_type(cn), ENUMS)


def _promoted(t, plat):
    """integer promotion of a reduced arithmetic type"""
    if t is None or t[2]:
        return t
    if t[0] in ('bool', 'char'):
        return ('int', 'signed', 0)
    if t[0] == 'short':
        if t[1] == 'unsigned' and plat.sizes['short'] == plat.sizes['int']:
            return ('int', 'unsigned', 0)
        return ('int', 'signed', 0)
    return t


INTS = ('bool', 'char', 'short', 'wchar_t', 'int', 'long', 'long long')


def pat_cond_same_rank(n, pairs, lang, plat):
    """`c ? a : b` with a and b of the same integer rank: cppcheck gives the type of `a` unchanged (no integer
    promotion, no signed/unsigned merge)"""
    if n.k != 'cond':
        return False
    a, b = _rt(pairs, n.ch[1]), _rt(pairs, n.ch[2])
    if not (a and b) or a[2] or b[2] or a[0] not in INTS or b[0] not in INTS:
        return False
    if a[0] != b[0]:
        return a[0] in NARROW and b[0] in NARROW
    if a[0] == 'bool':
        return lang == 'c'
    return a[0] in NARROW or a[1] != b[1]


def pat_same_size_rank(n, pairs, lang, plat):
    """usual arithmetic conversions: signed type of higher rank with an unsigned type of lower rank but equal
    size (long/unsigned int on ILP32 and LLP64, long long/unsigned long on LP64) must give the unsigned type of
    the higher rank; cppcheck compares ranks only"""
    if n.k == 'cond':
        ops = n.ch[1:]
    elif n.k == 'bin' and n.op in ('+', '-', '*', '/', '%', '&', '|', '^'):
        ops = n.ch
    elif n.k == 'assign' and n.op != '=':
        return False
    else:
        return False
    ts = []
    for c in ops:
        t = _promoted(_rt(pairs, c), plat)
        if t is None or t[2] or t[0] not in ('int', 'long', 'long long'):
            return False
        ts.append(t)
    a, b = ts
    rank = {'int': 0, 'long': 1, 'long long': 2}
    if rank[a[0]] < rank[b[0]]:
        a, b = b, a
    return (rank[a[0]] > rank[b[0]] and a[1] == 'signed' and b[1] == 'unsigned'
            and plat.sizes[a[0]] == plat.sizes[b[0]])


def pat_ushort_16(n, pairs, lang, plat):
    if plat.sizes['short'] != plat.sizes['int']:
        return False
    if not (n.k in ('bin', 'cond') or (n.k == 'pre' and n.op in ('-', '~'))):
        return False
    if n.k == 'bin' and n.op in (',', '&&', '||'):
        return False
    ops = n.ch[1:] if n.k == 'cond' else n.ch
    for c in ops:
        t = _rt(pairs, c)
        if t and not t[2] and t[0] == 'short' and t[1] == 'unsigned':
            return True
    return False


def pat_hex_literal(n, pairs, lang, plat):
    if n.k != 'leaf' or 'lit' not in n.flags or 'chr' in n.flags:
        return False
    v, base = _lit_value(n.txt.replace("'", ''))
    if v is None or base != 'hex':
        return False
    for ty in ('int', 'long'):
        b = plat.bits(ty)
        if (1 << b) <= v < (1 << (b + 1)):
            return True
    return False


def pat_octal_literal(n, pairs, lang, plat):
    if n.k != 'leaf' or 'lit' not in n.flags or 'chr' in n.flags:
        return False
    v, base = _lit_value(n.txt.replace("'", ''))
    return base == 'oct' and v > (1 << (plat.bits('int') - 1)) - 1


# Finding-keyed rejection of generated statements, decided with the reference types (the generator does not
# compute exact types): a statement containing a node that matches a pattern is not used.
# name -> (finding key of the witness, predicate)
FINDING_PATTERNS = [
    ('cond-same-rank', 'expr:i1?sc1:uc1:unix64', pat_cond_same_rank),
    ('same-size-rank', 'expr:l1+u1:unix32', pat_same_size_rank),
    ('ushort-promotion-16bit-int', 'expr:s1*us2:avr', pat_ushort_16),
    ('hex-literal-range', 'expr:0x100000000:unix64', pat_hex_literal),
    ('octal-literal-as-decimal', 'expr:037777777777:unix64', pat_octal_literal),
]


def keyof(text, plat, lang):
    return 'expr:%s:%s' % (re.sub(r'\s+', '', text), plat + ('' if lang == 'c' else '/c++'))


def excl_for(lang, plat):
    """generator exclusions in force for this language/platform (each named after a finding)"""
    ex = set(C07_SHAPE_EXCL)
    for name, (key, cond) in FINDING_EXCLUSIONS.items():
        if cond(lang, plat):
            ex.add(name)
    for name, cond in MODEL_LIMIT_EXCLUSIONS.items():
        if cond(lang, plat):
            ex.add(name)
    return ex


# C07's shape exclusions are needed here too (nodes must correspond one to one)
C07_SHAPE_EXCL = ['xor-incdec', 'stmt-name-comma', 'return-name-op-cast', 'sizeof-unparen', 'enum-cast-unary',
                  'delete-prefix-op', 'new-less', 'andassign-decl-heuristic', 'paren-decl-heuristic',
                  'enumerator-angle-chain', 'new-comma']


def cpp_type(t, lang, plat):
    """(base, sign, pointer) cppcheck reports for token t, in the reference vocabulary; None if untyped"""
    vt = cdump.vtype(t)
    if vt is None:
        return None
    base, sign, ptr = vt
    if base == 'wchar_t' and lang == 'c':
        b = exprcmp._BASE.get(plat.wchar_type)
        if b:
            return (b[0], b[1], ptr)
    return vt


def ref_type(cn, lang, plat):
    q = exprcmp.clang_type(cn)
    return exprcmp.reduce_clang_type(q, ENUMS), q


def same(a, b, plat=None):
    """a = cppcheck's, b = reference"""
    if a[0] != b[0] or a[2] != b[2]:
        return False
    if a[0] == 'char' and b[1] == '' and plat is not None:
        # plain char: cppcheck reports either no sign or the platform's default sign
        return a[1] in ('', 'unsigned' if plat.char_unsigned else 'signed')
    if a[0] in ('bool', 'float', 'double', 'long double', 'record', 'void', 'wchar_t', 'char16_t', 'char32_t'):
        return True
    return a[1] == b[1]


class TokIndex:
    def __init__(self, pu, seps=()):
        """seps: (line, col, n) of generated numeric literals containing n digit separators; cppcheck's columns
        of the tokens that follow such a literal on the same line are smaller by n (simplecpp drops the
        separators before columns are counted)"""
        self.m = {}
        self.seps = {}
        for line, col, n in seps:
            self.seps.setdefault(line, []).append((col, n))
        for line, toks in pu.bylines.items():
            for t in toks:
                col = pu.numcol(t) if t.get('type') == 'number' else t.col
                self.m.setdefault((line, col), []).append(t)

    def at(self, pos, s=None):
        sh = sum(n for c, n in self.seps.get(pos[0], ()) if c < pos[1])
        c = self.m.get((pos[0], pos[1] - sh), [])
        if s is not None:
            c = [t for t in c if t.str == s]
        return c[0] if len(c) >= 1 else None


def node_token(n, ti, pu):
    """the cppcheck token that carries the type of generator node n"""
    k = n.k
    if k == 'leaf':
        if 'tmpl' in n.flags or n.cat == 'fn':
            return None
        return ti.at(n.pos)
    if k in ('bin', 'assign', 'pre', 'post', 'cond', 'idx', 'new'):
        return ti.at(n.pos)
    if k == 'mem':
        return ti.at(n.pos, '.')
    if k in ('cast', 'call', 'fcast', 'ncast'):
        return ti.at(n.pos, '(')
    if k in ('sze', 'szt'):
        t = ti.at(n.pos, 'sizeof')
        return pu.d.parent(t) if t is not None else None
    if k == 'qual':
        return ti.at(n.pos)
    return None


def opdesc(n):
    if n.k in ('bin', 'assign'):
        return n.op
    if n.k in ('pre', 'post'):
        return n.k + n.op
    if n.k == 'leaf':
        if 'lit' in n.flags:
            return 'literal'
        return 'name'
    return n.k


def witnesses():
    """(platform, language, statement tree) — one per listed finding; replayed on every run through exactly the
    same pipeline as generated statements (finding patterns switched off)"""
    from ..gen.exprgen import L, B, A, U, PO, CAST, Q, SZT, SZE, M, Node
    W = [
        ('unix64', 'c', A('=', L('i3'), B('<', L('i1'), L('i2')))),
        ('unix64', 'c', A('=', L('i3'), B('&&', L('i1'), L('i2')))),
        ('unix64', 'c', A('=', L('i3'), U('!', L('i1')))),
        ('unix32', 'c', A('=', L('u1'), SZT('int'))),
        ('avr', 'c', A('=', L('u1'), SZE(L('l1')))),
        ('win32A', 'c++', A('=', L('u1'), SZT('int'))),
        ('unix64', 'c', A('=', L('i1'), PO('++', L('c1')))),
        ('unix64', 'c', A('=', L('i1'), U('--', L('us1')))),
        ('unix64', 'c++', A('=', L('i1'), PO('++', L('s1')))),
        ('unix64', 'c', A('=', L('l1'), B('-', L('pi1'), L('pi2')))),
        ('win64', 'c++', A('=', L('ll1'), B('-', L('pi1'), L('pi2')))),
        ('unix64', 'c++', A('=', L('i1'), L("'\\101'"))),
        ('unix64', 'c', A('=', L('i1'), B('+', M('.', L('st1'), 'bf'), L('1')))),
        ('unix64', 'c++', A('=', L('i1'), B('&', M('.', L('st1'), 'bf'), L('3')))),
        ('unix64', 'c', A('=', L('i2'), Q(L('i1'), L('sc1'), L('uc1')))),
        ('unix64', 'c', A('=', L('i2'), Q(L('i1'), L('c1'), L('c2')))),
        ('unix64', 'c', A('=', L('ull1'), Q(L('i1'), L('ll1'), L('ull1')))),
        ('unix64', 'c++', A('=', L('u1'), Q(L('i1'), L('i2'), L('u1')))),
        ('unix32', 'c', A('=', L('l1'), B('+', L('l1'), L('u1')))),
        ('win64', 'c', A('=', L('l1'), B('+', L('l1'), L('u1')))),
        ('unix64', 'c', A('=', L('ull1'), B('+', L('ll1'), L('ul1')))),
        ('avr', 'c', A('=', L('u1'), B('*', L('s1'), L('us2')))),
        ('msp430', 'c', A('=', L('u1'), U('~', L('us1')))),
        ('unix64', 'c', A('=', L('ll1'), L('0x100000000'))),
        ('avr', 'c', A('=', L('l1'), L('0x10000'))),
        ('unix64', 'c', A('=', L('ll1'), L('037777777777'))),
        ('win32W', 'c', A('=', L('ll1'), L('037777777777'))),
        ('unix64', 'c++', A('=', L('i1'), Node('fcast', op='E', ch=[U('*', L('pi1'))]))),
    ]
    return W


def replay_witnesses(ctx, plats):
    byname = {p.name: p for p in plats}
    groups = {}
    for pl, lang, st in witnesses():
        groups.setdefault((pl, lang), []).append(st)
    for (pl, lang), sts in sorted(groups.items()):
        u = exprgen.unit_from(lang, sts)
        d = ctx.tmpdir('w_%s_%s' % (pl, 'cxx' if lang == 'c++' else 'c'))
        szt = [x.pos for st in u.stmts.values() for x in st.walk() if x.k == 'szt']
        n = check_unit(ctx, d, 'w' + u.ext(), u.text(), lang, byname[pl], u.stmts, szt, [], None, use_patterns=False)
        ctx.count('witness', 'statements replayed', len(sts))


def check_unit(ctx, d, name, text, lang, plat, stmts, szt, nums, dbg=None, use_patterns=True):
    path = os.path.join(d, name)
    with open(path, 'w') as f:
        f.write(text)
    parg = plat.cppcheck_arg(d)
    r = vrun.cppcheck(['--dump', '-q', '--language=' + lang, parg, name], cwd=d)
    if r.timed_out:
        ctx.inconclusive('watchdog fired on %s' % name)
        return 0
    root, cerr = exprcmp.clang_ast(path, lang, plat)
    if root is None:
        ctx.count('dropped', 'unit: clang rejects the generated unit')
        ctx.sample({'clang-rejected-unit': cerr[:300]})
        return 0
    dump_path = path + '.dump'
    try:
        dump = cdump.load(dump_path)
    except Exception as e:
        ctx.count('dropped', 'unit: dump missing/unreadable (%s)' % type(e).__name__)
        return 0
    os.unlink(dump_path)
    if b'syntaxError' in r.err or not dump.ok:
        ctx.count('dropped', 'unit: cppcheck does not accept the unit')
        return 0
    bad = platforms.check_dump_platform(plat, dump.platform)
    if bad:
        ctx.inconclusive('platform pairing broken for %s: %s' % (plat.name, '; '.join(bad)))
        return 0
    cu = exprcmp.ClangUnit(root, text)
    pu = exprcmp.CppUnit(dump, szt, nums)
    ti = TokIndex(pu)
    lines = text.split('\n')
    judged_total = 0
    for line in sorted(stmts):
        st = stmts[line]
        cst = cu.stmts.get(line)
        if cst is None:
            ctx.count('dropped', 'statement: clang has no statement on the line')
            continue
        g = exprgen.canon(st)
        if cu.canon(cst) != g:
            ctx.count('dropped', 'statement: clang tree != generator tree')
            continue
        roots = pu.roots(line)
        if st.k == 'decl':
            eqcol = st.pos[1]
            roots = [t for t in roots if not all(x.col < eqcol for x in pu.tree_tokens(t))]
        if [pu.canon(t) for t in roots] != [g]:
            ctx.count('dropped', 'statement: cppcheck tree != generator tree (C07)')
            continue
        pairs = {}
        cu.pair(st, cst, pairs)
        hit = None
        for x in (st.walk() if use_patterns else ()):
            for pname, pkey, pred in FINDING_PATTERNS:
                if pred(x, pairs, lang, plat):
                    hit = pname
                    break
            if hit:
                break
        if hit:
            ctx.count('excluded_by_finding_pattern', hit)
            continue
        ctx.ev()
        # bottom-up: status[node] = 'ok' | 'bad' | 'untyped' | 'noref'
        status = {}
        judged = 0

        def visit(n):
            nonlocal judged
            child_bad = False
            for c in n.ch:
                visit(c)
                if status.get(id(c)) in ('bad', 'propagated'):
                    child_bad = True
            cn = pairs.get(id(n))
            if cn is None or n.k in ('kw', 'decl', 'delete') or cn.get('kind') == 'VarDecl':
                status[id(n)] = 'propagated' if child_bad else 'noref'
                return
            tok = node_token(n, ti, pu)
            if tok is None:
                status[id(n)] = 'propagated' if child_bad else 'untyped'
                return
            ct = cpp_type(tok, lang, plat)
            if ct is None:
                ctx.count('untyped_by_cppcheck', opdesc(n))
                status[id(n)] = 'propagated' if child_bad else 'untyped'
                return
            rt, q = ref_type(cn, lang, plat)
            if rt is None:
                ctx.count('dropped', 'node: reference type has no (base, sign, pointer) reduction')
                status[id(n)] = 'propagated' if child_bad else 'noref'
                return
            judged += 1
            ctx.count('judged_by_operator', opdesc(n))
            ctx.count('judged_by_reference_type', '%s%s%s' % (rt[1] + ' ' if rt[1] else '', rt[0], '*' * rt[2]))
            if same(ct, rt, plat):
                status[id(n)] = 'propagated' if child_bad else 'ok'
                return
            if child_bad:
                ctx.count('mismatch', 'propagated from an operand (not reported)')
                status[id(n)] = 'propagated'
                return
            status[id(n)] = 'bad'
            ntext = exprgen.node_text(None, line, n) if False else lines[line - 1][n.span[0] - 1:n.span[1] - 1]
            optypes = []
            for c in n.ch:
                cc = pairs.get(id(c))
                optypes.append(exprcmp.clang_type(cc) if cc is not None else '?')
            what = ('%s, platform %s (clang --target=%s)\n  expression: %s\n  in statement: %s\n  clang type: %s -> %s\n'
                    '  cppcheck valueType: %s\n  operand types (clang): %s'
                    % (lang, plat.name, plat.triple, ntext, lines[line - 1].strip(), q, rt, ct, ', '.join(map(str, optypes))))
            if dbg is not None:
                dbg.append((opdesc(n), tuple(optypes), q, ct, plat.name, lang, ntext))
            exprcmp.report(ctx, keyof(ntext, plat.name, lang), what, files={name: text},
                          cmd='cppcheck --dump -q --language=%s %s %s   # line %d, token at column %d' % (
                              lang, parg if not plat.generated else '--platform=<generated %s.xml>' % plat.name,
                              name, line, n.pos[1]))

        visit(st)
        judged_total += judged
        ctx.count('hist_typed_nodes_per_statement', min(judged, 20))
        if judged >= 3:
            ctx.trivial_or(sha1(lines[line - 1] + plat.name))
            ctx.sample({'statement': lines[line - 1].strip(), 'platform': plat.name, 'typed_nodes_judged': judged})
    return judged_total


def _case(ctx, idx, plats, nst, dbg):
    rng = ctx.subrng('unit', idx)
    lang = 'c' if idx % 2 == 0 else 'c++'
    plat = plats[(idx // 2) % len(plats)]
    excl = excl_for(lang, plat)
    u = exprgen.gen_unit(rng, lang, nstmts=nst, per_func=50, excl=excl, maxdepth=4, lit_rich=True)
    d = ctx.tmpdir('u%d' % idx)
    szt = [x.pos for st in u.stmts.values() for x in st.walk() if x.k == 'szt']
    nums = [(x.pos[0], x.pos[1], len(x.txt)) for st in u.stmts.values() for x in st.walk()
            if x.k == 'leaf' and exprgen.leaftext(x.txt) == '#']
    n = check_unit(ctx, d, 'u%d%s' % (idx, u.ext()), u.text(), lang, plat, u.stmts, szt, nums, dbg)
    ctx.count('units', '%s/%s' % (plat.name, lang))
    ctx.count('typed_nodes_judged', plat.name, n)
    shutil.rmtree(d, ignore_errors=True)


def run(ctx):
    ctx.rule = ('case = one generated statement on one platform, used only if clang, cppcheck and the generator '
                'agree on its tree; non-trivial = statement in which >= 3 typed tokens were compared with clang')
    plats = [platforms.get(n) for n in platforms.ALL]
    for p in plats:
        if not p.ok:
            ctx.inconclusive('clang target %s unavailable' % p.triple)
            return
    ctx.cov['normalisation_exclusions'] = list(exprgen.NORMALISATION_EXCLUSIONS)
    ctx.cov['finding_exclusions'] = {k: v[0] for k, v in FINDING_EXCLUSIONS.items()}
    ctx.cov['finding_patterns'] = {p[0]: p[1] for p in FINDING_PATTERNS}
    ctx.cov['platforms'] = {p.name: p.triple for p in plats}
    dbg = [] if os.environ.get('C09_DEBUG') else None
    replay_witnesses(ctx, plats)
    nexpr = ctx.n(2000, 100000)
    per = 40
    units = max(len(plats) * 2, (nexpr + per - 1) // per)
    vrun.pmap(lambda i: _case(ctx, i, plats, per, dbg), range(units), workers=8)
    if dbg is not None:
        import collections
        c = collections.Counter((a, b, cq, str(ct)) for (a, b, cq, ct, p, l, t) in dbg)
        ex = {}
        for (a, b, cq, ct, p, l, t) in dbg:
            ex.setdefault((a, b, cq, str(ct)), []).append('%s/%s: %s' % (p, l, t))
        for k, v in sorted(c.items(), key=lambda x: -x[1]):
            print('DBG %4d op=%s operands=%s clang=%s cppcheck=%s   e.g. %s' % (v, k[0], k[1], k[2], k[3], ex[k][0][:100]))
